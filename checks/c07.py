"""C07 - X25519 / Montgomery operations conform to RFC 7748 (layer F part): ladder step vs RFC 7748 section 5,
as_affine, to_montgomery, to_edwards (u = -1 rejection, birational map, then Edwards decoding), Elligator2 map,
Montgomery equality modulo p.  The ladder skeleton, clamping and the x25519-dalek glue are the layer-G / Kani parts."""
from vp import build
from vp.fharness import *
from vp.lharness import run_tasks
from checks.c01f import find_fn
from checks.c06 import neg_of, eqz_of, sqrt_of, Missing

D = C(fconst.D)
A = C(486662)

def harnesses(rep, cfg, modpath):
    T = []
    def H(name, fn, body, **kw): T.append(lambda: run_paths(rep, "%s/%s" % (cfg, name), cfg, modpath, fn, body, **kw))

    def b_step(it):
        fn = find_fn(it.mod, "27differential_add_and_double")
        x2, z2, x3, z3, x1 = V("x2"), V("z2"), V("x3"), V("z3"), V("x1")
        Pp = put_point(it, "P", [x2, z2]); Qp = put_point(it, "Q", [x3, z3]); dp = put_point(it, "d", [x1])
        it.call(fn, [Pp, Qp, dp])
        PU, PW = get_fes(it, Pp, 2); QU, QW = get_fes(it, Qp, 2)
        # RFC 7748 section 5 (a24 = 121665)
        Aa = x2 + z2; AA = Aa * Aa; B = x2 - z2; BB = B * B; E = AA - BB
        Cc = x3 + z3; Dd = x3 - z3; DA = Dd * Aa; CB = Cc * B
        nx3 = (DA + CB) * (DA + CB); nz3 = x1 * (DA - CB) * (DA - CB)
        nx2 = AA * BB; nz2 = E * (AA + E.scale(121665))
        return [("x_2' == AA*BB", PU - nx2), ("z_2' == E*(AA + a24*E)", PW - nz2), ("x_3' == (DA+CB)^2", QU - nx3), ("z_3' == x_1*(DA-CB)^2", QW - nz3)]
    H("montgomery ladder step vs RFC 7748 s5", "differential_add_and_double", b_step)

    def b_as_affine(it):
        fn = find_fn(it.mod, "ProjectivePoint9as_affine")
        U, W = V("U"), V("W"); p = put_point(it, "p", [U, W]); out = it.new_region("out", 32)
        it.call(fn, [out, p])
        ob = [it.ctx.resolve(it.P(it.load(Ptr(out.r, out.o + k), 1))) for k in range(32)]
        if eqz_of(it, W): return [("W = 0 gives u = 0", all(b.is_zero() for b in ob))]
        cs = [c for c in it.canon if is_zero_mod(c[0] * W - U, it.rel)]
        return [("u*W == U, canonical bytes", len(cs) == 1 and all((a - b).is_zero() for a, b in zip(ob, cs[0][1])))]
    H("montgomery as_affine", "ProjectivePoint::as_affine", b_as_affine)

    def b_to_montgomery(it):
        p, (x, y, z) = affine_point(it, "p"); out = it.new_region("out", 32)
        it.call("vp_ed_to_montgomery", [out, p])
        ob = [it.ctx.resolve(it.P(it.load(Ptr(out.r, out.o + k), 1))) for k in range(32)]
        W = z - y * z
        if eqz_of(it, W): return [("y = 1 (identity) maps to u = 0", all(b.is_zero() for b in ob))]
        if eqz_of(it, z) if any(f[0] == "eqz" and fnorm(f[1] - z).is_zero() for f in it.facts) else False: return []
        # u = (1+y)/(1-y):  u*(Z - Y) == Z + Y
        cs = [c for c in it.canon if is_zero_mod(c[0] * W - (z + y * z), it.rel)]
        return [("u*(Z-Y) == Z+Y, canonical bytes", len(cs) == 1 and all((a - b).is_zero() for a, b in zip(ob, cs[0][1])))]
    H("edwards to_montgomery", "vp_ed_to_montgomery", b_to_montgomery)

    def b_to_edwards(it):
        s = ByteString(it, "u"); inp = it.new_region("in", 32); s.store(it, inp)
        sign = it.ctx.input("sign", 0, 1)
        out = it.new_region("out", 4 * it.fesize)
        ok = it.P(it.call("vp_mont_to_edwards", [inp, sign, out])).cval() & 1
        u = s.low
        vcs = []
        try:
            if eqz_of(it, u + ONE): return [("u = -1 is rejected", ok == 0)]
            # y = (u-1)/(u+1)
            ys = [c[0] for c in it.canon]
            vcs.append(("exactly one field element is encoded (the Edwards y)", len(ys) == 1))
            if len(ys) != 1: return vcs
            y = ys[0]
            vcs.append(("y*(u+1) == u-1", y * (u + ONE) - (u - ONE)))
            uu, vv = y * y - ONE, D * y * y + ONE
            wsq, r = sqrt_of(it, uu, vv)
            vcs.append(("accept <=> Edwards decoding of y succeeds", ok == wsq))
            if ok:
                X, Y, Z, Tt = get_fes(it, out, 4)
                sg = [f[2] for f in it.facts if f[0] == "bool"]
                sgn = sg[0] if sg else 0
                vcs += [("Y == y", Y - y), ("Z == 1", Z - ONE), ("T == X*Y", Tt - X * Y), ("X == (sign ? -r : r)", X - (r.scale(-1) if sgn else r))]
        except Missing as e:
            vcs.append(("procedure follows the documented map: " + str(e), False))
        return vcs
    H("montgomery to_edwards", "vp_mont_to_edwards", b_to_edwards)

    def b_hash(it):
        # Hash must be a function of the point (== compares canonical encodings: see 'montgomery ct_eq'): the bytes fed to the hasher are
        # an 8-byte length prefix 32 followed by the canonical encoding of u mod p, for every 32-byte string (bit 255 and u >= p included)
        s = ByteString(it, "u"); inp = it.new_region("in", 32); s.store(it, inp)
        out = it.new_region("out", 40)
        n = it.P(it.call("vp_mont_hash", [inp, out]))
        ob = [it.ctx.resolve(it.P(it.load(Ptr(out.r, out.o + k), 1))) for k in range(40)]
        vcs = [("40 bytes are written to the hasher", n.is_const() and n.cval() == 40),
               ("length prefix 32 (usize, little endian)", all(b.is_const() for b in ob[:8]) and [b.cval() for b in ob[:8]] == [32, 0, 0, 0, 0, 0, 0, 0])]
        cs = [c for c in it.canon if fnorm(c[0] - s.low).is_zero()]
        vcs.append(("the 32 hashed bytes are the canonical encoding of the field element u mod p", len(cs) == 1 and all((a - b).is_zero() for a, b in zip(ob[8:], cs[0][1]))))
        return vcs
    H("Hash for MontgomeryPoint hashes the canonical encoding", "vp_mont_hash", b_hash)

    def b_elligator(it):
        r0 = V("r"); p = put_point(it, "r", [r0]); out = it.new_region("out", 32)
        it.call("vp_mont_elligator_encode", [out, p])
        ob = [it.ctx.resolve(it.P(it.load(Ptr(out.r, out.o + k), 1))) for k in range(32)]
        try:
            d1 = ONE + (r0 * r0).scale(2)
            if eqz_of(it, d1): dd = ZERO            # 1 + 2r^2 = 0 cannot happen (2 is a non-square mod p is false; -1/2 ...): invert(0) = 0 convention
            else:
                inv = [f[2] for f in it.facts if f[0] == "inv" and fnorm(f[1] - d1).is_zero()]
                if not inv: raise Missing("inverse of 1+2r^2")
                dd = -A * inv[0]
            eps = dd * (dd * dd + A * dd + ONE)
            wsq, _ = sqrt_of(it, eps, ONE)
            u = dd if wsq else -(dd + A)
            u = fnorm(u)
            if u.is_const():
                val = u.cval() % P
                return [("u == d or -d-A (Elligator2), canonical bytes", all(b.is_const() and b.cval() == ((val >> (8 * k)) & 255) for k, b in enumerate(ob)))]
            cs = [c for c in it.canon if is_zero_mod(c[0] - u, it.rel)]
            return [("u == d or -d-A (Elligator2), canonical bytes", len(cs) == 1 and all((a - b).is_zero() for a, b in zip(ob, cs[0][1])))]
        except Missing as e:
            return [("procedure follows the Elligator2 map: " + str(e), False)]
    H("montgomery elligator_encode", "vp_mont_elligator_encode", b_elligator)

    def b_ct_eq(it):
        s1 = ByteString(it, "a"); s2 = ByteString(it, "b")
        p1 = it.new_region("a", 32); p2 = it.new_region("b", 32); s1.store(it, p1); s2.store(it, p2)
        r = it.P(it.call("vp_mont_ct_eq", [p1, p2])).cval() & 1
        ez = [f for f in it.facts if f[0] == "eqz"]
        ok = len(ez) == 1 and (fnorm(ez[0][1] - (s1.low - s2.low)).is_zero() or fnorm(ez[0][1] + (s1.low - s2.low)).is_zero())
        return [("equality is decided on (a mod 2^255) - (b mod 2^255) == 0 in GF(p), bit 255 ignored", ok), ("result is that comparison", bool(ez) and r == ez[0][2])]
    H("montgomery ct_eq modulo p", "vp_mont_ct_eq", b_ct_eq)
    return T

def run(tier, seed):
    rep = Report("C07")
    rep.level = "translation_validation"
    cfgs = ["serial64", "serial32"] if tier == "quick" else ["serial64", "serial32", "fiat64", "fiat32"]
    build.ir_many([dict(config=c, flavour="O0") for c in cfgs])
    tasks = []
    for cfg in cfgs: tasks += harnesses(rep, cfg, build.ir(cfg, "O0"))
    # ladder skeleton (bit order and count, swaps, clamping) and the x25519-dalek entry points: layer M (checks/c07g.py)
    from checks import c07g
    tasks += c07g.harnesses(rep, "serial64", build.ir("serial64", "O0"), tier)
    xp = build.ir("serial64", "O0", crate="x25519-dalek", features=["static_secrets", "reusable_secrets"], with_deps=True)
    tasks += c07g.x_harnesses(rep, xp, tier)
    # public-key derivation through the Edwards basepoint (layer G) and the contributory check (layer F on the linked x25519-dalek IR)
    tasks += c07g.pub_harnesses(rep, xp, tier)
    def b_contrib(it):
        s = ByteString(it, "ss"); inp = it.new_region("in", 32); s.store(it, inp)
        r = it.P(it.call("vp_x_was_contributory", [inp])).cval() & 1
        ez = [f for f in it.facts if f[0] == "eqz"]
        ok = len(ez) == 1 and (fnorm(ez[0][1] - s.low).is_zero() or fnorm(ez[0][1] + s.low).is_zero())
        return [("one zero test, on the shared secret's field value (low 255 bits mod p); for the canonical encodings diffie_hellman produces: on the bytes being all zero", ok),
                ("was_contributory is false exactly when that value is zero", bool(ez) and r == 1 - ez[0][2])]
    tasks.append(lambda: run_paths(rep, "serial64/x25519-dalek SharedSecret::was_contributory", "serial64", xp, "vp_x_was_contributory", b_contrib))
    # Ed25519 -> X25519 key conversions (linked ed25519-dalek IR, SHA-512 uninterpreted): checks/c08k.py
    from checks import c08k
    tasks += c08k.conversion_harnesses(rep, tier)
    run_tasks(tasks, rep)
    return rep
