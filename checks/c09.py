"""C09 - Ed25519 verification accepts exactly the documented set (layer P, Kani): the verification glue of every
variant (hazmat raw_verify with a model digest, verify, verify_strict, verify_prehashed, verify_prehashed_strict,
and the legacy_compatibility scalar check) is model-checked for ALL key and signature bits against an
RFC 8032 5.1.7-shaped reference over shared model functions for the group / hash operations."""
from vp.lharness import Report
from vp import kani, build

COMMON = "all 2^(256+512) key/signature bits; message <= 2 bytes, prehash input and context <= 1 byte (symbolic lengths); unwind 70"
STUBS = ["CompressedEdwardsY::decompress, EdwardsPoint::{vartime_double_scalar_mul_basepoint, compress, is_small_order, neg}, Scalar::{from_canonical_bytes, from_bytes_mod_order_wide} replaced by deterministic bit-mixing model functions shared with the reference (their arithmetic meaning: C02/C03/C04)",
         "VerifyingKey::compute_challenge (SHA-512 transcript) replaced by the model transcript hash in the non-hazmat harnesses (SHA-512 trusted, M5)"]
KANI = {
 "c09_raw_verify_matches_rfc8032": dict(function="hazmat::raw_verify::<ModelDigest>", what="accept <=> S canonical, A decodes, Encode([S]B-[k]A) == R bytes, k = H(R||A||M)"),
 "c09_raw_verify_prehashed_matches_rfc8032_dom2": dict(function="hazmat::raw_verify_prehashed::<ModelDigest,ModelDigest>", what="same with dom2(1,ctx) prefix; default context empty"),
 "c09_verify_matches_spec": dict(function="<VerifyingKey as Verifier>::verify", what="verify == RFC 8032 acceptance set"),
 "c09_verify_strict_matches_spec": dict(function="VerifyingKey::verify_strict", what="additionally: R decodes, R and A not of small order"),
 "c09_verify_prehashed_matches_spec": dict(function="VerifyingKey::verify_prehashed", what="Ed25519ph acceptance set"),
 "c09_verify_prehashed_strict_matches_spec": dict(function="VerifyingKey::verify_prehashed_strict", what="Ed25519ph strict acceptance set"),
}
LEGACY = {"c09_legacy_check_scalar_top_three_bits": dict(function="signature::check_scalar (legacy_compatibility)", what="Ok <=> S[31] & 0xE0 == 0, scalar = bytes with bit 255 masked", bounds="all 2^512 signatures")}

def run(tier, seed):
    rep = Report("C09")
    for m in KANI.values(): m.setdefault("bounds", COMMON); m["stubs"] = STUBS
    hs = list(KANI)
    res = kani.run("ed25519-dalek", "serial64", hs, features=["hazmat", "digest", "zeroize"], no_default=True, stubbing=True, timeout_s=1200 if tier == "quick" else 3000, jobs=8)
    kani.record(rep, "serial64", res, hs, KANI)
    res2 = kani.run("ed25519-dalek", "serial64", list(LEGACY), features=["hazmat", "digest", "zeroize", "legacy_compatibility"], no_default=True, stubbing=True, timeout_s=600, jobs=2)
    kani.record(rep, "serial64+legacy_compatibility", res2, list(LEGACY), LEGACY)
    # verify / verify_strict as whole runs in the exact group model with SHA-512 uninterpreted (independent second decision): checks/c08s.py
    from checks import c08s
    for t in c08s.verify_harnesses(rep, tier): t()
    # the legacy_compatibility build: only the top three bits of S are checked, everything else unchanged
    for t in c08s.legacy_harnesses(rep, tier): t()
    return rep
