"""C04 - certificate for `Scalar::non_adjacent_form(w)` by induction over the real loop (layer L on the O0 IR).

The function is one `while pos < 256` loop.  For EVERY loop position pos in 0..255 one iteration of the real loop body is executed
from the loop header with all 256 scalar bits and the carry symbolic, starting from an arbitrary state that satisfies the invariant

    INV(pos, carry, naf):  sum_{i < pos} naf[i] 2^i  =  (x mod 2^pos) - carry * 2^pos ,   naf[i] = 0 for i >= pos,
                           carry in {0, 1},   carry = 1  =>  bit_{pos-1}(x) = 1 ,

and the solver shows, on each of the (at most three) paths of the body, that the successor state satisfies INV again, that pos strictly
increases (by 1 with no digit written, or by w with one digit written at naf[pos]), that the digit written is odd with |d| < 2^(w-1),
and that no other cell of naf is written.  The state before the loop satisfies INV(0, 0) (read off the execution).  Consequences (pure
logic, for x < 2^255): at exit pos >= 256, so carry = 0 (bit 255 and above are clear) and sum naf[i] 2^i = x; non-zero digits are odd, in
range, and followed by w-1 zeros.  These are exactly the facts the NAF-based group-level harnesses assume of their digit vectors."""
import time
from vp import build
from vp.lharness import module, Report, run_tasks
from llsym import ir, smt
from llsym.ir import Unsupported
from llsym.poly import Poly, ZERO, ONE
from llsym.lsym import LSym, Ptr, Cond, PanicReached, c_not, c_or, c_and

class Stop(Exception): pass

def one_position(mod, fn, w, pos, decisions):
    """execute the function up to the first arrival at the loop header, impose the inductive pre-state for `pos`, run one iteration"""
    it = LSym(mod, max_steps=2_000_000)
    st = dict(arrivals=0, pre=None, post=None, i=0, used=list(decisions), wrote=None)
    xs = [it.ctx.input("x%d" % k, 0, 127 if k == 31 else 255) for k in range(32)]
    x = sum((v.scale(1 << (8 * k)) for k, v in enumerate(xs)), ZERO)
    carry = it.ctx.input("carry", 0, 1)
    def brancher(it_, f_, lab, c, ins):
        i = st["i"]; st["i"] += 1
        if i >= len(st["used"]): st["used"].append(0)
        v = st["used"][i]
        it_.ctx.assume.append(c if v else c_not(c))
        return ins[3] if v else ins[4]
    it.allow_symbolic_branch = brancher
    def hook(it_, f_, lab, env, prev):
        if f_ is not fn or lab != "bb3": return
        st["arrivals"] += 1
        if st["arrivals"] == 1:
            p_pos, p_carry, p_naf = env["%pos"], env["%carry"], env["%naf"]
            st["initial"] = (it_.P(it_.load(p_pos, 8)), it_.P(it_.load(p_carry, 8)))
            it_.store(p_pos, Poly.const(pos), 8); it_.store(p_carry, carry, 8)
            st["ptrs"] = (p_pos, p_carry, p_naf)
            it_.wl[0] = {}                       # log the writes of the iteration
        else:
            p_pos, p_carry, p_naf = st["ptrs"]
            log = it_.wl[0]; it_.wl[0] = None
            st["wrote"] = sorted(k for (rn, k) in log if rn == p_naf.r)
            st["post"] = (it_.P(it_.load(p_pos, 8)), it_.P(it_.load(p_carry, 8)), it_.P(it_.load(Ptr(p_naf.r, p_naf.o + pos), 1)))
            raise Stop()
    it.block_hook = hook
    out = it.new_region("out", 256); sp = it.new_region("self", 32)
    for k in range(32): it.store(Ptr(sp.r, k), xs[k], 1)
    try:
        it.call(fn.name, [out, sp, Poly.const(w)])
        if st["arrivals"] >= 1: st["returned"] = True      # the loop was left from this position
    except Stop: pass
    return it, st, x, carry

def naf_replay(cfg, w, xs):
    """native: the digits non_adjacent_form(w) returns for concrete scalars against the recoding's contract"""
    from vp import native
    try: outs = native.run(cfg, [("sc_naf", [int(x).to_bytes(32, "little"), bytes([w])]) for x in xs])
    except Exception as e: return None, "native runner failed: " + str(e)[:200]
    half = 1 << (w - 1)
    for x, got in zip(xs, outs):
        if got is None: return None, "native runner does not know sc_naf"
        if isinstance(got, tuple): return True, dict(scalar=hex(x), native_result=str(got)[:160])
        ds = [b - 256 if b > 127 else b for b in got]
        tot = sum(d << i for i, d in enumerate(ds))
        bad = tot != x or any(d != 0 and (d % 2 == 0 or abs(d) >= half) for d in ds)
        if bad: return True, dict(scalar=hex(x), w=w, sum_of_digits=hex(tot) if tot >= 0 else "-" + hex(-tot), note="digits returned by the natively built non_adjacent_form do not recode the scalar")
    return False, "native digits recode all %d candidate scalars" % len(xs)

REPLAY_SCALARS = [(1 << 255) - 1, (1 << 255) - 19, (1 << 254) + (1 << 253) + 5, (1 << 252) + (1 << 245), (1 << 253) - 1, (1 << 252) + 27742317777372353535851937790883648493 - 1, 1, 0, 0x0f0f0f0f0f0f0f0f0f0f0f0f0f0f0f0f0f0f0f0f0f0f0f0f0f0f0f0f0f0f0f0f]

def naf_certificate(rep, cfg, modpath, w, positions):
    t0 = time.time()
    rec = dict(harness="%s/Scalar::non_adjacent_form(%d): inductive step for loop positions %d..%d" % (cfg, w, positions[0], positions[-1]), config=cfg,
               function="scalar::Scalar::non_adjacent_form", goals=[], bounds="all scalars x < 2^255 (256 symbolic bits), carry symbolic; every loop position listed, every path of the loop body",
               assumptions=["the conclusion for the whole loop follows from the per-position inductive steps by induction on pos (pure logic)"])
    status = "ok"; nq = 0; npaths = 0
    try:
        mod = module(modpath)
        fn = [f for n, f in mod.funcs.items() if "non_adjacent_form" in n and "closure" not in n][0]
        half = 1 << (w - 1)
        for pos in positions:
            decisions = []
            while True:
                it, st, x, carry = one_position(mod, fn, w, pos, decisions)
                npaths += 1
                if st["post"] is None and st.get("returned"):
                    # the loop ends at a position below 256: sound only if no scalar can still owe a carry or a digit there
                    low_ = it.ctx.bits(x, 0, pos) if pos > 0 else ZERO
                    if pos > 0: it.ctx.assume.append(c_or(Cond("cmp", "eq", carry, ZERO), Cond("cmp", "eq", it.ctx.bits(x, pos - 1, pos), ONE)))
                    else: it.ctx.assume.append(Cond("cmp", "eq", carry, ZERO))
                    pr0 = smt.Problem(it.ctx)
                    v, model, dt, info = pr0.check(Cond("cmp", "ne", low_ - carry.scale(1 << pos), x), timeout_s=60, split=False); nq += 1
                    rec["goals"].append(dict(goal="the loop is left at position %d: every scalar below 2^255 is completely recoded there" % pos, verdict=v, solver_s=round(dt, 3), kind="QF_LIA", **info))
                    if v == "sat":
                        env = {vv: (model or {}).get(vv, 0) for vv in it.ctx.bounds}
                        xv = sum((it.ctx.resolve(Poly.var("x%d" % k)).eval(env) & 255) << (8 * k) for k in range(32))
                        ok, det = naf_replay(cfg, w, [xv] + REPLAY_SCALARS); rec["replay"] = det
                        if ok: status = "violation"; rec["reproduced"] = True; rec["why"] = "w=%d: the recoding loop stops at position %d although digits / a carry are still owed: %s" % (w, pos, str(det)[:300])
                        else: status = "inconclusive"; rec["why"] = "loop exit at position %d not reproduced natively: %s" % (pos, det)
                    elif v != "unsat": status = "inconclusive"; rec["why"] = "solver verdict %s for the loop exit at %d" % (v, pos)
                    break
                if st["post"] is None: raise Unsupported("loop header not reached again from position %d" % pos)
                if pos == positions[0] and not decisions:
                    i0 = st["initial"]
                    ok0 = i0[0].is_zero() and i0[1].is_zero()
                    rec["goals"].append(dict(goal="before the loop: pos = 0, carry = 0, naf all zero (INV(0))", verdict="unsat" if ok0 else "sat", solver_s=0.0, cases=1, solver_calls=0, kind="structural"))
                    if not ok0: status = "violation"; rec["why"] = "initial state is not INV(0)"
                ctx = it.ctx
                pos2, carry2, dbyte = st["post"]
                # pre-state invariant as assumptions
                if pos == 0: ctx.assume.append(Cond("cmp", "eq", carry, ZERO))
                else: ctx.assume.append(c_or(Cond("cmp", "eq", carry, ZERO), Cond("cmp", "eq", ctx.bits(x, pos - 1, pos), ONE)))
                if not pos2.is_const(): raise Unsupported("successor position is symbolic")
                p2 = pos2.cval()
                d = it.signed(dbyte, 8)
                low = lambda n: ctx.bits(x, 0, n) if n > 0 else ZERO
                goals = []
                goals.append(("pos strictly increases by 1 or w", Cond("const", not (p2 in (pos + 1, pos + w)))))
                goals.append(("only naf[pos] may be written", Cond("const", not (st["wrote"] in ([], [pos])))))
                if p2 == pos + 1: goals.append(("a step of 1 writes no digit", Cond("cmp", "ne", d, ZERO)))
                else:
                    goals.append(("the digit written is odd", Cond("cmp", "ne", ctx.bits(dbyte, 0, 1), ONE)))
                    goals.append(("the digit written satisfies |d| < 2^(w-1)", c_or(Cond("cmp", "ge", d, Poly.const(half)), Cond("cmp", "le", d, Poly.const(-half)))))
                goals.append(("carry' in {0,1}", c_or(Cond("cmp", "lt", carry2, ZERO), Cond("cmp", "gt", carry2, ONE))))
                goals.append(("carry' = 1 => bit_{pos'-1}(x) = 1", c_and(Cond("cmp", "eq", carry2, ONE), Cond("cmp", "ne", ctx.bits(x, p2 - 1, p2), ONE))))
                lhs = low(pos) - carry.scale(1 << pos) + d.scale(1 << pos)
                rhs = low(min(p2, 256)) - carry2.scale(1 << p2) if p2 <= 256 else x - carry2.scale(1 << p2)
                goals.append(("INV is re-established: (x mod 2^pos) - c 2^pos + d 2^pos == (x mod 2^pos') - c' 2^pos'", Cond("cmp", "ne", lhs, rhs)))
                for desc, cond, path in it.obligations: goals.append(("no-panic: " + desc[-80:], cond))
                pr = smt.Problem(ctx)        # after every goal term exists: the cuts the goals introduce are part of the constraint system
                for gname, viol in goals:
                    v, model, dt, info = pr.check(viol, timeout_s=60, split=False); nq += 1
                    if v != "unsat":
                        rec["goals"].append(dict(goal="pos=%d path %s: %s" % (pos, "".join(map(str, st["used"])), gname), verdict=v, solver_s=round(dt, 3), kind="QF_LIA", **info))
                        if v == "sat" and status != "violation":
                            env = {vv: (model or {}).get(vv, 0) for vv in ctx.bounds}
                            xb = bytes(ctx.resolve(Poly.var("x%d" % k)).eval(env) & 255 for k in range(32))
                            ok, det = naf_replay(cfg, w, [int.from_bytes(xb, "little")] + REPLAY_SCALARS); rec["replay"] = det
                            if ok: status = "violation"; rec["reproduced"] = True; rec["why"] = "w=%d pos=%d: %s fails (pre-state x = %s, carry = %s); natively: %s" % (w, pos, gname, xb.hex(), env.get("carry"), str(det)[:300])
                            else: status = "inconclusive"; rec["why"] = "w=%d pos=%d: %s fails in the inductive step (x = %s, carry = %s) but no candidate scalar is mis-recoded natively (%s): the invariant may need strengthening" % (w, pos, gname, xb.hex(), env.get("carry"), det)
                        elif v != "sat" and status == "ok": status = "inconclusive"; rec["why"] = "solver verdict %s at pos %d" % (v, pos)
                dnext = st["used"][:]
                while dnext and dnext[-1] == 1: dnext.pop()
                if not dnext or status == "violation": break
                dnext[-1] = 1; decisions = dnext
            if status == "violation": break
        rec["goals"].append(dict(goal="%d loop positions x every path of the body (%d paths): invariant re-established, digit odd and in range, pos increases, no panic (%d solver queries)" % (len(positions), npaths, nq),
                                 verdict="unsat" if status == "ok" else ("sat" if status == "violation" else "unknown"), solver_s=0.0, cases=npaths, solver_calls=nq, kind="QF_LIA summary"))
        rec["status"] = status
    except Unsupported as e:
        rec["status"] = "inconclusive"; rec["why"] = "unsupported IR: " + str(e)[:400]
    except PanicReached as e:
        rec["status"] = "violation"; rec["why"] = "panic reached: " + str(e)[:200]
    rec["wall_s"] = round(time.time() - t0, 3)
    rep.add(**rec); rep.functions.add(rec["function"]); rep.configs.add(cfg)

def harnesses(rep, cfg, modpath, tier):
    T = []
    chunks = [list(range(a, min(a + 32, 256))) for a in range(0, 256, 32)]
    for w in (5, 8):
        for ch in chunks: T.append(lambda w=w, ch=ch: naf_certificate(rep, cfg, modpath, w, ch))
    return T
