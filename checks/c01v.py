"""C01 / C11 for the AVX2 vector field backend (layer L on the O3 IR of the simd build; generic <8 x i32> / <4 x i64> vector IR).

FieldElement2625x4 packs four field elements A, B, C, D in radix 2^25.5: vector i holds (a_2i, b_2i, a_2i+1, b_2i+1, c_2i, d_2i,
c_2i+1, d_2i+1).  Every kernel is checked lane by lane against the integer specification mod p together with the coefficient bound
its documentation promises (b < 0.0002 after reduce/new, b < 0.007 after mul, ...), for ALL coefficient vectors within the
documented pre-condition."""
import time
from vp import build
from vp.lharness import *
from llsym.poly import Poly, ZERO

P = P25519
W10 = [0, 26, 51, 77, 102, 128, 153, 179, 204, 230]
LANE_IDX = {"A": (0, 2), "B": (1, 3), "C": (4, 6), "D": (5, 7)}
class LaneLayout(Layout):
    """one of the four field elements inside a FieldElement2625x4 (160 bytes)"""
    def __init__(self, lane):
        super().__init__("FieldElement2625x4." + lane, 4, W10); self.lane = lane
    def off(self, i): return 32 * (i // 2) + 4 * LANE_IDX[self.lane][i % 2]
    def size(self): return 160
LANES = {k: LaneLayout(k) for k in "ABCD"}
def bound(b):
    """'bounded with b' in the backend's documentation is an excess in BITS: even coefficients < 2^(26+b), odd ones < 2^(25+b)
    (e.g. the multiplication's pre-condition is derived as b < 32 - 26 - 4.248); returned as inclusive integer maxima"""
    from fractions import Fraction
    import math
    out = []
    for i in range(10):
        x = 2.0 ** ((26 if i % 2 == 0 else 25) + b)
        m = int(math.floor(x))
        if m == x: m -= 1
        out.append(m)
    return out

def v4_arg(run, name, bounds):
    """a FieldElement2625x4 argument: 40 symbolic coefficients; registered lane by lane so that the self-test samples them"""
    p = run.it.new_region(name, 160); vals = {}
    for lane, lay in LANES.items():
        limbs = []
        for i in range(10):
            vn = "%s%s%d" % (name, lane, i)
            if run.concrete is not None: v = Poly.const(run.concrete[vn])
            elif run.shadow is not None:
                if run.ctx.shadow is None: run.ctx.shadow = {}
                v = run.ctx.input(vn, 0, bounds[i], shadow=run.shadow[vn])
            else: v = run.ctx.input(vn, 0, bounds[i])
            run.it.store(Ptr(p.r, lay.off(i)), v, 4); limbs.append(v)
        run.inputs[name + lane] = (lay, limbs, p); vals[lane] = limbs
    return p, vals

P16 = [(67108845 if i == 0 else (67108863 if i % 2 == 0 else 33554431)) << 4 for i in range(10)]     # coefficients of 16p as the backend stores them

def v_harness(rep, modpath, fn, args, spec, out_bound, T, note="", name=None, extra_assume=None, finding_key=None):
    """args: list of ('v4', bounds) | ('fe51', bounds) | ('u32', max); spec(lane, operand values...) -> expected value of that lane"""
    cfg = "simd"
    def build_run(concrete=None, shadow=None):
        run = Run(module(modpath)); run.concrete = concrete; run.shadow = shadow
        out = run.it.new_region("out", 160)
        call_args = [out]; ops = []
        for k, (kind, b) in enumerate(args):
            nm = "xyzwvst"[k]
            if kind == "v4":
                p, vals = v4_arg(run, nm, b); call_args.append(p); ops.append({l: LANES[l].value(v) for l, v in vals.items()})
            elif kind == "fe51":
                p, limbs = run.arg(nm, FE51, b); call_args.append(p); ops.append(FE51.value(limbs))
            else:
                vn = nm + "0"
                v = Poly.const(concrete[vn]) if concrete is not None else (run.ctx.input(vn, 0, b, shadow=shadow[vn]) if shadow is not None else run.ctx.input(vn, 0, b))
                if shadow is not None and run.ctx.shadow is None: run.ctx.shadow = {}
                run.inputs[nm] = (Layout("u32", 4, [0]), [v], None); call_args.append(v); ops.append(v)
        if extra_assume is not None and concrete is None: run.assume(extra_assume(run))
        run.call(fn, call_args)
        goals = []; roots = []
        for lane, lay in LANES.items():
            o = run.read(out, lay); roots += o
            goals.append(("lane %s: value == spec (mod p)" % lane, modne(lay.value(o) - spec(lane, *ops), P)))
            cc = None
            for i, x in enumerate(o):
                g = Cond("cmp", "gt", x, Poly.const(out_bound[i])); cc = g if cc is None else c_or(cc, g)
            goals.append(("lane %s: every coefficient within the documented bound %s" % (lane, out_bound[:2]), cc))
        return run, goals, roots
    run, goals, roots = build_run()
    def replay(env, gname):
        r2, g2, o2 = build_run(concrete=env)
        for (n2, c2) in g2:
            if n2 == gname: return eval_concrete(r2, c2), dict(llsym_concrete_outputs=[x.cval() for x in o2][:12])
        return False, "goal not found"
    n0 = len(rep.items)
    r = discharge(rep, run, "%s/%s" % (cfg, name or fn), goals, roots, cfg, fn, "coefficient pre-conditions %s ; all values" % ([a[1] if isinstance(a[1], int) else a[1][:2] for a in args],),
                  timeout_s=T, replay=replay, selftest=build_run, assumptions=[note] if note else [])
    if finding_key:
        for it in rep.items[n0:]:
            if it.get("status") == "violation": it["finding_key"] = finding_key
    return r

def harnesses(rep, modpath, tier):
    T = 120 if tier == "quick" else 600
    tasks = []
    def H(*a, **kw): tasks.append(lambda: v_harness(rep, modpath, *a, **kw))
    in51 = [(1 << 54) - 1] * 5
    H("vp_v_new", [("fe51", in51)] * 4, lambda lane, a, b, c, d: dict(A=a, B=b, C=c, D=d)[lane], bound(0.0002), T, note="FieldElement51 inputs with limbs < 2^54")
    H("vp_v_reduce", [("v4", [(1 << 32) - 1] * 10)], lambda lane, x: x[lane], bound(0.0002), T)
    H("vp_v_mul", [("v4", bound(2.5)), ("v4", bound(1.75))], lambda lane, x, y: x[lane] * y[lane], bound(0.007), T)
    H("vp_v_square_and_negate_d", [("v4", bound(1.5))], lambda lane, x: (x[lane] * x[lane]).scale(-1 if lane == "D" else 1), bound(0.007), T)
    H("vp_v_negate_lazy", [("v4", bound(0.999))], lambda lane, x: -x[lane], bound(1.0), T)
    H("vp_v_diff_sum", [("v4", bound(0.01))], lambda lane, x: dict(A=x["B"] - x["A"], B=x["B"] + x["A"], C=x["D"] - x["C"], D=x["D"] + x["C"])[lane], bound(1.6), T)
    # Neg computes 16p - x coefficient-wise and reduces.  The documented pre-condition "b < 4.0" (coefficients < 2^30 / 2^29) is split in two:
    #  (a) every coefficient at most the corresponding coefficient of 16p  - must hold;
    #  (b) the rest of the documented domain (some coefficient above 16p's, still below 2^(26|25)+4) - known finding, see known_findings.json
    H("vp_v_neg", [("v4", P16)], lambda lane, x: -x[lane], bound(0.0002), T, name="vp_v_neg [coefficients <= those of 16p]")
    def above_16p(run):
        cc = None
        for lane in "ABCD":
            lay, limbs, _ = run.inputs["x" + lane]
            for i, v in enumerate(limbs):
                g = Cond("cmp", "gt", v, Poly.const(P16[i])); cc = g if cc is None else c_or(cc, g)
        return cc
    H("vp_v_neg", [("v4", bound(4.0))], lambda lane, x: -x[lane], bound(0.0002), T, name="vp_v_neg [documented b < 4.0, some coefficient above 16p's]",
      extra_assume=above_16p, finding_key="avx2-neg-documented-precondition-corner")
    H("vp_v_add", [("v4", bound(1.0)), ("v4", bound(1.0))], lambda lane, x, y: x[lane] + y[lane], [2 * b for b in bound(1.0)], T)
    H("vp_v_mul_small", [("v4", bound(1.0)), ("u32", (1 << 17) - 1), ("u32", (1 << 17) - 1), ("u32", (1 << 17) - 1), ("u32", (1 << 17) - 1)],
      lambda lane, x, s0, s1, s2, s3: x[lane] * dict(A=s0, B=s1, C=s2, D=s3)[lane], bound(0.007), T)
    H("vp_v_shuffle_badc", [("v4", bound(4.0))], lambda lane, x: x[dict(A="B", B="A", C="D", D="C")[lane]], bound(4.0), T)
    H("vp_v_shuffle_abdc", [("v4", bound(4.0))], lambda lane, x: x[dict(A="A", B="B", C="D", D="C")[lane]], bound(4.0), T)
    H("vp_v_blend_ab", [("v4", bound(4.0)), ("v4", bound(4.0))], lambda lane, x, y: (y if lane in "AB" else x)[lane], bound(4.0), T)
    H("vp_v_blend_d", [("v4", bound(4.0)), ("v4", bound(4.0))], lambda lane, x, y: (y if lane == "D" else x)[lane], bound(4.0), T)
    tasks.append(lambda: split_harness(rep, modpath, T))
    return tasks

def split_harness(rep, modpath, T):
    """split(): [FieldElement51; 4] whose limb i is a_2i + a_2i+1 * 2^26 exactly (so the value is preserved as an integer)"""
    cfg = "simd"; fn = "vp_v_split"
    def build_run(concrete=None, shadow=None):
        run = Run(module(modpath)); run.concrete = concrete; run.shadow = shadow
        out = run.it.new_region("out", 160)
        p, vals = v4_arg(run, "x", bound(4.0))
        run.call(fn, [out, p])
        goals = []; roots = []
        for k, lane in enumerate("ABCD"):
            o = [run.it.P(run.it.load(Ptr(out.r, 40 * k + 8 * i), 8)) for i in range(5)]; roots += o
            cc = None
            for i in range(5):
                g = Cond("cmp", "ne", o[i], vals[lane][2 * i] + vals[lane][2 * i + 1].scale(1 << 26)); cc = g if cc is None else c_or(cc, g)
            goals.append(("element %d (lane %s): limb i == c_2i + 2^26 * c_2i+1" % (k, lane), cc))
        return run, goals, roots
    run, goals, roots = build_run()
    def replay(env, gname):
        r2, g2, o2 = build_run(concrete=env)
        for (n2, c2) in g2:
            if n2 == gname: return eval_concrete(r2, c2), dict(llsym_concrete_outputs=[x.cval() for x in o2][:12])
        return False, "goal not found"
    return discharge(rep, run, "%s/%s" % (cfg, fn), goals, roots, cfg, fn, "coefficients with b < 4.0 ; all values", timeout_s=T, replay=replay, selftest=build_run)
