"""C12 - every precomputed constant and table entry equals its definition, in every backend representation.

Constants are read from the LLVM IR of each configuration (global initialisers as the compiler emitted them, through
accessor wrappers executed by llsym in concrete mode), decoded to integers through the limb layouts whose meaning
is established by C01/C02, and every defining relation becomes a ground obligation; obligations are discharged in
one batch by the SMT solver (ground modular arithmetic).  The property quantifies over a finite set: the
solver's role is evaluation of ground identities (honest note in DESIGN 6 C12)."""
import time, subprocess, os, tempfile
from vp import build
from vp.lharness import module, Report, run_tasks
from llsym import ir, lsym, fconst
from llsym.lsym import Ptr

P = fconst.P; L = fconst.L
W64 = [51 * i for i in range(5)]; W32 = [0, 26, 51, 77, 102, 128, 153, 179, 204, 230]
CFG = {"serial64": (8, W64, 8, 52, 5), "fiat64": (8, W64, 8, 52, 5), "simd": (8, W64, 8, 52, 5), "avx512": (8, W64, 8, 52, 5),
       "serial32": (4, W32, 4, 29, 9), "fiat32": (4, W32, 4, 29, 9)}

class Reader:
    def __init__(self, cfg, modpath):
        self.cfg = cfg; self.it = lsym.LSym(module(modpath))
        self.cell, self.w, self.scell, self.srb, self.sn = CFG[cfg]
        self.fes = self.cell * len(self.w)
    def call(self, fn, args=()):
        fn = self.it.mod.aliases.get(fn, fn)
        if fn not in self.it.mod.funcs: return None
        return self.it.call(fn, list(args))
    def u(self, p, off, size):
        v = self.it.P(self.it.load(Ptr(p.r, p.o + off), size))
        if not v.is_const(): raise ir.Unsupported("constant data is not constant")
        return v.cval()
    def fe(self, p, off=0):
        return sum(self.u(p, off + self.cell * i, self.cell) << w for i, w in enumerate(self.w))
    def fe_limbs(self, p, off=0):
        return [self.u(p, off + self.cell * i, self.cell) for i in range(len(self.w))]
    def us(self, p, off=0):
        return sum(self.u(p, off + self.scell * i, self.scell) << (self.srb * i) for i in range(self.sn))
    def bytes(self, p, n, off=0):
        return sum(self.u(p, off + i, 1) << (8 * i) for i in range(n))

class Obl:
    """ground obligations lhs == rhs (mod m) collected for one batched solver run"""
    def __init__(self): self.items = []
    def eq(self, name, lhs, rhs, m=P): self.items.append((name, int(lhs), int(rhs), m))
    def true(self, name, cond): self.items.append((name, 1 if cond else 0, 1, None))
    def discharge(self):
        lines = ["(set-logic ALL)"]
        for name, a, b, m in self.items:
            lines.append("(push)")
            if m is None: lines.append("(assert (not (= %d %d)))" % (a, b))
            else: lines.append("(assert (not (= (mod (- %d %d) %d) 0)))" % (a, b, m))
            lines.append("(check-sat)(pop)")
        wd = os.environ.get("VERIF_WORK") or "/var/tmp"
        with tempfile.NamedTemporaryFile("w", suffix=".smt2", delete=False, dir=wd) as f:
            f.write("\n".join(lines)); path = f.name
        t0 = time.time()
        out = subprocess.run(["z3-new", path], capture_output=True, text=True, timeout=600).stdout.split()
        os.unlink(path)
        dt = time.time() - t0
        res = []
        for (name, a, b, m), v in zip(self.items, out + ["unknown"] * len(self.items)):
            res.append((name, v))
        return res, dt

def niels_affine(x, y): return ((y + x) % P, (y - x) % P, (2 * fconst.D * x * y) % P)

def check_config(rep, cfg, modpath, tier):
    t0 = time.time()
    rec = dict(harness="%s/constants" % cfg, config=cfg, function="constants (field, scalar, points, tables)", goals=[], bounds="finite: every constant / table entry of this configuration")
    try:
        R = Reader(cfg, modpath); O = Obl()
        D = fconst.D; B = (fconst.BX, fconst.BY)
        def fe(name):
            p = R.call(name)
            return None if p is None else R.fe(p)
        # ---- field constants: defining equations and RFC values
        d = fe("vp_c_edwards_d")
        O.eq("EDWARDS_D * 121666 == -121665", d * 121666, -121665); O.eq("EDWARDS_D == d", d, D)
        O.eq("EDWARDS_D2 == 2d", fe("vp_c_edwards_d2"), 2 * D)
        O.eq("MINUS_ONE == -1", fe("vp_c_minus_one"), -1); O.eq("FieldElement::MINUS_ONE == -1", fe("vp_c_fe_minus_one"), -1)
        O.eq("FieldElement::ONE == 1", fe("vp_c_fe_one"), 1); O.eq("FieldElement::ZERO == 0", fe("vp_c_fe_zero"), 0)
        sm1 = fe("vp_c_sqrt_m1")
        O.eq("SQRT_M1^2 == -1", sm1 * sm1, -1); O.eq("SQRT_M1 == 2^((p-1)/4) (RFC 8032 / 9496 root)", sm1, fconst.SQRT_M1)
        O.eq("ONE_MINUS_EDWARDS_D_SQUARED == 1 - d^2", fe("vp_c_one_minus_d_sq"), 1 - D * D)
        O.eq("EDWARDS_D_MINUS_ONE_SQUARED == (d-1)^2", fe("vp_c_d_minus_one_sq"), (D - 1) ** 2)
        s = fe("vp_c_sqrt_ad_minus_one")
        O.eq("SQRT_AD_MINUS_ONE^2 == -d - 1", s * s, -D - 1); O.eq("SQRT_AD_MINUS_ONE == RFC 9496 value", s, fconst.SQRT_AD_MINUS_ONE)
        s = fe("vp_c_invsqrt_a_minus_d")
        O.eq("INVSQRT_A_MINUS_D^2 * (-1 - d) == 1", s * s * (-1 - D), 1); O.eq("INVSQRT_A_MINUS_D == RFC 9496 value", s, fconst.INVSQRT_A_MINUS_D)
        a24 = fe("vp_c_aplus2_over_four")
        O.eq("4 * APLUS2_OVER_FOUR == A + 2", 4 * a24, 486662 + 2); O.eq("APLUS2_OVER_FOUR == 121666", a24, 121666, None and P or P)
        A = fe("vp_c_montgomery_a"); An = fe("vp_c_montgomery_a_neg")
        O.eq("MONTGOMERY_A == 486662", A, 486662); O.eq("MONTGOMERY_A_NEG == -A", An, -486662); O.eq("A + (-A) == 0", A + An, 0)
        for nm in ("vp_c_edwards_d", "vp_c_edwards_d2", "vp_c_sqrt_m1", "vp_c_minus_one", "vp_c_montgomery_a_neg", "vp_c_sqrt_ad_minus_one", "vp_c_invsqrt_a_minus_d",
                   "vp_c_one_minus_d_sq", "vp_c_d_minus_one_sq", "vp_c_aplus2_over_four"):
            limbs = R.fe_limbs(R.call(nm))
            lim = [(1 << 51) if R.cell == 8 else ((1 << 26) if i % 2 == 0 else (1 << 25)) for i in range(len(limbs))]
            O.true("%s limbs are reduced" % nm, all(l < b for l, b in zip(limbs, lim)))
        # ---- scalar constants
        l = R.us(R.call("vp_c_l")); r = R.us(R.call("vp_c_r")); rr = R.us(R.call("vp_c_rr")); lf = R.it.P(R.call("vp_c_lfactor")).cval()
        Rexp = R.srb * R.sn
        O.eq("L == l (RFC 8032)", l, L, None); O.eq("L * LFACTOR == -1 (mod 2^%d)" % R.srb, l * lf, -1, 1 << R.srb)
        O.eq("R == 2^%d (mod l)" % Rexp, r, 1 << Rexp, L); O.eq("RR == R^2 (mod l)", rr, (1 << Rexp) ** 2, L)
        O.true("R, RR < l", r < L and rr < L)
        O.eq("BASEPOINT_ORDER bytes == l", R.bytes(R.call("vp_c_basepoint_order"), 32), L, None)
        # ---- points
        def point(p, off=0): return [R.fe(p, off + R.fes * i) for i in range(4)]
        def on_curve(nm, X, Y, Z, T):
            O.eq(nm + " on curve: -X^2 + Y^2 == Z^2 + d T^2", -X * X + Y * Y, Z * Z + D * T * T); O.eq(nm + " X*Y == Z*T", X * Y, Z * T); O.true(nm + " Z != 0", Z % P != 0)
        bp = point(R.call("vp_c_basepoint")); on_curve("ED25519_BASEPOINT_POINT", *bp)
        zi = fconst.inv(bp[2])
        O.eq("basepoint y == 4/5", bp[1] * zi * 5, 4); O.true("basepoint x is even (positive)", (bp[0] * zi) % P % 2 == 0); O.eq("basepoint x == spec x", bp[0] * zi, fconst.BX)
        O.eq("ED25519_BASEPOINT_COMPRESSED == y | sign", R.bytes(R.call("vp_c_basepoint_compressed"), 32), fconst.BY, None)
        O.eq("X25519_BASEPOINT == 9", R.bytes(R.call("vp_c_x25519_basepoint"), 32), 9, None)
        O.eq("(1+y)/(1-y) of the Ed25519 basepoint == 9", (1 + fconst.BY) * fconst.inv(1 - fconst.BY), 9)
        rb = point(R.call("vp_c_ristretto_basepoint")); O.true("RISTRETTO_BASEPOINT_POINT == ED25519_BASEPOINT_POINT", rb == bp)
        O.eq("RISTRETTO_BASEPOINT_COMPRESSED == RFC 9496 generator encoding", R.bytes(R.call("vp_c_ristretto_basepoint_compressed"), 32),
             int.from_bytes(bytes.fromhex("e2f2ae0a6abc4e71a884a961c500515f58e30b6aa582dd8db6a65945e08d2d76"), "little"), None)
        O.true("l * B == identity", fconst.ed_mul(L, B) == (0, 1))
        et = R.call("vp_c_eight_torsion")
        T1 = None
        for i in range(8):
            X, Y, Z, T = point(et, 4 * R.fes * i); on_curve("EIGHT_TORSION[%d]" % i, X, Y, Z, T)
            zi = fconst.inv(Z); aff = (X * zi % P, Y * zi % P)
            if i == 1:
                T1 = aff
                O.true("EIGHT_TORSION[1] has exact order 8", fconst.ed_mul(4, aff) != (0, 1) and fconst.ed_mul(8, aff) == (0, 1))
            if T1 is not None or i == 0:
                exp = (0, 1) if i == 0 else fconst.ed_mul(i, T1)
                O.eq("EIGHT_TORSION[%d].x == [%d]T1.x" % (i, i), aff[0], exp[0]); O.eq("EIGHT_TORSION[%d].y == [%d]T1.y" % (i, i), aff[1], exp[1])
        # ---- serial tables
        tp = R.call("vp_c_basepoint_table")
        if tp is not None:
            an = 3 * R.fes
            Bi = B
            for i in range(32):
                cur = Bi
                for j in range(8):
                    e = [R.fe(tp, (i * 8 + j) * an + R.fes * k) for k in range(3)]
                    exp = niels_affine(*cur)
                    for k, nm in enumerate(("y+x", "y-x", "2dxy")): O.eq("ED25519_BASEPOINT_TABLE[%d][%d].%s == Niels((%d)*256^%d*B)" % (i, j, nm, j + 1, i), e[k], exp[k])
                    cur = fconst.ed_add(cur, Bi)
                Bi = fconst.ed_mul(256, Bi)
            rt = R.call("vp_c_ristretto_basepoint_table")
            O.true("RISTRETTO_BASEPOINT_TABLE is the same object as ED25519_BASEPOINT_TABLE", rt is not None and rt.r == tp.r and rt.o == tp.o)
            op = R.call("vp_c_affine_odd_multiples")
            B2 = fconst.ed_add(B, B); cur = B
            for j in range(64):
                e = [R.fe(op, j * an + R.fes * k) for k in range(3)]
                exp = niels_affine(*cur)
                for k, nm in enumerate(("y+x", "y-x", "2dxy")): O.eq("AFFINE_ODD_MULTIPLES_OF_BASEPOINT[%d].%s == Niels(%d*B)" % (j, nm, 2 * j + 1), e[k], exp[k])
                cur = fconst.ed_add(cur, B2)
        # ---- vector tables (projective CachedPoint = lambda * (Y-X, Y+X, 2Z, 2dT))
        def cached_check(nm, lanes_of):
            B2 = fconst.ed_add(B, B); cur = B
            for j in range(64):
                a, b, c, dd = lanes_of(j)
                x, y = cur
                # lambda*(y-x, y+x, 2, 2dxy): cross-multiplied ratios
                O.eq("%s[%d]: A*(y+x) == B*(y-x)" % (nm, j), a * (y + x), b * (y - x))
                O.eq("%s[%d]: C*(y+x) == 2*B" % (nm, j), c * (y + x), 2 * b)
                O.eq("%s[%d]: D*(y+x) == 2dxy*B" % (nm, j), dd * (y + x), 2 * D * x * y * b)
                O.true("%s[%d]: B lane nonzero" % (nm, j), b % P != 0)
                cur = fconst.ed_add(cur, B2)
        vp = R.call("vp_c_avx2_odd_table")
        if vp is not None:
            def lanes(j):
                base = j * 160
                limbs = [[0] * 10 for _ in range(4)]
                for i in range(5):
                    v = [R.u(vp, base + 32 * i + 4 * k, 4) for k in range(8)]
                    limbs[0][2 * i], limbs[1][2 * i], limbs[0][2 * i + 1], limbs[1][2 * i + 1] = v[0], v[1], v[2], v[3]
                    limbs[2][2 * i], limbs[3][2 * i], limbs[2][2 * i + 1], limbs[3][2 * i + 1] = v[4], v[5], v[6], v[7]
                return [sum(l << w for l, w in zip(ls, W32)) % P for ls in limbs]
            cached_check("avx2 BASEPOINT_ODD_LOOKUP_TABLE", lanes)
        ip = R.call("vp_c_ifma_odd_table")
        if ip is not None:
            def lanes2(j):
                base = j * 160
                return [sum(R.u(ip, base + 32 * i + 8 * lane, 8) << (51 * i) for i in range(5)) % P for lane in range(4)]
            cached_check("ifma BASEPOINT_ODD_LOOKUP_TABLE", lanes2)
        res, dt = O.discharge()
        bad = [(n, v) for n, v in res if v != "unsat"]
        rec["goals"] = [dict(goal=n, verdict=v, solver_s=0.0, cases=1, solver_calls=1, kind="ground SMT") for n, v in (bad[:20] if bad else res[:12])]
        rec["obligations"] = len(res); rec["discharged"] = len(res) - len(bad); rec["solver_batch_s"] = round(dt, 2)
        rec["status"] = "ok" if not bad else ("violation" if any(v == "sat" for _, v in bad) else "inconclusive")
        if bad: rec["why"] = "%d relation(s) fail, e.g. %s" % (len(bad), [n for n, _ in bad[:5]]); rec["finding_key"] = "%s:%s" % (cfg, bad[0][0])
    except ir.Unsupported as e:
        rec["status"] = "inconclusive"; rec["why"] = "unsupported IR: " + str(e)
    rec["wall_s"] = round(time.time() - t0, 2)
    rep.add(**rec); rep.functions.add("constants"); rep.configs.add(cfg)

def run(tier, seed):
    rep = Report("C12"); rep.level = "other"
    rep.explanation = "finite property: every constant/table entry of every backend configuration is read from that configuration's LLVM IR and each defining relation is a ground SMT obligation; counts are obligations discharged"
    cfgs = ["serial64", "serial32", "simd", "avx512", "fiat64", "fiat32"]
    rs = build.ir_many([dict(config=c, flavour="O3") for c in cfgs])
    tasks = []
    for cfg, r in zip(cfgs, rs):
        if isinstance(r, Exception):
            rep.add(harness="%s/constants" % cfg, config=cfg, function="constants", status="inconclusive", why="IR build failed: " + str(r)[-400:], goals=[], wall_s=0); continue
        tasks.append(lambda cfg=cfg, r=r: check_config(rep, cfg, r, tier))
    run_tasks(tasks, rep)
    return rep

def evidence(rep, tier, seed, wall):
    from vp.driver import default_evidence
    ev = default_evidence(rep, "C12", tier, seed, wall)
    n = sum(it.get("obligations", 0) for it in rep.items); d = sum(it.get("discharged", 0) for it in rep.items)
    cov = ev["coverage"]
    cov["evaluations"] = n; cov["distinct_nontrivial"] = n; cov["obligations"] = n; cov["discharged"] = d; cov["exhaustive"] = True
    cov["rule"] = "one evaluation = one ground defining relation of one constant / table entry in one backend configuration (read from that configuration's LLVM IR), discharged by the SMT solver as a ground modular identity; all are distinct (constant, relation, configuration) triples"
    cov["per_configuration"] = {it["config"]: dict(obligations=it.get("obligations"), discharged=it.get("discharged"), solver_batch_s=it.get("solver_batch_s")) for it in rep.items}
    return ev
