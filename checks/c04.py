"""C04 - every scalar-multiplication algorithm returns sum s_i * P_i (layer G, O0 IR, llsym exact Z^k model).
Digit recodings are replaced by symbolic digit vectors whose ranges / reconstruction certificates are established
on the real recoding code by the Kani harnesses of this property; table look-ups by a symbolic digit are the
linear term digit*P after an on-the-spot check that the table built by the real code is [1P,2P,...]."""
import time
from vp import build
from vp.lharness import module, Report, run_tasks
from llsym import ir, gsym, smt
from llsym.gsym import GSym, G, TableLemmaFailed, DigitOutOfRange
from llsym.poly import Poly, ZERO, ONE
from llsym.lsym import Ptr, Cond, PanicReached

def spec_scalar(it, tag, kind):
    d = it.digits[(tag, kind)]
    return sum((v.scale(w) for v, w in zip(d["vars"], d["weights"])), ZERO)

def force_backend(it, which):
    """run-time dispatch: preset the cpufeatures storage bytes so that get_selected_backend() returns `which`"""
    import re as _re
    n = 0
    for g in list(it.mod.globals):
        if "STORAGE" in g and "cpuid" in g:
            r = it.global_region(g)
            it.store(Ptr(r.r, 0), Poly.const(1 if which in g else 0), 1); n += 1
    if n == 0: raise ir.Unsupported("no cpufeatures storage found: this configuration has no run-time dispatch")

def lemma_failure(rec, e, cfg, replay_kind, replay_points=1):
    """a table lemma or a look-up range failed in the model (TableLemmaFailed / DigitOutOfRange): a statement about the model's side conditions, so it
    is reported as a violation only if structured concrete scalars give a wrong result on the natively built code; otherwise exit 2"""
    rec["why"] = "%s: %s" % (type(e).__name__, e)
    if replay_kind:
        tags = {"vartime_double": ["a", "b"], "vartime_multiscalar": ["s%d" % i for i in range(replay_points)], "multiscalar": ["s%d" % i for i in range(replay_points)], "precomputed": ["t0", "u0"]}.get(replay_kind, ["s"])
        ok, det = native_replay(cfg, replay_kind, {}, {(t, "naf5"): dict(vars=[], weights=[]) for t in tags}, max(replay_points, 2))
        rec["replay"] = det
        if ok is True: rec["status"] = "violation"; rec["reproduced"] = True
        else: rec["status"] = "inconclusive"; rec["why"] += " | not reproduced natively: " + str(det)[:200]
    else: rec["status"] = "inconclusive"; rec["why"] += " | no native replay for this entry point"

def g_harness(rep, cfg, modpath, name, fn, body, bounds, backend=None, replay_kind=None, replay_points=1):
    """body(it) -> (result G, expected G, notes) ; equality of linear forms decided as QF_LIA over the digits"""
    t0 = time.time()
    rec = dict(harness="%s/%s" % (cfg + ("+" + backend if backend else ""), name), config=cfg, function=fn, goals=[], bounds=bounds)
    try:
        it = GSym(module(modpath))
        if backend: force_backend(it, backend)
        res, exp, notes = body(it)
        rec["ir_steps"] = it.steps; rec["intercepted"] = it.kcalls
        if backend:
            vec = [c for c in it.calls if "vector" in c and "scalar_mul" in c]
            rec["vector_backend_functions"] = len(vec)
            notes = list(notes) + [("the %s vector implementation was the one executed" % backend, bool(vec))]
        rec["table_lemmas"] = sorted(set(l[0] for l in it.lemmas if l[1]))
        rec["recodings"] = sorted("%s:%s" % k for k in it.digits)
        diff = res - exp
        pr = smt.Problem(it.ctx)
        status = "ok"
        bases = sorted(set(res.c) | set(exp.c))
        for b in bases:
            d = diff.c.get(b, ZERO)
            v, model, dt, info = pr.check(Cond("cmp", "ne", d, ZERO), timeout_s=60, split=False)
            rec["goals"].append(dict(goal="coefficient of %s: result == expected" % b, verdict=v, solver_s=round(dt, 3), kind="polynomial identity mod p" if info.get("solver_calls", 0) == 0 else "QF_LIA", **info))
            if v == "sat":
                status = "violation"; rec["why"] = "coefficient of %s differs: %s" % (b, str(d)[:300]); rec["model"] = {k: model[k] for k in sorted(model)[:80]} if model else None
                if replay_kind and "replay" not in rec:
                    ok, det = native_replay(cfg, replay_kind, model or {}, dict(it.digits), replay_points)
                    rec["replay"] = det; rec["reproduced"] = ok
                elif getattr(it, "extra_replay", None) and "replay" not in rec:
                    ok, det = it.extra_replay(model or {}); rec["replay"] = det; rec["reproduced"] = ok
            elif v != "unsat" and status == "ok": status = "inconclusive"; rec["why"] = "solver verdict " + v
        for gname, viol in getattr(it, "extra_goals", []):
            v, model, dt, info = pr.check(viol, timeout_s=60, split=False)
            rec["goals"].append(dict(goal=gname, verdict=v, solver_s=round(dt, 3), kind="QF_LIA", **info))
            if v == "sat" and status == "ok":
                status = "violation"; rec["why"] = gname + " fails: " + str({k: model[k] for k in sorted(model or {})[:40]})[:300]
                rp = getattr(it, "extra_replay", None)
                if rp:
                    ok, det = rp(model or {}); rec["replay"] = det; rec["reproduced"] = ok
            elif v not in ("sat", "unsat") and status == "ok": status = "inconclusive"; rec["why"] = "solver verdict " + v
        for n in notes: rec["goals"].append(dict(goal=n[0], verdict="unsat" if n[1] else "sat", solver_s=0.0, cases=1, solver_calls=0, kind="structural"))
        if any(not n[1] for n in notes): status = "violation"; rec["why"] = "structural condition failed: %s" % [n[0] for n in notes if not n[1]]
        elif status == "violation" and rec.get("reproduced") is False:
            status = "inconclusive"; rec["why"] = "digit-level counterexample not reproduced natively (%s): %s" % (rec["replay"], rec["why"][:200])
        rec["status"] = status
    except (TableLemmaFailed, DigitOutOfRange) as e:
        lemma_failure(rec, e, cfg, replay_kind, replay_points)
    except ir.Unsupported as e:
        rec["status"] = "inconclusive"; rec["why"] = "unsupported IR: " + str(e)
    except PanicReached as e:
        rec["status"] = "violation"; rec["why"] = "panic reached: " + str(e)
    rec["wall_s"] = round(time.time() - t0, 3)
    rep.add(**rec); rep.functions.add(fn); rep.configs.add(cfg)
    return rec

def g_paths_harness(rep, cfg, modpath, name, fn, body, bounds, backend=None, window=None, max_paths=600, replay_kind=None, replay_points=1):
    """variable-time algorithms: every outcome of every data-dependent two-way branch (the scan for the first non-zero digit)
    is a separate path (re-executed from the start under the recorded decisions); three-way matches on a digit's sign are
    executed arm by arm and merged at their join point.  Each path's result is compared with the specification under
    the path condition."""
    from llsym.lsym import c_not
    t0 = time.time()
    label = "%s/%s" % (cfg + ("+" + backend if backend else ""), name)
    rec = dict(harness=label, config=cfg, function=fn, goals=[], bounds=bounds, paths=0)
    status = "ok"
    try:
        mod = module(modpath)
        decisions = []; npaths = 0; merges = 0; general = 0; steps = 0
        while True:
            npaths += 1
            if npaths > max_paths: raise ir.Unsupported("more than %d paths" % max_paths)
            it = GSym(mod)
            if backend: force_backend(it, backend)
            if window is not None: it.naf_window = set(window)
            used = list(decisions); state = dict(i=0)
            def brancher(it_, f_, lab, c, ins):
                i = state["i"]; state["i"] += 1
                if i >= len(used): used.append(0)
                v = used[i]
                cc = c if v else c_not(c)
                it_.ctx.assume.append(cc)
                # a decided comparison of a single digit with a constant narrows that digit's range for the rest of the path
                it_.refine_by_decision(c, bool(v))
                return ins[3] if v else ins[4]
            it.allow_symbolic_branch = brancher
            res, exp, notes = body(it)
            merges += it.merges; general += getattr(it, "general_merges", 0); steps += it.steps
            diff = res - exp
            pr = smt.Problem(it.ctx)
            for b in sorted(set(res.c) | set(exp.c)):
                d = diff.c.get(b, ZERO)
                v, model, dt, info = pr.check(Cond("cmp", "ne", d, ZERO), timeout_s=60, split=False)
                if v != "unsat" or npaths <= 2:
                    rec["goals"].append(dict(goal="path %d (decisions %s): coefficient of %s: result == expected" % (npaths, "".join(map(str, used))[-24:], b), verdict=v, solver_s=round(dt, 3), kind="QF_LIA", **info))
                if v == "sat" and status != "violation":
                    status = "violation"; rec["why"] = "path %d: coefficient of %s differs: %r" % (npaths, b, str(d)[:300]); rec["model"] = {k: model[k] for k in sorted(model)[:60]} if model else None
                    rec["_digits"] = dict(it.digits); rec["_model"] = model
                elif v != "unsat" and status == "ok": status = "inconclusive"; rec["why"] = "solver verdict " + v
            for n in notes:
                if not n[1]: status = "violation"; rec["why"] = "structural condition failed: " + n[0]
            rec.setdefault("intercepted", it.kcalls); rec["table_lemmas"] = sorted(set(l[0] for l in it.lemmas if l[1]))[:6]
            vec_ = [c for c in it.calls if "vector" in c and "scalar_mul" in c]
            if backend in ("avx2", "avx512") and not vec_:
                status = "inconclusive"; rec["why"] = "forced backend %s but the vector implementation was not executed" % backend
            if backend == "serial" and vec_:
                status = "inconclusive"; rec["why"] = "forced the serial implementation but vector code was executed"
            d = used[:]
            while d and d[-1] == 1: d.pop()
            if not d or status == "violation": break
            d[-1] = 1; decisions = d
        if status == "violation" and "_digits" in rec and replay_kind:
            ok, det = native_replay(cfg, replay_kind, rec.pop("_model") or {}, rec.pop("_digits"), replay_points)
            rec["replay"] = det
            if ok is True: rec["reproduced"] = True
            elif ok is False: status = "inconclusive"; rec["why"] = "digit-level counterexample (%s) not reproduced natively: %s" % (rec.get("why", "")[:200], det)
            else: rec["reproduced"] = None; rec["why"] = rec.get("why", "") + " | native replay unavailable: " + str(det)
        rec.pop("_digits", None); rec.pop("_model", None)
        rec["paths"] = npaths; rec["arm_merges"] = merges; rec["general_merges"] = general; rec["ir_steps"] = steps
        rec["goals"].append(dict(goal="all %d paths: result == expected for every base point (%d three-way digit matches merged)" % (npaths, merges), verdict="unsat" if status == "ok" else ("sat" if status == "violation" else "unknown"), solver_s=0.0, cases=npaths, solver_calls=0, kind="summary"))
        rec["status"] = status
    except (TableLemmaFailed, DigitOutOfRange) as e:
        lemma_failure(rec, e, cfg, replay_kind, replay_points)
    except ir.Unsupported as e:
        rec["status"] = "inconclusive"; rec["why"] = "unsupported IR: " + str(e)[:500]
    except PanicReached as e:
        rec["status"] = "violation"; rec["why"] = "panic reached: " + str(e)
    rec["wall_s"] = round(time.time() - t0, 3)
    rep.add(**rec); rep.functions.add(fn); rep.configs.add(cfg)
    return rec

def compress_py(pt):
    from llsym import fconst
    x, y = pt
    return (y | ((x & 1) << 255)).to_bytes(32, "little")

def native_replay(cfg, kind, model, digits, npoints, has_base=False):
    """layer-G counterexamples are digit vectors; a concrete input for the real code is searched among the scalars they denote
    (and a few structured ones) with fixed torsion-free points, the result of the natively built real function is compared
    with sum s_i P_i computed by the specification's affine arithmetic.  Returns (reproduced, detail)."""
    from vp import native
    from llsym import fconst
    import random
    Lq = fconst.L
    Bpt = (fconst.BX, fconst.BY)
    mults = [3, 5, 7, 11, 13][:max(npoints, 1)]
    pts = [fconst.ed_mul(m, Bpt) for m in mults]
    tags = sorted(set(t for (t, k) in digits))
    def scal_from_model(t):
        d = [dd for (tt, k), dd in digits.items() if tt == t][0]
        return sum((model.get(repr(v).strip(), model.get(list(v.vars())[0], 0) if v.vars() else 0) if not v.is_const() else v.cval()) * w for v, w in zip(d["vars"], d["weights"]))
    cands = []
    try:
        base = [scal_from_model(t) for t in tags]
        if all(0 <= x < (1 << 255) for x in base): cands.append(base)
        cands.append([x % Lq for x in base])
    except Exception: pass
    rnd = random.Random(7)
    specials = [(1 << 255) - 1, (1 << 255) - 19, (1 << 254) + 1, Lq - 1, Lq + 1, (1 << 253) + 5, (1 << 252) - 1, 1, 0, 0x5555555555555555555555555555555555555555555555555555555555555555 >> 1]
    for sp in specials: cands.append([sp] * len(tags))
    for _ in range(6): cands.append([rnd.randrange(1 << 255) for _ in tags])
    calls = []; exps = []
    for cv in cands:
        sb = [int(x).to_bytes(32, "little") for x in cv]
        if kind == "vartime_double":     # tags a, b ; point A
            a_, b_ = cv[tags.index("a")], cv[tags.index("b")]
            calls.append(("g_vartime_double", [int(a_).to_bytes(32, "little"), compress_py(pts[0]), int(b_).to_bytes(32, "little")]))
            exps.append(fconst.ed_add(fconst.ed_mul(a_ % Lq, pts[0]), fconst.ed_mul(b_ % Lq, Bpt)))
        elif kind in ("multiscalar", "vartime_multiscalar"):
            order = sorted(tags, key=lambda t: int(t[1:]))
            vs = [cv[tags.index(t)] for t in order]
            calls.append(("g_" + kind, [b"".join(int(x).to_bytes(32, "little") for x in vs), b"".join(compress_py(pts[i]) for i in range(len(vs)))]))
            acc = (0, 1)
            for x, ptt in zip(vs, pts): acc = fconst.ed_add(acc, fconst.ed_mul(x % Lq, ptt))
            exps.append(acc)
        elif kind == "precomputed":      # tags t0 (static), u0 (dynamic)
            t_, u_ = cv[tags.index("t0")], cv[tags.index("u0")]
            calls.append(("g_precomputed", [int(t_).to_bytes(32, "little"), compress_py(pts[0]), int(u_).to_bytes(32, "little"), compress_py(pts[1])]))
            exps.append(fconst.ed_add(fconst.ed_mul(t_ % Lq, pts[0]), fconst.ed_mul(u_ % Lq, pts[1])))
        elif kind == "ed_mul":
            calls.append(("g_ed_mul", [compress_py(pts[0]), int(cv[0]).to_bytes(32, "little")])); exps.append(fconst.ed_mul(cv[0] % Lq, pts[0]))
        else: return None, "no native replay for " + kind
    try: outs = native.run(cfg, calls)
    except Exception as e: return None, "native runner failed: " + str(e)[:200]
    for cv, (fn, args), exp, got in zip(cands, calls, exps, outs):
        if isinstance(got, tuple): return True, dict(native_call=fn, args=[a.hex() for a in args], native_result="PANIC " + got[1][:200])
        if got is None: return None, "native runner does not know " + fn
        if got != compress_py(exp): return True, dict(native_call=fn, args=[a.hex() for a in args], native_result=got.hex(), specification=compress_py(exp).hex())
    return False, "none of %d concrete candidate inputs reproduces the digit-level counterexample on the natively built code" % len(cands)

def clamped_replay(cfg, fn, model):
    """native replay for the clamped entry points: the model's bytes (and a few structured strings) against clamp(k)*P by the specification's arithmetic"""
    from vp import native
    from llsym import fconst
    Bpt = (fconst.BX, fconst.BY); P3 = fconst.ed_mul(3, Bpt)
    cands = [bytes(int(model.get("k%d" % i, 0)) & 255 for i in range(32)), bytes([255] * 32), bytes(32), bytes([8] + [0] * 30 + [64]), bytes(range(7, 39))]
    name = "g_ed_mul_clamped" if fn == "vp_g_ed_mul_clamped" else "g_ed_mul_base_clamped"
    calls = [(name, [compress_py(P3), k] if name == "g_ed_mul_clamped" else [k]) for k in cands]
    try: outs = native.run(cfg, calls)
    except Exception as e: return None, "native runner failed: " + str(e)[:200]
    for k, got in zip(cands, outs):
        if isinstance(got, tuple): return True, dict(native_call=name, args=[k.hex()], native_result="PANIC " + got[1][:200])
        if got is None: return None, "native runner does not know " + name
        c = int.from_bytes(k, "little"); c = (c & ((1 << 255) - 1) & ~7) | (1 << 254)
        exp = fconst.ed_mul(c % fconst.L, P3 if name == "g_ed_mul_clamped" else Bpt)
        if got != compress_py(exp): return True, dict(native_call=name, args=[k.hex()], native_result=got.hex(), specification=compress_py(exp).hex())
    return False, "none of %d concrete byte strings reproduces the counterexample on the natively built code" % len(cands)

def lemma_onehot(lo, hi):
    """finite identity behind fold_indicators: for d in [lo, hi]:  d == sum_{v != 0} v * [d == v]   (solver, one query per range)"""
    vals = [v for v in range(lo, hi + 1) if v != 0]
    lines = ["(set-logic ALL)", "(declare-const d Int)", "(assert (and (>= d %d) (<= d %d)))" % (lo, hi)]
    for v in vals:
        nm = "b_m%d" % -v if v < 0 else "b_%d" % v
        lines += ["(declare-const %s Int)" % nm, "(assert (= %s (ite (= d %s) 1 0)))" % (nm, v if v >= 0 else "(- %d)" % -v)]
    tot = " ".join("(* %s %s)" % (v if v >= 0 else "(- %d)" % -v, ("b_m%d" % -v if v < 0 else "b_%d" % v)) for v in vals)
    lines += ["(assert (not (= d (+ %s))))" % tot, "(check-sat)"]
    t0 = time.time()
    v, _ = smt.run_solver("\n".join(lines), "z3", 60)
    return v, time.time() - t0

def pippenger_harness(rep, cfg, modpath, name, hook, n, nsym, bounds, backend=None, flavour_note=""):
    """Pippenger's bucket method: digit-indexed bucket array (one-hot indicators), digit-sign matches merged; n points of which the
    first nsym have fully symbolic radix-2^w digits and the others the concrete scalar 0 (they still take part in every loop)"""
    t0 = time.time()
    label = "%s/%s" % (cfg + ("+" + backend if backend else ""), name)
    rec = dict(harness=label, config=cfg, function="scalar_mul::pippenger::Pippenger::optional_multiscalar_mul", goals=[], bounds=bounds)
    try:
        it = GSym(module(modpath))
        if backend: force_backend(it, backend)
        out = it.new_region("out", 4 * it.fs); sc = it.new_region("scalars", 32 * n); pts = it.new_region("points", 4 * it.fs * n)
        for i in range(n):
            if i < nsym:
                so = gsym.ScalarObj("s%d" % i)
                for k in range(32): it.regions[sc.r].b[32 * i + k] = (so, k, 32)
            else:
                for k in range(32): it.store(Ptr(sc.r, 32 * i + k), Poly.const(0), 1)
            it.put(Ptr(pts.r, 4 * it.fs * i), G.base("P%d" % i), 4 * it.fs)
        r = it.P(it.call(hook, [sc, Poly.const(n), pts, Poly.const(n), Poly.const(0), out]))
        status = "ok"
        rec["goals"].append(dict(goal="returns Some when every point is Some", verdict="unsat" if (r.is_const() and r.cval() == 1) else "sat", solver_s=0.0, cases=1, solver_calls=0, kind="structural"))
        if not (r.is_const() and r.cval() == 1): status = "violation"; rec["why"] = "returned None although all points are Some"
        res = it.get(out)
        w = [k for (t, k) in it.digits if t == "s0"][0]
        exp = G()
        for i in range(nsym): exp = exp + G.base("P%d" % i).scale(spec_scalar(it, "s%d" % i, w))
        pr = smt.Problem(it.ctx)
        ranges = set()
        for b in sorted(set(res.c) | set(exp.c)):
            f, used = it.fold_indicators(it.ctx.resolve(res.c.get(b, ZERO)))
            for (_, lo, hi) in used: ranges.add((lo, hi))
            d = f - exp.c.get(b, ZERO)
            v, model, dt, info = pr.check(Cond("cmp", "ne", d, ZERO), timeout_s=120, split=False)
            rec["goals"].append(dict(goal="coefficient of %s: result == expected (%d digit groups folded by the one-hot identity)" % (b, len(used)), verdict=v, solver_s=round(dt, 3), kind="QF_LIA", **info))
            if v == "sat": status = "violation"; rec["why"] = "coefficient of %s differs: %s" % (b, str(d)[:300]); rec["model"] = {k: model[k] for k in sorted(model)[:60]} if model else None
            elif v != "unsat" and status == "ok": status = "inconclusive"; rec["why"] = "solver verdict " + v
        for lo, hi in sorted(ranges):
            v, dt = lemma_onehot(lo, hi)
            rec["goals"].append(dict(goal="one-hot identity d == sum v*[d==v] for d in [%d,%d]" % (lo, hi), verdict=v, solver_s=round(dt, 3), cases=1, solver_calls=1, kind="QF_LIA lemma"))
            if v != "unsat" and status == "ok": status = "inconclusive"; rec["why"] = "one-hot lemma not established: " + v
        # panic edges met on the way (bounds checks of the digit-derived bucket index, overflow checks in checked builds)
        for desc, cond, path in it.obligations:
            v, model, dt, info = pr.check(cond, timeout_s=60, split=False)
            rec["goals"].append(dict(goal="no-panic: " + desc[-120:], verdict=v, solver_s=round(dt, 3), kind="QF_LIA", **info))
            if v == "sat":
                status = "violation"
                dg = {}
                for (t, k), dd in it.digits.items():
                    dg[t] = sum(model.get(list(x.vars())[0], 0) * wt for x, wt in zip(dd["vars"], dd["weights"]) if x.vars())
                rec["why"] = "reachable panic: %s for scalar(s) %s" % (desc[-120:], {t: hex(x % (1 << 256)) for t, x in dg.items()})
                # native replay on the overflow-checked (debug) build of the real code
                try:
                    from vp import native
                    from llsym import fconst
                    pt = compress_py(fconst.ed_mul(3, (fconst.BX, fconst.BY)))
                    # candidates: the integer the model's digits denote, then scalars whose recoding is known to hit extreme digits
                    cands = [dg.get("s0", 0) % (1 << 256), 0x80, int.from_bytes(b"\x80" * 31 + b"\x00", "little"), int.from_bytes(b"\x7f" * 32, "little"), (1 << 255) - 1, (1 << 252) + 0x8080]
                    rec["reproduced"] = False
                    for cv in cands:
                        sb = int(cv).to_bytes(32, "little") + b"".join(int(dg.get("s%d" % i, 0) % (1 << 256)).to_bytes(32, "little") for i in range(1, n))
                        got = native.run(cfg, [({"vp_g_pippenger": "g_opt_pippenger"}.get(hook, "g_opt_pippenger_dispatch"), [sb, pt * n, (0).to_bytes(8, "little")])], profile="debug", timeout=600)[0]
                        if isinstance(got, tuple):
                            rec["replay"] = dict(native_profile="debug (overflow-checks on)", scalar_0=hex(cv), points="%d x 3B" % n, native_result=str(got)[:300]); rec["reproduced"] = True; break
                    if not rec["reproduced"]: status = "inconclusive"; rec["why"] += " | NOT reproduced natively with %d candidate scalars" % len(cands)
                except Exception as e: rec["replay"] = "native runner failed: " + str(e)[:200]
                break
            elif v != "unsat" and status == "ok": status = "inconclusive"; rec["why"] = "panic obligation undecided"
        rec["ir_steps"] = it.steps; rec["intercepted"] = it.kcalls; rec["arm_merges"] = it.merges; rec["recodings"] = sorted("%s:%s" % k for k in it.digits)
        if backend in ("avx2", "avx512") and not [c for c in it.calls if "vector" in c and "pippenger" in c]:
            status = "inconclusive"; rec["why"] = "forced backend %s but the vector Pippenger was not executed" % backend
        rec["status"] = status
    except (TableLemmaFailed, DigitOutOfRange) as e:
        lemma_failure(rec, e, cfg, "multiscalar" if n <= 3 else None, n)
    except ir.Unsupported as e:
        rec["status"] = "inconclusive"; rec["why"] = "unsupported IR: " + str(e)[:400]
        # The symbolic run stopped (no verdict).  Before giving up, structured scalars whose recoding hits the extreme digits of every width
        # are run through the natively built function; a wrong native result is a real violation (found by search, not by the solver - said
        # so in the record); a right one leaves the harness inconclusive.
        try:
            from vp import native
            from llsym import fconst
            P3 = fconst.ed_mul(3, (fconst.BX, fconst.BY)); pt = compress_py(P3)
            cands = [0x80, int.from_bytes(b"\x80" * 31 + b"\x00", "little"), int.from_bytes(b"\x7f" * 31 + b"\x00", "little"), 0x8080, 0x20, 0x40, 1, (1 << 252) + 0x8080]
            for cv in cands:
                sb = int(cv).to_bytes(32, "little") + bytes(32) * (n - 1)
                got = native.run(cfg, [({"vp_g_pippenger": "g_opt_pippenger"}.get(hook, "g_opt_pippenger_dispatch"), [sb, pt * n, (0).to_bytes(8, "little")])], timeout=600)[0]
                want = b"\x01" + compress_py(fconst.ed_mul((3 * cv) % fconst.L, (fconst.BX, fconst.BY)))
                if isinstance(got, bytes) and got != want:
                    rec["status"] = "violation"; rec["reproduced"] = True
                    rec["replay"] = dict(witness_source="search over structured scalars on the natively built code after the symbolic run stopped (not a solver model)", scalar_0=hex(cv), other_scalars="0", points="%d x 3B" % n, native_result=got.hex(), expected=want.hex())
                    rec["why"] += " | natively: %d-term Pippenger with scalar_0 = %s, the others 0, points 3B returns a point different from %s * 3B" % (n, hex(cv), hex(cv))
                    break
        except Exception as e2: rec["native_fallback"] = "native runner failed: " + str(e2)[:200]
    except PanicReached as e:
        rec["status"] = "violation"; rec["why"] = "panic reached: " + str(e)
    rec["wall_s"] = round(time.time() - t0, 3)
    rep.add(**rec); rep.functions.add(rec["function"]); rep.configs.add(cfg)

def none_harness(rep, cfg, modpath, name, hook, n, backend=None):
    """optional_multiscalar_mul: any None point makes the result None (every position of the None, all scalars symbolic)"""
    t0 = time.time()
    label = "%s/%s" % (cfg + ("+" + backend if backend else ""), name)
    rec = dict(harness=label, config=cfg, function=hook, goals=[], bounds="n = %d points, each position of a single None point, plus all-None; all scalar digits symbolic" % n)
    status = "ok"
    try:
        mod = module(modpath)
        for mask in [1 << k for k in range(n)] + [(1 << n) - 1]:
            it = GSym(mod)
            if backend: force_backend(it, backend)
            out = it.new_region("out", 4 * it.fs); sc = it.new_region("scalars", 32 * n); pts = it.new_region("points", 4 * it.fs * n)
            for i in range(n):
                so = gsym.ScalarObj("s%d" % i)
                for k in range(32): it.regions[sc.r].b[32 * i + k] = (so, k, 32)
                it.put(Ptr(pts.r, 4 * it.fs * i), G.base("P%d" % i), 4 * it.fs)
            r = it.P(it.call(hook, [sc, Poly.const(n), pts, Poly.const(n), Poly.const(mask), out]))
            ok = r.is_const() and r.cval() == 0
            rec["goals"].append(dict(goal="None mask %s -> result None" % bin(mask), verdict="unsat" if ok else "sat", solver_s=0.0, cases=1, solver_calls=0, kind="single-path execution (the Option handling does not depend on the symbolic digits)"))
            if not ok and status == "ok":
                status = "violation"; rec["why"] = "points with None mask %s: returned %r instead of None" % (bin(mask), r)
                # native replay: concrete scalars 1..n and points 3B, 5B, 7B with that mask on the natively built code
                from vp import native
                from llsym import fconst
                pts_ = [fconst.ed_mul(m_, (fconst.BX, fconst.BY)) for m_ in (3, 5, 7, 11)[:n]]
                call = ({"vp_g_pippenger": "g_opt_pippenger", "vp_g_pippenger_dispatch": "g_opt_pippenger_dispatch"}.get(hook, "g_opt_multiscalar"),
                        [b"".join(int(i + 1).to_bytes(32, "little") for i in range(n)), b"".join(compress_py(q) for q in pts_), int(mask).to_bytes(8, "little")])
                try:
                    got = native.run(cfg, [call])[0]
                    rec["replay"] = dict(native_call=call[0], args=[x.hex() for x in call[1]], native_result=(got.hex() if isinstance(got, bytes) else str(got)))
                    rec["reproduced"] = isinstance(got, bytes) and got[:1] == b"\x01"
                    if isinstance(got, bytes) and got[:1] == b"\x00": status = "inconclusive"; rec["why"] += " | NOT reproduced natively (native result None)"
                except Exception as e: rec["replay"] = "native runner failed: " + str(e)[:200]
        rec["status"] = status
    except ir.Unsupported as e:
        rec["status"] = "inconclusive"; rec["why"] = "unsupported IR: " + str(e)[:400]
    except PanicReached as e:
        rec["status"] = "violation"; rec["why"] = "panic reached: " + str(e)
    rec["wall_s"] = round(time.time() - t0, 3)
    rep.add(**rec); rep.functions.add(hook); rep.configs.add(cfg)

def pippenger_harnesses(rep, tier):
    T = []
    s64 = build.ir("serial64", "O0"); simd = build.ir("simd", "O0")
    T.append(lambda: pippenger_harness(rep, "serial64", s64, "serial Pippenger n=2 (w=6)", "vp_g_pippenger", 2, 2, "2 points, all radix-64 digit vectors (all scalars)"))
    T.append(lambda: pippenger_harness(rep, "simd", simd, "vector Pippenger n=2 (w=6)", "vp_g_pippenger_dispatch", 2, 2, "2 points, all radix-64 digit vectors (all scalars)", backend="avx2"))
    T.append(lambda: none_harness(rep, "serial64", s64, "serial Pippenger: None point => None", "vp_g_pippenger", 3))
    T.append(lambda: none_harness(rep, "simd", simd, "vector Pippenger: None point => None", "vp_g_pippenger_dispatch", 3, backend="avx2"))
    T.append(lambda: none_harness(rep, "serial64", s64, "EdwardsPoint::optional_multiscalar_mul (vartime Straus): None point => None", "vp_g_optional_multiscalar_mul", 3))
    T.append(lambda: none_harness(rep, "simd", simd, "EdwardsPoint::optional_multiscalar_mul (vector vartime Straus): None point => None", "vp_g_optional_multiscalar_mul", 3, backend="avx2"))
    if tier != "quick":
        T.append(lambda: pippenger_harness(rep, "serial64", s64, "serial Pippenger n=3 (w=6)", "vp_g_pippenger", 3, 3, "3 points, all digit vectors"))
    # w = 8 (n >= 800) is the only width whose recoding yields the digit -128 (bucket 127): in the quick tier too since seed C13-m6
    if True:
        for n, w in (((800, 8),) if tier == "quick" else ((500, 7), (800, 8))):
            T.append(lambda n=n, w=w: pippenger_harness(rep, "serial64", s64, "serial Pippenger n=%d (w=%d), 2 symbolic scalars + %d zero scalars" % (n, w, n - 2), "vp_g_pippenger", n, 2,
                     "%d points; scalars 0,1 arbitrary (all radix-2^%d digit vectors), the others 0" % (n, w)))
    return T

def spec_naf(it, tag, w):
    d = it.digits[(tag, "naf%d" % w)]
    return sum((v.scale(wt) for v, wt in zip(d["vars"], d["weights"])), ZERO)

def vartime_harnesses(rep, cfg, modpath, tier, backend=None):
    T = []
    win_q = [0, 1, 2, 3, 252, 253, 254, 255]
    windows = [("NAF digits arbitrary in positions 0-3 and 252-255, zero elsewhere", win_q)] if tier == "quick" else \
              [("NAF digits arbitrary in positions 0-3 and 252-255, zero elsewhere", win_q), ("NAF digits arbitrary in positions 100-131", list(range(100, 132))),
               ("NAF digits arbitrary in positions 0-47", list(range(0, 48))), ("NAF digits arbitrary in positions 208-255", list(range(208, 256)))]
    pre = "vector " if backend in ("avx2", "avx512") else "serial "
    for wname, win in windows:
        def b_vdb(it):
            A = it.point("A"); a = it.scalar("a"); b = it.scalar("b"); out = it.new_region("out", 4 * it.fs)
            it.call("vp_g_vartime_double_base" if not backend else "vp_g_vartime_double_pub", [out, a, A, b])
            wb = 8 if ("b", "naf8") in it.digits else 5
            return it.get(out), G.base("A").scale(spec_naf(it, "a", 5)) + G.base("B").scale(spec_naf(it, "b", wb)), []
        T.append(lambda b_vdb=b_vdb, wname=wname, win=win: g_paths_harness(rep, cfg, modpath, pre + "vartime_double_base::mul [%s]" % wname, "vartime_double_scalar_mul_basepoint", b_vdb,
                 "symbolic point A; a, b: " + wname, backend=backend, window=win, replay_kind="vartime_double"))
        if not backend and win is win_q:
            def b_rvdb(it):
                A = it.point("A"); a = it.scalar("a"); b = it.scalar("b"); out = it.new_region("out", 4 * it.fs)
                it.call("vp_g_ris_vartime_double", [out, a, A, b])
                wb = 8 if ("b", "naf8") in it.digits else 5
                return it.get(out), G.base("A").scale(spec_naf(it, "a", 5)) + G.base("B").scale(spec_naf(it, "b", wb)), []
            T.append(lambda b_rvdb=b_rvdb, wname=wname, win=win: g_paths_harness(rep, cfg, modpath, "RistrettoPoint::vartime_double_scalar_mul_basepoint [%s]" % wname, "RistrettoPoint::vartime_double_scalar_mul_basepoint", b_rvdb,
                     "symbolic point A; a, b: " + wname, window=win))
            def b_rvms(it):
                n = 2; out = it.new_region("out", 4 * it.fs); sc = it.new_region("scalars", 32 * n); pts = it.new_region("points", 4 * it.fs * n)
                for i in range(n):
                    so = gsym.ScalarObj("s%d" % i)
                    for k in range(32): it.regions[sc.r].b[32 * i + k] = (so, k, 32)
                    it.put(Ptr(pts.r, 4 * it.fs * i), G.base("P%d" % i), 4 * it.fs)
                it.call("vp_g_ris_vartime_multiscalar_mul", [out, sc, Poly.const(n), pts, Poly.const(n)])
                exp = G()
                for i in range(n): exp = exp + G.base("P%d" % i).scale(spec_naf(it, "s%d" % i, 5))
                return it.get(out), exp, []
            T.append(lambda wname=wname, win=win: g_paths_harness(rep, cfg, modpath, "RistrettoPoint::vartime_multiscalar_mul n=2 [%s]" % wname, "RistrettoPoint::vartime_multiscalar_mul", b_rvms,
                     "symbolic points; scalars: " + wname, window=win))
        def mk_vs(n):
            def b(it):
                out = it.new_region("out", 4 * it.fs); sc = it.new_region("scalars", 32 * n); pts = it.new_region("points", 4 * it.fs * n)
                for i in range(n):
                    so = gsym.ScalarObj("s%d" % i)
                    for k in range(32): it.regions[sc.r].b[32 * i + k] = (so, k, 32)
                    it.put(Ptr(pts.r, 4 * it.fs * i), G.base("P%d" % i), 4 * it.fs)
                it.call("vp_g_vartime_multiscalar_mul", [out, sc, Poly.const(n), pts, Poly.const(n)])
                exp = G()
                for i in range(n): exp = exp + G.base("P%d" % i).scale(spec_naf(it, "s%d" % i, 5))
                return it.get(out), exp, []
            return b
        def mk_pre(ns, nd):
            def b(it):
                out = it.new_region("out", 4 * it.fs)
                regs = {}
                for tag, n in (("t", ns), ("u", nd)):
                    sc = it.new_region("scalars_" + tag, 32 * max(n, 1)); pts = it.new_region("points_" + tag, 4 * it.fs * max(n, 1))
                    for i in range(n):
                        so = gsym.ScalarObj("%s%d" % (tag, i))
                        for k in range(32): it.regions[sc.r].b[32 * i + k] = (so, k, 32)
                        it.put(Ptr(pts.r, 4 * it.fs * i), G.base("%s%d" % (tag.upper(), i)), 4 * it.fs)
                    regs[tag] = (sc, pts, n)
                (ss, sp, _), (ds, dp, _) = regs["t"], regs["u"]
                it.call("vp_g_precomputed", [out, ss, Poly.const(ns), sp, Poly.const(ns), ds, Poly.const(nd), dp, Poly.const(nd)])
                exp = G()
                for i in range(ns): exp = exp + G.base("T%d" % i).scale(spec_naf(it, "t%d" % i, 5))
                for i in range(nd): exp = exp + G.base("U%d" % i).scale(spec_naf(it, "u%d" % i, 5))
                return it.get(out), exp, []
            return b
        if not backend or backend in ("avx2", "avx512"):
            T.append(lambda wname=wname, win=win: g_paths_harness(rep, cfg, modpath, pre + "precomputed Straus 1 static + 1 dynamic point (VartimeEdwardsPrecomputation) [%s]" % wname, "vartime_mixed_multiscalar_mul", mk_pre(1, 1),
                     "symbolic points; scalars: " + wname, backend=backend, window=win))
        for n in ((2,) if tier == "quick" else (1, 2, 3)):
            T.append(lambda n=n, wname=wname, win=win: g_paths_harness(rep, cfg, modpath, pre + "vartime Straus n=%d (EdwardsPoint::vartime_multiscalar_mul) [%s]" % (n, wname), "vartime_multiscalar_mul", mk_vs(n),
                     "symbolic points; scalars: " + wname, backend=backend, window=win, replay_kind="vartime_multiscalar", replay_points=n))
    return T

def harnesses(rep, cfg, modpath, tier):
    T = []
    def H(name, fn, body, bounds="all digit vectors in the recoding's range (all scalars); symbolic base points"):
        T.append(lambda: g_harness(rep, cfg, modpath, name, fn, body, bounds))
    def b_varbase(it):
        P = it.point("P"); s = it.scalar("s"); out = it.new_region("out", 4 * it.fs)
        it.call("vp_g_variable_base", [out, P, s])
        return it.get(out), G.base("P").scale(spec_scalar(it, "s", "r16")), []
    H("serial variable_base::mul", "vp_g_variable_base", b_varbase)
    def mk_straus(n):
        def b(it):
            out = it.new_region("out", 4 * it.fs)
            if n == 0:
                it.call("vp_g_straus_ct_0", [out]); return it.get(out), G(), []
            sc = it.new_region("scalars", 32 * n); pts = it.new_region("points", 4 * it.fs * n)
            exp = G()
            for i in range(n):
                tag = "s%d" % i
                so = gsym.ScalarObj(tag)
                for k in range(32): it.regions[sc.r].b[32 * i + k] = (so, k, 32)
                it.put(Ptr(pts.r, 4 * it.fs * i), G.base("P%d" % i), 4 * it.fs)
            it.call("vp_g_straus_ct_%d" % n, [out, sc, pts])
            for i in range(n): exp = exp + G.base("P%d" % i).scale(spec_scalar(it, "s%d" % i, "r16"))
            return it.get(out), exp, []
        return b
    for n in ((0, 1, 2) if tier == "quick" else (0, 1, 2, 3)):
        H("serial Straus::multiscalar_mul n=%d" % n, "vp_g_straus_ct_%d" % n, mk_straus(n))
    def mk_table(r, w):
        def b(it):
            P = it.point("P"); s = it.scalar("s"); out = it.new_region("out", 4 * it.fs); bout = it.new_region("bout", 4 * it.fs)
            it.call("vp_g_table_r%d" % r, [out, P, s, bout])
            return it.get(out), G.base("P").scale(spec_scalar(it, "s", "r2w%d" % w)), [("table.basepoint() == P", it.get(bout).eq(G.base("P")))]
        return b
    for r, w in ((16, 4), (32, 5), (64, 6), (128, 7), (256, 8)):
        H("EdwardsBasepointTableRadix%d create+mul_base" % r, "vp_g_table_r%d" % r, mk_table(r, w))
    def mk_pow2(k):
        def b(it):
            P = it.point("P"); out = it.new_region("out", 4 * it.fs)
            it.call("vp_g_mul_by_pow_2", [out, P, Poly.const(k)])
            return it.get(out), G.base("P").scale(2 ** k), []
        return b
    for k in (1, 2, 3, 4, 5, 6, 7, 8):
        H("mul_by_pow_2(%d)" % k, "vp_g_mul_by_pow_2", mk_pow2(k), bounds="symbolic point")
    # the clamped entry points: clamp_integer runs as real code on 32 symbolic bytes; the recoded scalar is the clamped integer (< 2^255)
    def mk_clamped(fn, base):
        def b(it):
            from checks.c07g import spec_clamped, byte_int
            P = it.point("P") if base is None else None
            sp = it.new_region("bytes", 32); sb = [it.ctx.input("k%d" % i, 0, 255) for i in range(32)]
            for i in range(32): it.store(Ptr(sp.r, i), sb[i], 1)
            out = it.new_region("out", 4 * it.fs)
            it.call(fn, [out, P, sp] if base is None else [out, sp])
            tags = sorted(it.byte_scalars)
            notes = [("exactly one scalar is recoded", len(tags) == 1 and len(it.digits) == 1)]
            if len(tags) != 1 or len(it.digits) != 1: return it.get(out), G(), notes
            (tag, kind), = it.digits.keys()
            val = byte_int(it.byte_scalars[tag])
            it.extra_goals = [("the recoded scalar is the RFC 7748 clamped integer of the input bytes (bits 0,1,2,255 clear, bit 254 set)", Cond("cmp", "ne", val, spec_clamped(sb, it))),
                              ("it is below 2^255 (domain of the recoding certificate)", Cond("cmp", "gt", it.byte_scalars[tag][31], Poly.const(127)))]
            it.extra_replay = lambda model: clamped_replay(cfg, fn, model)
            return it.get(out), G.base("P" if base is None else base).scale(spec_scalar(it, tag, kind)), notes
        return b
    CB = "all 2^256 byte strings (clamped by the real code), all digit vectors of the recoding; symbolic base point"
    H("EdwardsPoint::mul_clamped", "vp_g_ed_mul_clamped", mk_clamped("vp_g_ed_mul_clamped", None), bounds=CB)
    H("EdwardsPoint::mul_base_clamped", "vp_g_ed_mul_base_clamped", mk_clamped("vp_g_ed_mul_base_clamped", "B"), bounds=CB)
    # Ristretto wrappers (RistrettoPoint is a transparent wrapper of EdwardsPoint: the same linear forms) and Sum
    def mk_ris(fn, base, kind):
        def b(it):
            s = it.scalar("s"); out = it.new_region("out", 4 * it.fs)
            if base is None:
                P = it.point("P"); it.call(fn, [out, P, s])
            else: it.call(fn, [out, s])
            ks = [k for (t, k) in it.digits if t == "s"]
            return it.get(out), G.base("P" if base is None else "B").scale(spec_scalar(it, "s", ks[0])), [("one recoding of s", len(ks) == 1)]
        return b
    H("&RistrettoPoint * &Scalar", "vp_g_ris_mul", mk_ris("vp_g_ris_mul", None, None))
    H("&Scalar * &RistrettoPoint", "vp_g_ris_mul_rev", mk_ris("vp_g_ris_mul_rev", None, None))
    H("RistrettoPoint::mul_base", "vp_g_ris_mul_base", mk_ris("vp_g_ris_mul_base", "B", None))
    H("&RISTRETTO_BASEPOINT_TABLE * &Scalar", "vp_g_ris_table_mul", mk_ris("vp_g_ris_table_mul", "B", None))
    def mk_ris_ms(n):
        def b(it):
            out = it.new_region("out", 4 * it.fs); sc = it.new_region("scalars", 32 * n); pts = it.new_region("points", 4 * it.fs * n)
            for i in range(n):
                so = gsym.ScalarObj("s%d" % i)
                for k in range(32): it.regions[sc.r].b[32 * i + k] = (so, k, 32)
                it.put(Ptr(pts.r, 4 * it.fs * i), G.base("P%d" % i), 4 * it.fs)
            it.call("vp_g_ris_multiscalar_mul", [out, sc, Poly.const(n), pts, Poly.const(n)])
            exp = G()
            for i in range(n): exp = exp + G.base("P%d" % i).scale(spec_scalar(it, "s%d" % i, "r16"))
            return it.get(out), exp, []
        return b
    H("RistrettoPoint::multiscalar_mul n=2", "vp_g_ris_multiscalar_mul", mk_ris_ms(2))
    def mk_sum(fn, n):
        def b(it):
            out = it.new_region("out", 4 * it.fs); pts = it.new_region("points", 4 * it.fs * max(n, 1)); exp = G()
            for i in range(n):
                it.put(Ptr(pts.r, 4 * it.fs * i), G.base("P%d" % i), 4 * it.fs); exp = exp + G.base("P%d" % i)
            it.call(fn, [out, pts, Poly.const(n)])
            return it.get(out), exp, []
        return b
    for n in (0, 1, 3):
        H("EdwardsPoint: Sum over %d points" % n, "vp_g_ed_sum", mk_sum("vp_g_ed_sum", n), bounds="symbolic points")
        H("RistrettoPoint: Sum over %d points" % n, "vp_g_ris_sum", mk_sum("vp_g_ris_sum", n), bounds="symbolic points")
    def b_cof(it):
        P = it.point("P"); out = it.new_region("out", 4 * it.fs)
        it.call("vp_g_mul_by_cofactor", [out, P]); return it.get(out), G.base("P").scale(8), []
    H("mul_by_cofactor", "vp_g_mul_by_cofactor", b_cof, bounds="symbolic point")
    return T

def vector_harnesses(rep, cfg, modpath, tier, backend):
    """the vector (AVX2 / IFMA) copies of the algorithms, reached through the public dispatching API"""
    T = []
    def H(name, fn, body, bounds="all digit vectors in the recoding's range (all scalars); symbolic base points"):
        T.append(lambda: g_harness(rep, cfg, modpath, name, fn, body, bounds, backend=backend))
    def b_mul(it):
        P = it.point("P"); s = it.scalar("s"); out = it.new_region("out", 4 * it.fs)
        it.call("vp_g_ed_mul", [out, P, s])
        return it.get(out), G.base("P").scale(spec_scalar(it, "s", "r16")), []
    T.append(lambda: g_harness(rep, cfg, modpath, "vector variable_base::mul (EdwardsPoint * Scalar)", "vp_g_ed_mul", b_mul, "all radix-16 digit vectors; symbolic point", backend=backend, replay_kind="ed_mul"))
    def mk_ms(n):
        def b(it):
            out = it.new_region("out", 4 * it.fs)
            sc = it.new_region("scalars", 32 * max(n, 1)); pts = it.new_region("points", 4 * it.fs * max(n, 1))
            exp = G()
            for i in range(n):
                so = gsym.ScalarObj("s%d" % i)
                for k in range(32): it.regions[sc.r].b[32 * i + k] = (so, k, 32)
                it.put(Ptr(pts.r, 4 * it.fs * i), G.base("P%d" % i), 4 * it.fs)
            it.call("vp_g_multiscalar_mul", [out, sc, Poly.const(n), pts, Poly.const(n)])
            for i in range(n): exp = exp + G.base("P%d" % i).scale(spec_scalar(it, "s%d" % i, "r16"))
            return it.get(out), exp, []
        return b
    for n in ((1, 2) if tier == "quick" else (1, 2, 3)):
        T.append(lambda n=n: g_harness(rep, cfg, modpath, "vector Straus::multiscalar_mul n=%d (EdwardsPoint::multiscalar_mul)" % n, "vp_g_multiscalar_mul", mk_ms(n), "all radix-16 digit vectors; symbolic points", backend=backend, replay_kind="multiscalar", replay_points=n))
    return T

KANI = {
 "c04_as_radix_16_certificate": dict(function="Scalar::as_radix_16", bounds="all 2^255 scalars (bytes[31] <= 127); unwind 65", what="digits in [-8,8) (last <= 8) and carry certificate => sum d_i 16^i == s"),
 "c04_as_radix_2w_5_certificate": dict(function="Scalar::as_radix_2w(5)", bounds="all 2^255 scalars; unwind 66", what="digit ranges and carry certificate radix 32"),
 "c04_as_radix_2w_6_certificate": dict(function="Scalar::as_radix_2w(6)", bounds="all 2^255 scalars; unwind 66", what="digit ranges and carry certificate radix 64"),
 "c04_as_radix_2w_7_certificate": dict(function="Scalar::as_radix_2w(7)", bounds="all 2^255 scalars; unwind 66", what="digit ranges and carry certificate radix 128"),
 "c04_as_radix_2w_8_certificate": dict(function="Scalar::as_radix_2w(8)", bounds="all 2^255 scalars; unwind 66", what="digit ranges, carry certificate radix 256 incl. the extra 33rd digit"),
 "c04_select_radix16": dict(function="LookupTable<T>::select", bounds="all x in [-8,8]; model point type M(i16); unwind 10", what="select(x) == x*P on table [1P..8P]"),
 "c04_select_radix32": dict(function="LookupTableRadix32<T>::select", bounds="all x in [-16,16]; model type", what="select(x) == x*P"),
 "c04_select_radix64": dict(function="LookupTableRadix64<T>::select", bounds="all x in [-32,32]; model type", what="select(x) == x*P"),
 "c04_select_radix128": dict(function="LookupTableRadix128<T>::select", bounds="all x in [-64,64]; model type", what="select(x) == x*P"),
 "c04_select_radix256": dict(function="LookupTableRadix256<T>::select", bounds="all x in [-128,127]; model type", what="select(x) == x*P"),
 "c04_naf_select_5": dict(function="NafLookupTable5<T>::select", bounds="all odd x < 16", what="select(x) == x*P on [1P,3P..15P]"),
 "c04_naf_select_8": dict(function="NafLookupTable8<T>::select", bounds="all odd x < 128", what="select(x) == x*P"),
 "c04_bits_le": dict(function="Scalar::bits_le", bounds="all 2^256 byte strings; unwind 258", what="yields bit i of the little-endian integer, 256 bits"),
}

def kani_part(rep, tier):
    from vp import kani
    hs = list(KANI)
    res = kani.run("curve25519-dalek", "serial64", hs, timeout_s=600 if tier == "quick" else 1800)
    kani.record(rep, "serial64", res, hs, KANI)

def run(tier, seed):
    rep = Report("C04")
    cfgs = ["serial64"] if tier == "quick" else ["serial64", "serial32"]
    build.ir_many([dict(config=c, flavour="O0") for c in cfgs])
    tasks = []
    for cfg in cfgs: tasks += harnesses(rep, cfg, build.ir(cfg, "O0"), tier)
    tasks += vartime_harnesses(rep, "serial64", build.ir("serial64", "O0"), tier)
    tasks += pippenger_harnesses(rep, tier)
    # certificate for the NAF recoding (what the NAF-based harnesses assume of their digit vectors): induction over the real loop
    from checks import c04naf
    tasks += c04naf.harnesses(rep, "serial64", build.ir("serial64", "O0"), tier)
    # the variable-time algorithms for ALL 256 digit positions: induction over their real main (and scan) loops, checks/c04vt.py
    from checks import c04vt
    tasks += c04vt.harnesses(rep, "serial64", build.ir("serial64", "O0"), tier, None, "serial")
    tasks += c04vt.harnesses(rep, "simd", build.ir("simd", "O0"), tier, "avx2", "vector (AVX2)")
    tasks += vector_harnesses(rep, "simd", build.ir("simd", "O0"), tier, "avx2")
    tasks += vartime_harnesses(rep, "simd", build.ir("simd", "O0"), tier, backend="avx2")
    # the AVX-512 IFMA copies (unstable_avx512 build, nightly toolchain)
    try:
        a5 = build.ir("avx512", "O0")
        tasks += vector_harnesses(rep, "avx512", a5, tier, "avx512")
        tasks += vartime_harnesses(rep, "avx512", a5, tier, backend="avx512")
        tasks += c04vt.harnesses(rep, "avx512", a5, tier, "avx512", "vector (IFMA)")
        tasks.append(lambda: pippenger_harness(rep, "avx512", a5, "vector (IFMA) Pippenger n=2 (w=6)", "vp_g_pippenger_dispatch", 2, 2, "2 points, all radix-64 digit vectors (all scalars)", backend="avx512"))
        tasks.append(lambda: none_harness(rep, "avx512", a5, "vector (IFMA) Pippenger: None point => None", "vp_g_pippenger_dispatch", 3, backend="avx512"))
    except build.BuildError as e: rep.add(harness="avx512/build", config="avx512", function="build", status="inconclusive", why=str(e)[-400:], goals=[], wall_s=0)
    tasks.append(lambda: kani_part(rep, tier))
    run_tasks(tasks, rep)
    return rep
