"""C04 - every scalar-multiplication algorithm returns sum s_i * P_i (layer G, O0 IR, llsym exact Z^k model).
Digit recodings are replaced by symbolic digit vectors whose ranges / reconstruction certificates are established
on the real recoding code by the Kani harnesses of this property; table look-ups by a symbolic digit are the
linear term digit*P after an on-the-spot check that the table built by the real code is [1P,2P,...]."""
import time
from vp import build
from vp.lharness import module, Report, run_tasks
from llsym import ir, gsym, smt
from llsym.gsym import GSym, G, TableLemmaFailed, DigitOutOfRange
from llsym.poly import Poly, ZERO, ONE
from llsym.lsym import Ptr, Cond, PanicReached

def spec_scalar(it, tag, kind):
    d = it.digits[(tag, kind)]
    return sum((v.scale(w) for v, w in zip(d["vars"], d["weights"])), ZERO)

def g_harness(rep, cfg, modpath, name, fn, body, bounds):
    """body(it) -> (result G, expected G, notes) ; equality of linear forms decided as QF_LIA over the digits"""
    t0 = time.time()
    rec = dict(harness="%s/%s" % (cfg, name), config=cfg, function=fn, goals=[], bounds=bounds)
    try:
        it = GSym(module(modpath))
        res, exp, notes = body(it)
        rec["ir_steps"] = it.steps; rec["intercepted"] = it.kcalls
        rec["table_lemmas"] = sorted(set(l[0] for l in it.lemmas if l[1]))
        rec["recodings"] = sorted("%s:%s" % k for k in it.digits)
        diff = res - exp
        pr = smt.Problem(it.ctx)
        status = "ok"
        bases = sorted(set(res.c) | set(exp.c))
        for b in bases:
            d = diff.c.get(b, ZERO)
            v, model, dt, info = pr.check(Cond("cmp", "ne", d, ZERO), timeout_s=60, split=False)
            rec["goals"].append(dict(goal="coefficient of %s: result == expected" % b, verdict=v, solver_s=round(dt, 3), kind="polynomial identity mod p" if info.get("solver_calls", 0) == 0 else "QF_LIA", **info))
            if v == "sat": status = "violation"; rec["why"] = "coefficient of %s differs: %r" % (b, d); rec["model"] = model
            elif v != "unsat" and status == "ok": status = "inconclusive"; rec["why"] = "solver verdict " + v
        for n in notes: rec["goals"].append(dict(goal=n[0], verdict="unsat" if n[1] else "sat", solver_s=0.0, cases=1, solver_calls=0, kind="structural"))
        if any(not n[1] for n in notes): status = "violation"; rec["why"] = "structural condition failed: %s" % [n[0] for n in notes if not n[1]]
        rec["status"] = status
    except (TableLemmaFailed, DigitOutOfRange) as e:
        rec["status"] = "violation"; rec["why"] = "%s: %s" % (type(e).__name__, e)
    except ir.Unsupported as e:
        rec["status"] = "inconclusive"; rec["why"] = "unsupported IR: " + str(e)
    except PanicReached as e:
        rec["status"] = "violation"; rec["why"] = "panic reached: " + str(e)
    rec["wall_s"] = round(time.time() - t0, 3)
    rep.add(**rec); rep.functions.add(fn); rep.configs.add(cfg)
    return rec

def harnesses(rep, cfg, modpath, tier):
    T = []
    def H(name, fn, body, bounds="all digit vectors in the recoding's range (all scalars); symbolic base points"):
        T.append(lambda: g_harness(rep, cfg, modpath, name, fn, body, bounds))
    def b_varbase(it):
        P = it.point("P"); s = it.scalar("s"); out = it.new_region("out", 4 * it.fs)
        it.call("vp_g_variable_base", [out, P, s])
        return it.get(out), G.base("P").scale(spec_scalar(it, "s", "r16")), []
    H("serial variable_base::mul", "vp_g_variable_base", b_varbase)
    def mk_straus(n):
        def b(it):
            out = it.new_region("out", 4 * it.fs)
            if n == 0:
                it.call("vp_g_straus_ct_0", [out]); return it.get(out), G(), []
            sc = it.new_region("scalars", 32 * n); pts = it.new_region("points", 4 * it.fs * n)
            exp = G()
            for i in range(n):
                tag = "s%d" % i
                so = gsym.ScalarObj(tag)
                for k in range(32): it.regions[sc.r].b[32 * i + k] = (so, k, 32)
                it.put(Ptr(pts.r, 4 * it.fs * i), G.base("P%d" % i), 4 * it.fs)
            it.call("vp_g_straus_ct_%d" % n, [out, sc, pts])
            for i in range(n): exp = exp + G.base("P%d" % i).scale(spec_scalar(it, "s%d" % i, "r16"))
            return it.get(out), exp, []
        return b
    for n in ((0, 1, 2) if tier == "quick" else (0, 1, 2, 3)):
        H("serial Straus::multiscalar_mul n=%d" % n, "vp_g_straus_ct_%d" % n, mk_straus(n))
    def mk_table(r, w):
        def b(it):
            P = it.point("P"); s = it.scalar("s"); out = it.new_region("out", 4 * it.fs); bout = it.new_region("bout", 4 * it.fs)
            it.call("vp_g_table_r%d" % r, [out, P, s, bout])
            return it.get(out), G.base("P").scale(spec_scalar(it, "s", "r2w%d" % w)), [("table.basepoint() == P", it.get(bout).eq(G.base("P")))]
        return b
    for r, w in ((16, 4), (32, 5), (64, 6), (128, 7), (256, 8)):
        H("EdwardsBasepointTableRadix%d create+mul_base" % r, "vp_g_table_r%d" % r, mk_table(r, w))
    def mk_pow2(k):
        def b(it):
            P = it.point("P"); out = it.new_region("out", 4 * it.fs)
            it.call("vp_g_mul_by_pow_2", [out, P, Poly.const(k)])
            return it.get(out), G.base("P").scale(2 ** k), []
        return b
    for k in (1, 2, 3, 4, 5, 6, 7, 8):
        H("mul_by_pow_2(%d)" % k, "vp_g_mul_by_pow_2", mk_pow2(k), bounds="symbolic point")
    def b_cof(it):
        P = it.point("P"); out = it.new_region("out", 4 * it.fs)
        it.call("vp_g_mul_by_cofactor", [out, P]); return it.get(out), G.base("P").scale(8), []
    H("mul_by_cofactor", "vp_g_mul_by_cofactor", b_cof, bounds="symbolic point")
    return T

KANI = {
 "c04_as_radix_16_certificate": dict(function="Scalar::as_radix_16", bounds="all 2^255 scalars (bytes[31] <= 127); unwind 65", what="digits in [-8,8) (last <= 8) and carry certificate => sum d_i 16^i == s"),
 "c04_as_radix_2w_5_certificate": dict(function="Scalar::as_radix_2w(5)", bounds="all 2^255 scalars; unwind 66", what="digit ranges and carry certificate radix 32"),
 "c04_as_radix_2w_6_certificate": dict(function="Scalar::as_radix_2w(6)", bounds="all 2^255 scalars; unwind 66", what="digit ranges and carry certificate radix 64"),
 "c04_as_radix_2w_7_certificate": dict(function="Scalar::as_radix_2w(7)", bounds="all 2^255 scalars; unwind 66", what="digit ranges and carry certificate radix 128"),
 "c04_as_radix_2w_8_certificate": dict(function="Scalar::as_radix_2w(8)", bounds="all 2^255 scalars; unwind 66", what="digit ranges, carry certificate radix 256 incl. the extra 33rd digit"),
 "c04_select_radix16": dict(function="LookupTable<T>::select", bounds="all x in [-8,8]; model point type M(i16); unwind 10", what="select(x) == x*P on table [1P..8P]"),
 "c04_select_radix32": dict(function="LookupTableRadix32<T>::select", bounds="all x in [-16,16]; model type", what="select(x) == x*P"),
 "c04_select_radix64": dict(function="LookupTableRadix64<T>::select", bounds="all x in [-32,32]; model type", what="select(x) == x*P"),
 "c04_select_radix128": dict(function="LookupTableRadix128<T>::select", bounds="all x in [-64,64]; model type", what="select(x) == x*P"),
 "c04_select_radix256": dict(function="LookupTableRadix256<T>::select", bounds="all x in [-128,127]; model type", what="select(x) == x*P"),
 "c04_naf_select_5": dict(function="NafLookupTable5<T>::select", bounds="all odd x < 16", what="select(x) == x*P on [1P,3P..15P]"),
 "c04_naf_select_8": dict(function="NafLookupTable8<T>::select", bounds="all odd x < 128", what="select(x) == x*P"),
 "c04_bits_le": dict(function="Scalar::bits_le", bounds="all 2^256 byte strings; unwind 258", what="yields bit i of the little-endian integer, 256 bits"),
}

def kani_part(rep, tier):
    from vp import kani
    hs = list(KANI)
    res = kani.run("curve25519-dalek", "serial64", hs, timeout_s=600 if tier == "quick" else 1800)
    kani.record(rep, "serial64", res, hs, KANI)

def run(tier, seed):
    rep = Report("C04")
    cfgs = ["serial64"] if tier == "quick" else ["serial64", "serial32"]
    build.ir_many([dict(config=c, flavour="O0") for c in cfgs])
    tasks = []
    for cfg in cfgs: tasks += harnesses(rep, cfg, build.ir(cfg, "O0"), tier)
    tasks.append(lambda: kani_part(rep, tier))
    run_tasks(tasks, rep)
    return rep
