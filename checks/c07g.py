"""C07, ladder skeleton and X25519 glue (layer M: the Montgomery ladder in the x-only model).

`MontgomeryPoint::mul_bits_be` and its callers are executed from the O0 LLVM IR with symbolic scalar BYTES (so every bit is
symbolic); the projective x-only points of the ladder are abstract multiples k*P of the input point (k an integer polynomial
over the bits).  Intercepted (their arithmetic meaning is the layer-F part of C07: ladder step vs RFC 7748, as_affine):
   ProjectivePoint::identity -> 0*P ;  {U: u(P), W: 1} -> 1*P ;
   conditional_select(a, b, c) -> a + c*(b - a) ;
   differential_add_and_double(P, Q, u(P)) requires Q - P = +-1*P (checked as a polynomial identity modulo b^2 = b) and gives
   P <- 2P, Q <- P + Q ;  as_affine(k*P) -> the opaque encoding u([k]P).
Everything else - the bit iterator, its order and length, the xor of consecutive bits, the final swap, clamping, the x25519-dalek
wrappers - is real code.  Decided for ALL scalar bytes: the result is u([k]P) with k exactly the integer RFC 7748 prescribes
(clamped little-endian integer for the clamped entry points, bits 0..254 for `&MontgomeryPoint * &Scalar`)."""
import time, re
from vp import build
from vp.lharness import module, Report, run_tasks
from llsym import ir, smt
from llsym.ir import Unsupported
from llsym.poly import Poly, ZERO, ONE
from llsym.lsym import LSym, Ptr, Cond, PanicReached

class LP:
    def __init__(self, k): self.k = k
class FEu: pass
class MOut:
    def __init__(self, k): self.k = k

class MSym(LSym):
    def __init__(self, mod, fesize=40):
        super().__init__(mod, max_steps=100_000_000)
        self.fs = fesize; self.u = FEu(); self.steps_ladder = 0; self.outs = []
        I = self.intercept
        MP = r'curve25519_dalek::montgomery::'
        I.append((r'^<' + MP + r'ProjectivePoint as curve25519_dalek::traits::Identity>::identity$', lambda it, a, n: it.putpt(a[0], ZERO)))
        I.append((r'^<' + MP + r'ProjectivePoint as subtle::ConditionallySelectable>::conditional_select$', self.i_select))
        I.append((r'^' + MP + r'differential_add_and_double$', self.i_step))
        I.append((r'^' + MP + r'ProjectivePoint::as_affine$', self.i_affine))
        I.append((r'^curve25519_dalek::scalar::Scalar::from_bytes_mod_order$', self.i_mod_order))
        I.append((r'^curve25519_dalek::backend::serial::\w+::field::FieldElement\w*::from_bytes$', self.i_from_bytes))
        I.append((r'^curve25519_dalek::field::<impl curve25519_dalek::backend::serial::\w+::field::FieldElement\w*>::from_bytes$', self.i_from_bytes))
    def bnorm(self, p):
        """b*b = b for 0/1 variables"""
        if p.degree() < 2: return p
        out = {}
        for m, c in p.t.items():
            if len(m) >= 2:
                vs = []
                for x in m:
                    if x in vs and self.ctx.bounds.get(x) == (0, 1): continue
                    vs.append(x)
                m = tuple(sorted(vs))
            v = out.get(m, 0) + c
            if v: out[m] = v
            else: out.pop(m, None)
        return Poly(out)
    def putpt(self, p, k):
        obj = LP(self.bnorm(self.ctx.resolve(k))); R = self.regions[p.r]
        for i in range(2 * self.fs): R.b[p.o + i] = (obj, i, 2 * self.fs)
        return None
    def getpt(self, p):
        R = self.regions[p.r]; e = R.b.get(p.o)
        if e is not None and isinstance(e[0], LP) and e[1] == 0: return e[0].k
        if e is not None and e[0] is self.u and e[1] == 0:
            # {U: u(P), W: FieldElement::ONE}
            w = self.P(self.load(Ptr(p.r, p.o + self.fs), 8 if self.fs == 40 else 4))
            rest = [R.b.get(p.o + self.fs + i) for i in range(8 if self.fs == 40 else 4, self.fs)]
            if w.is_const() and w.cval() == 1 and all(c is not None and isinstance(c[0], Poly) and c[0].is_zero() for c in rest): return ONE
        raise Unsupported("ladder operand at %r is not an abstract multiple of the input point" % (p,))
    def i_from_bytes(self, it, a, name):
        # the only field decoding inside the ladder is u(P) of the input point (its bytes are opaque here)
        R = self.regions[a[0].r]
        for i in range(self.fs): R.b[a[0].o + i] = (self.u, i, self.fs)
        return None
    def i_mod_order(self, it, a, name):
        """Scalar::from_bytes_mod_order(x): contract (C02): the canonical representative r = x - l*q, 0 <= r < l"""
        from llsym import fconst
        Lq = fconst.L
        x = byte_int([self.P(self.load(Ptr(a[1].r, a[1].o + i), 1)) for i in range(32)])
        n = getattr(self, "_nred", 0); self._nred = n + 1
        rs = [self.ctx.input("red%d_%d" % (n, i), 0, 255) for i in range(32)]
        q = self.ctx.input("red%d_q" % n, 0, 16)
        r = byte_int(rs)
        self.ctx.side.append(("cond", Cond("cmp", "eq", r, x - q.scale(Lq))))
        self.ctx.side.append(("cond", Cond("cmp", "lt", r, Poly.const(Lq))))
        for i in range(32): self.store(Ptr(a[0].r, a[0].o + i), rs[i], 1)
        return None
    def i_select(self, it, a, name):
        c = self.bnorm(self.ctx.resolve(self.P(a[3])))
        vs = sorted(c.vars())
        if len(vs) > 4 or any(self.ctx.bounds.get(v) != (0, 1) for v in vs): raise Unsupported("conditional_select with a choice that is not a function of at most four bits")
        import itertools
        if any(c.eval(dict(zip(vs, bits))) not in (0, 1) for bits in itertools.product((0, 1), repeat=len(vs))):
            raise Unsupported("conditional_select with a choice outside {0,1}")
        ka, kb = self.getpt(a[1]), self.getpt(a[2])
        return self.putpt(a[0], ka + c * (kb - ka))
    def i_step(self, it, a, name):
        e = self.regions[a[2].r].b.get(a[2].o)
        if e is None or e[0] is not self.u: raise Unsupported("differential_add_and_double called with a difference that is not u(P)")
        kp, kq = self.getpt(a[0]), self.getpt(a[1])
        d = self.bnorm((kq - kp) * (kq - kp) - ONE)
        if not d.is_zero():
            self.bad_diff = str(d)[:200]
            raise LadderInvariant("differential_add_and_double(P, Q, u(P)) called with Q - P != +-P: (Q-P)^2 - 1 = %s" % str(d)[:160])
        self.steps_ladder += 1
        self.putpt(a[0], kp.scale(2)); self.putpt(a[1], kp + kq)
        return None
    def i_affine(self, it, a, name):
        k = self.getpt(a[1]); o = MOut(k); self.outs.append(o); R = self.regions[a[0].r]
        for i in range(32): R.b[a[0].o + i] = (o, i, 32)
        return None

class LadderInvariant(Exception): pass

def x25519_ref(k, u):
    """RFC 7748 section 5 ladder on integers (k already decoded / clamped as the caller wishes)"""
    P = 2**255 - 19; a24 = 121665
    x1 = u % P; x2, z2, x3, z3, swap = 1, 0, x1, 1, 0
    for t in reversed(range(255)):
        kt = (k >> t) & 1; swap ^= kt
        if swap: x2, x3, z2, z3 = x3, x2, z3, z2
        swap = kt
        A = (x2 + z2) % P; AA = A * A % P; B = (x2 - z2) % P; BB = B * B % P; E = (AA - BB) % P
        C = (x3 + z3) % P; D = (x3 - z3) % P; DA = D * A % P; CB = C * B % P
        x3 = (DA + CB) ** 2 % P; z3 = x1 * (DA - CB) ** 2 % P; x2 = AA * BB % P; z2 = E * (AA + a24 * E) % P
    if swap: x2, x3, z2, z3 = x3, x2, z3, z2
    return (x2 * pow(z2, P - 2, P)) % P

def native_replay(cfg, fn, kb):
    """run the real entry point natively on the solver's scalar with u = 9 and compare with the RFC 7748 ladder computed in Python"""
    from vp import native
    name = {"vp_g_mont_mul": "g_mont_mul", "vp_g_mont_mul_clamped": "g_mont_mul_clamped"}.get(fn)
    if name is None: return None, "no native entry for " + fn
    u = (9).to_bytes(32, "little")
    try: got = native.run(cfg, [(name, [u, kb])])[0]
    except Exception as e: return None, "native runner failed: " + str(e)[:200]
    if got is None: return None, "native runner does not know " + name
    k = int.from_bytes(kb, "little")
    if name == "g_mont_mul": k &= (1 << 255) - 1
    else: k = (k & ((1 << 255) - 8)) | (1 << 254); k &= (1 << 255) - 1
    want = x25519_ref(k, 9).to_bytes(32, "little")
    if isinstance(got, tuple): return True, dict(native_call=name, scalar=kb.hex(), native_result=str(got)[:200])
    return (got != want), dict(native_call=name, scalar=kb.hex(), u="09", native_result=got.hex(), rfc7748=want.hex())

def byte_int(vs): return sum((v.scale(1 << (8 * i)) for i, v in enumerate(vs)), ZERO)

def ladder_harness(rep, cfg, modpath, name, fn, arg_order, spec, bounds, find=None):
    """arg_order: tuple of 'out','point','scalar' in call order; spec(bytes polys, it) -> expected integer k as Poly"""
    t0 = time.time()
    rec = dict(harness="%s/%s" % (cfg, name), config=cfg, function=name, goals=[], bounds=bounds,
               assumptions=["ladder step and as_affine are the x-only group operations (C07 layer F: RFC 7748 section 5 formulas)"])
    try:
        mod = modpath if not isinstance(modpath, (str, list)) else None
        if mod is None:
            from checks.c14 import linked
            mod = linked(modpath) if isinstance(modpath, list) else module(modpath)
        it = MSym(mod, 40)
        f = fn
        if f not in mod.funcs:
            f = mod.aliases.get(fn, fn)
            if f not in mod.funcs:
                c = [x for x in mod.funcs if re.search(r"\d+" + re.escape(fn) + r"17h", x)]
                if len(c) != 1: raise Unsupported("function %s not found" % fn)
                f = c[0]
        out = it.new_region("out", 32); pt = it.new_region("point", 32); sc = it.new_region("scalar", 32)
        for i in range(32): it.store(Ptr(pt.r, i), it.ctx.input("u%d" % i, 0, 255), 1)
        sb = [it.ctx.input("k%d" % i, 0, 255) for i in range(32)]
        for i in range(32): it.store(Ptr(sc.r, i), sb[i], 1)
        args = [dict(out=out, point=pt, scalar=sc)[x] for x in arg_order]
        it.call(f, args)
        e = it.regions[out.r].b.get(out.o)
        status = "ok"
        if e is None or not isinstance(e[0], MOut) or any(it.regions[out.r].b.get(out.o + i, (None,))[0] is not e[0] for i in range(32)):
            status = "violation"; rec["why"] = "the returned bytes are not the encoding produced by as_affine of the ladder state"
            rec["goals"].append(dict(goal="result is as_affine(x0) of the ladder", verdict="sat", solver_s=0.0, cases=1, solver_calls=0, kind="structural"))
        else:
            k = it.ctx.resolve(e[0].k); want = it.ctx.resolve(spec(sb, it))
            d = it.bnorm(k - want)
            pr = smt.Problem(it.ctx)
            v, model, dt, info = pr.check(Cond("cmp", "ne", d, ZERO), timeout_s=120, split=False)
            rec["goals"].append(dict(goal="ladder computes [k]P with k == the RFC 7748 integer (%d ladder steps)" % it.steps_ladder, verdict=v, solver_s=round(dt, 3), kind="QF_LIA", **info))
            if v == "sat":
                env = {vv: model.get(vv, 0) for vv in it.ctx.bounds}
                kb = bytes(it.ctx.resolve(Poly.var("k%d" % i)).eval(env) & 255 for i in range(32))
                status = "violation"
                rec["why"] = "scalar multiple differs from the specification for scalar bytes " + kb.hex(); rec["model_scalar"] = kb.hex()
                ok, det = native_replay(cfg, fn, kb)
                rec["replay"] = det; rec["reproduced"] = ok
                if ok is False: status = "inconclusive"; rec["why"] += " | NOT reproduced natively: " + str(det)[:200]
            elif v != "unsat": status = "inconclusive"; rec["why"] = "solver verdict " + v
            rec["ladder_steps"] = it.steps_ladder
        rec["status"] = status; rec["ir_steps"] = it.steps
    except LadderInvariant as e:
        rec["status"] = "violation"; rec["why"] = str(e)
    except Unsupported as e:
        rec["status"] = "inconclusive"; rec["why"] = "unsupported IR: " + str(e)[:400]
    except PanicReached as e:
        rec["status"] = "violation"; rec["why"] = "panic reached: " + str(e)[:200]
    rec["wall_s"] = round(time.time() - t0, 3)
    rep.add(**rec); rep.functions.add(name); rep.configs.add(cfg)

def spec_plain(sb, it):
    """&MontgomeryPoint * &Scalar: the integer of bits 0..254 (scalar invariant #1: bit 255 is clear and skipped)"""
    top = it.ctx.bits(sb[31], 7, 8)
    return byte_int(sb) - top.scale(1 << 255)
def spec_clamped(sb, it):
    """RFC 7748 decodeScalar25519: clear bits 0,1,2 and 255, set bit 254"""
    low = it.ctx.bits(sb[0], 0, 3); b254 = it.ctx.bits(sb[31], 6, 7); b255 = it.ctx.bits(sb[31], 7, 8)
    return byte_int(sb) - low - b255.scale(1 << 255) - b254.scale(1 << 254) + Poly.const(1 << 254)

def harnesses(rep, cfg, modpath, tier):
    T = []
    T.append(lambda: ladder_harness(rep, cfg, modpath, "&MontgomeryPoint * &Scalar (mul_bits_be over bits 254..0)", "vp_g_mont_mul", ("out", "point", "scalar"), spec_plain, "all 2^256 scalar byte strings, opaque point"))
    T.append(lambda: ladder_harness(rep, cfg, modpath, "MontgomeryPoint::mul_clamped", "vp_g_mont_mul_clamped", ("out", "point", "scalar"), spec_clamped, "all 2^256 byte strings, opaque point"))
    return T

def x_harnesses(rep, paths, tier):
    T = []
    for nm, fn in (("x25519(k, u)", "vp_x25519"), ("EphemeralSecret::diffie_hellman", "vp_x_ephemeral_dh"), ("StaticSecret::diffie_hellman", "vp_x_static_dh"), ("ReusableSecret::diffie_hellman", "vp_x_reusable_dh")):
        T.append(lambda nm=nm, fn=fn: ladder_harness(rep, "serial64", paths, "x25519-dalek " + nm, fn, ("out", "scalar", "point"), spec_clamped, "all 2^256 secret byte strings, opaque peer point"))
    return T

# ---- public-key derivation through the Edwards basepoint (layer G on the linked IR of x25519-dalek + dependencies)
class Phi:
    """the Montgomery u-coordinate of the image of an Edwards group element under the birational map (opaque 32-byte encoding)"""
    def __init__(self, g): self.g = g

def phi_intercept(it):
    def to_mont(it_, a, name):
        obj = Phi(it_.get(a[1])); R = it_.regions[a[0].r]
        for k in range(32): R.b[a[0].o + k] = (obj, k, 32)
        return None
    it.intercept.insert(0, (r'^curve25519_dalek::edwards::EdwardsPoint::to_montgomery$', to_mont))

def pub_harness(rep, paths, nm, fn):
    """PublicKey::from(&secret) = to_montgomery(clamp(bytes) * B): together with to_montgomery(B) = 9 (C12) and the birational map being a
    group homomorphism (trusted mathematics) this is X25519(bytes, 9) of RFC 7748 section 6.1"""
    from checks.c14 import linked
    from checks import c04
    from llsym.gsym import GSym, G
    t0 = time.time()
    rec = dict(harness="serial64/x25519-dalek " + nm, config="serial64", function=nm, goals=[], bounds="all 2^256 secret byte strings (clamped by the real code), all digit vectors of the recoding",
               assumptions=["Scalar recodings per their certificates (C04)", "to_montgomery(B) = 9 (C12) and the birational map is a group homomorphism (trusted mathematics): phi(c*B) = u([c] 9)"])
    status = "ok"
    try:
        it = GSym(linked(paths)); phi_intercept(it)
        sp = it.new_region("bytes", 32); sb = [it.ctx.input("k%d" % i, 0, 255) for i in range(32)]
        for i in range(32): it.store(Ptr(sp.r, i), sb[i], 1)
        out = it.new_region("out", 32)
        it.call(fn, [out, sp])
        cells = [it.regions[out.r].b.get(k) for k in range(32)]
        ph = cells[0][0] if cells[0] else None
        okp = isinstance(ph, Phi) and all(c is not None and c[0] is ph and c[1] == k for k, c in enumerate(cells))
        rec["goals"].append(dict(goal="the 32 output bytes are exactly to_montgomery(E) of one Edwards element E", verdict="unsat" if okp else "sat", solver_s=0.0, cases=1, solver_calls=0, kind="structural"))
        from llsym import fconst
        u_b = (1 + fconst.BY) * pow(1 - fconst.BY, fconst.P - 2, fconst.P) % fconst.P
        rec["goals"].append(dict(goal="ground: the birational map sends the Ed25519 basepoint to u = (1+y_B)/(1-y_B) = 9", verdict="unsat" if u_b == 9 else "sat", solver_s=0.0, cases=1, solver_calls=0, kind="ground identity"))
        tags = sorted(it.byte_scalars)
        ok1 = okp and len(tags) == 1 and len(it.digits) == 1
        rec["goals"].append(dict(goal="exactly one scalar, assembled from the secret bytes, is recoded", verdict="unsat" if ok1 else "sat", solver_s=0.0, cases=1, solver_calls=0, kind="structural"))
        if not ok1: status = "violation"; rec["why"] = "public key is not to_montgomery of one scalar multiple"
        else:
            (tag, kind), = it.digits.keys()
            val = byte_int(it.byte_scalars[tag]); want = spec_clamped(sb, it)
            diff = ph.g - G.base("B").scale(c04.spec_scalar(it, tag, kind))
            goals = [("E == (sum of the recoding's digits) * B", Cond("cmp", "ne", diff.c.get("B", ZERO), ZERO) if set(diff.c) <= {"B"} else Cond("const", True)),
                     ("the recoded scalar is the RFC 7748 clamped integer of the secret bytes", Cond("cmp", "ne", val, want)),
                     ("it is below 2^255 (domain of the recoding certificate)", Cond("cmp", "gt", it.byte_scalars[tag][31], Poly.const(127)))]
            pr = smt.Problem(it.ctx)
            for gname, viol in goals:
                v, model, dt, info = pr.check(viol, timeout_s=60, split=False)
                rec["goals"].append(dict(goal=gname, verdict=v, solver_s=round(dt, 3), kind="QF_LIA" if info.get("solver_calls") else "polynomial identity mod p", **info))
                if v == "sat" and status == "ok":
                    status = "violation"; rec["why"] = gname + " fails"
                    kb = bytes(int((model or {}).get("k%d" % i, 0)) & 255 for i in range(32))
                    ok, det = pub_replay(fn, [kb, bytes([255] * 32), bytes(32), bytes(range(3, 35))]); rec["replay"] = det; rec["reproduced"] = ok
                    if not ok: status = "inconclusive"; rec["why"] += " (not reproduced natively: %s)" % (det,)
                elif v not in ("sat", "unsat") and status == "ok": status = "inconclusive"; rec["why"] = "solver verdict " + v
        rec["status"] = status; rec["ir_steps"] = it.steps
    except Unsupported as e:
        rec["status"] = "inconclusive"; rec["why"] = "unsupported IR: " + str(e)[:400]
    except PanicReached as e:
        rec["status"] = "violation"; rec["why"] = "panic reached: " + str(e)[:200]
    rec["wall_s"] = round(time.time() - t0, 3)
    rep.add(**rec); rep.functions.add(nm); rep.configs.add("serial64")

def pub_replay(fn, cands):
    """native: the Edwards-basepoint route of curve25519-dalek against the RFC 7748 ladder on u = 9"""
    from vp import native
    try: outs = native.run("serial64", [("g_mont_from_base_clamped", [k]) for k in cands])
    except Exception as e: return None, "native runner failed: " + str(e)[:200]
    for k, got in zip(cands, outs):
        if got is None: return None, "native runner does not know g_mont_from_base_clamped"
        if isinstance(got, tuple): return True, dict(secret=k.hex(), native_result=str(got)[:120])
        c = int.from_bytes(k, "little"); c = (c & ((1 << 255) - 1) & ~7) | (1 << 254)
        want = x25519_ref(c, 9).to_bytes(32, "little")
        if got != want: return True, dict(secret=k.hex(), native_result=got.hex(), specification=want.hex())
    return False, "EdwardsPoint::mul_base_clamped(k).to_montgomery() equals the RFC 7748 ladder on u = 9 for %d byte strings" % len(cands)

def pub_harnesses(rep, paths, tier):
    T = []
    for nm, fn in (("PublicKey::from(&StaticSecret)", "vp_x_public_from_static"), ("PublicKey::from(&EphemeralSecret)", "vp_x_public_from_ephemeral_bytes"), ("PublicKey::from(&ReusableSecret)", "vp_x_public_from_reusable")):
        T.append(lambda nm=nm, fn=fn: pub_harness(rep, paths, nm, fn))
    return T
