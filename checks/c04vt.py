"""C04 - the variable-time algorithms for ALL 256 digit positions, by induction over their real loops (layer G on the O0 IR).

The path harnesses of c04.py bound the NAF digits to a window of positions.  Here the main loop of each variable-time algorithm
(vartime double-base, vartime Straus, precomputed Straus; serial, AVX2 and IFMA copies) is cut at its loop header: for EVERY position p the
loop-carried state is overwritten at the header with the inductive pre-state - position p, accumulator = a formal group element R - the
real loop body runs once with the digits of every scalar at position p symbolic over their whole range (three-way sign matches merged),
and at the next arrival at the header (or at the function's exit for the last position) the solver shows

        accumulator' = 2 R + sum_k d_{k,p} P_k        and        position' = p - 1 .

With accumulator = identity before the loop (read off the run) this gives result = sum_k (sum_p d_{k,p} 2^p) P_k by induction on p (pure
logic).  For the double-base algorithm the scan for the first non-zero digit is a second loop: for every position j one iteration from
its header shows that it moves on only if both digits at j are zero and otherwise leaves with i = j, so every skipped position holds zero
digits.  Together with the NAF certificate (c04naf.py: sum d_i 2^i = s for s < 2^255) this is the algorithm's contract for all scalars."""
import time, re
from vp import build
from vp.lharness import module, Report, run_tasks
from llsym import ir, gsym, smt
from llsym.gsym import GSym, G, TableLemmaFailed, DigitOutOfRange
from llsym.poly import Poly, ZERO, ONE
from llsym.lsym import Ptr, Cond, PanicReached, c_not, c_or

class Stop(Exception): pass

def succs(fn, l):
    t = fn.block(l)[-1]; op = t[0]
    if op == "br": return [t[2]]
    if op == "condbr": return [t[3], t[4]]
    if op == "switch": return [t[4]] + [x[1] for x in t[5]]
    if op == "invoke": return [t[5], t[6]]
    return []

def loop_headers(fn):
    """targets of back edges (iterative DFS from the entry block)"""
    entry = fn.order[0]; color = {}; heads = set(); stack = [(entry, iter(succs(fn, entry)))]; color[entry] = 1
    while stack:
        n, itr = stack[-1]
        for s in itr:
            c = color.get(s, 0)
            if c == 0: color[s] = 1; stack.append((s, iter(succs(fn, s)))); break
            if c == 1: heads.add(s)
        else:
            color[n] = 2; stack.pop()
    return heads

def own_path(fn):
    """the function's own path: the legacy mangled name (generic arguments are not part of it) or, for v0 mangling, rustc's demangled name with
    every <...> group after the last '>::' of the leading qualified-self part removed (generic arguments may mention closures and other paths)"""
    if fn.name.startswith("_ZN"): return fn.name
    p = getattr(fn, "pretty", "") or fn.name
    out = []; depth = 0; i = 0
    # keep a leading '<T as Trait>' (it names the implementing type), drop later generic argument lists
    lead = p.startswith("<")
    while i < len(p):
        c = p[i]
        if c == "<":
            depth += 1
            if lead and depth >= 1: out.append(c)
        elif c == ">":
            if lead: out.append(c)
            depth -= 1
            if depth == 0 and lead: lead = False
        elif depth == 0 or lead: out.append(c)
        i += 1
    return "".join(out)

def analyse(fn):
    """static facts of the target function: block of the doubling call and its accumulator alloca, block of Rev::next and its iterator alloca"""
    info = dict(heads=loop_headers(fn))
    for l in fn.order:
        for ins in fn.block(l):
            if ins[0] == "store" and "posvar" not in info and ins[3] == ("i", 255) and ins[4][0] == "r":
                info["posvar"] = ins[4][1]        # `let mut i: usize = 255;` of the double-base algorithm (found by its initialiser, not by name)
            if ins[0] in ("call", "invoke"):
                cal = (ins[3][1] if ins[3][0] == "g" else "") + " " + (ins[-1] or "")        # mangled name + rustc's demangled comment
                if re.search(r"(6double|12_impl_double)17h|::(_impl_)?double$", cal) and "dbl_block" not in info:
                    info["dbl_block"] = l; info["acc"] = ins[4][1][1][1] if ins[4][1][1][0] == "r" else None
                if "Rev" in cal and re.search(r"4next17h|::next$", cal) and "rev_block" not in info:
                    info["rev_block"] = l; info["iter"] = ins[4][0][1][1] if ins[4][0][1][0] == "r" else None
    return info

TARGETS = {   # (substrings that must all occur in the mangled name); the function must also contain the doubling call inside a loop (analyse)
    "db": ("vartime_double_base", "mul"),
    "straus": ("straus", "VartimeMultiscalarMul", "optional_multiscalar_mul"),
    "pre": ("precomputed_straus", "VartimePrecomputedStraus", "mixed_multiscalar_mul"),
}

def setup_call(it, kind, nd):
    """arguments of the entry hook; returns (call thunk, expected-term builder, out region)"""
    out = it.new_region("out", 4 * it.fs)
    if kind == "db":
        A = it.point("A"); a = it.scalar("a"); b = it.scalar("b")
        def go(): it.call("vp_g_vartime_double_pub", [out, a, A, b])
        def digits(p):
            wb = 8 if ("b", "naf8") in it.digits else 5
            return [("A", it.digits[("a", "naf5")]["vars"][p]), ("B", it.digits[("b", "naf%d" % wb)]["vars"][p])]
        return go, digits, out
    if kind == "straus":
        n = nd; sc = it.new_region("scalars", 32 * n); pts = it.new_region("points", 4 * it.fs * n)
        for i in range(n):
            so = gsym.ScalarObj("s%d" % i)
            for k in range(32): it.regions[sc.r].b[32 * i + k] = (so, k, 32)
            it.put(Ptr(pts.r, 4 * it.fs * i), G.base("P%d" % i), 4 * it.fs)
        def go(): it.call("vp_g_vartime_multiscalar_mul", [out, sc, Poly.const(n), pts, Poly.const(n)])
        def digits(p): return [("P%d" % i, it.digits[("s%d" % i, "naf5")]["vars"][p]) for i in range(n)]
        return go, digits, out
    if kind == "pre":
        regs = {}
        for tag, n in (("t", 1), ("u", nd)):
            sc = it.new_region("scalars_" + tag, 32 * max(n, 1)); pts = it.new_region("points_" + tag, 4 * it.fs * max(n, 1))
            for i in range(n):
                so = gsym.ScalarObj("%s%d" % (tag, i))
                for k in range(32): it.regions[sc.r].b[32 * i + k] = (so, k, 32)
                it.put(Ptr(pts.r, 4 * it.fs * i), G.base("%s%d" % (tag.upper(), i)), 4 * it.fs)
            regs[tag] = (sc, pts, n)
        (ss, sp, ns), (ds, dp, ndd) = regs["t"], regs["u"]
        def go(): it.call("vp_g_precomputed", [out, ss, Poly.const(ns), sp, Poly.const(ns), ds, Poly.const(ndd), dp, Poly.const(ndd)])
        def digits(p): return [("T0", it.digits[("t0", "naf5")]["vars"][p])] + [("U%d" % i, it.digits[("u%d" % i, "naf5")]["vars"][p]) for i in range(ndd)]
        return go, digits, out
    raise ValueError(kind)

def one_step(mod, kind, nd, backend, p, loop, decisions):
    """loop = 'main' | 'scan' (double-base only) | 'exit' (iterator loops: the empty iterator leaves the loop with the accumulator unchanged)"""
    from checks.c04 import force_backend
    it = GSym(mod)
    if backend: force_backend(it, backend)
    it.naf_window = {p}
    go, digits, out = setup_call(it, kind, nd)
    st = dict(fn=None, info=None, arr={}, post=None, used=list(decisions), i=0, init_acc=None)
    tsub = TARGETS[kind]
    def brancher(it_, f_, lab, c, ins):
        i = st["i"]; st["i"] += 1
        if i >= len(st["used"]): st["used"].append(0)
        v = st["used"][i]
        it_.ctx.assume.append(c if v else c_not(c))
        it_.refine_by_decision(c, bool(v))
        return ins[3] if v else ins[4]
    it.allow_symbolic_branch = brancher
    def hook(it_, f_, lab, env, prev):
        if st["fn"] is None:
            nm = own_path(f_)
            if "closure" in nm or not all(x in nm for x in tsub): return
            info = analyse(f_)
            if "dbl_block" not in info or not info["heads"]: return
            st["fn"] = f_; st["info"] = info
        if f_ is not st["fn"]: return
        info = st["info"]
        if kind == "db": scan_h, main_h = info.get("rev_block"), info["dbl_block"]
        else: scan_h, main_h = None, info["rev_block"]
        if lab not in (scan_h, main_h): return
        if lab not in info["heads"]: raise ir.Unsupported("block %s of %s is not a loop header" % (lab, f_.name[-50:]))
        n = st["arr"][lab] = st["arr"].get(lab, 0) + 1
        if lab == scan_h:
            itp = env[info["iter"]]
            if n == 1:
                st["init_iter"] = (it_.P(it_.load(itp, 8)), it_.P(it_.load(Ptr(itp.r, itp.o + 8), 8)))
                if loop == "scan":
                    it_.store(itp, Poly.const(0), 8); it_.store(Ptr(itp.r, itp.o + 8), Poly.const(p + 1), 8)
                else:   # skip the scan: empty iterator
                    it_.store(itp, Poly.const(0), 8); it_.store(Ptr(itp.r, itp.o + 8), Poly.const(0), 8)
            elif loop == "scan":
                st["post"] = ("continue", it_.P(it_.load(Ptr(itp.r, itp.o + 8), 8))); raise Stop()
            else: raise ir.Unsupported("scan header reached twice although the iterator was emptied")
            return
        # main header
        if loop == "scan":
            st["post"] = ("leave", it_.P(it_.load(env[info.get("posvar", "%i")], 8))); raise Stop()
        acc = env[info["acc"]]; e0 = it_.regions[acc.r].b.get(acc.o)
        accsize = e0[2] if e0 is not None and isinstance(e0[0], G) else None
        if accsize is None: raise ir.Unsupported("accumulator of the loop does not hold a group element at the header")
        if n == 1:
            st["init_acc"] = it_.get(acc) if _is_g(it_, acc) else None
            it_.put(acc, G.base("R"), accsize)
            if kind == "db": it_.store(env[info.get("posvar", "%i")], Poly.const(p), 8)
            else:
                itp = env[info["iter"]]
                st["init_iter"] = (it_.P(it_.load(itp, 8)), it_.P(it_.load(Ptr(itp.r, itp.o + 8), 8)))
                it_.store(itp, Poly.const(0), 8); it_.store(Ptr(itp.r, itp.o + 8), Poly.const(0 if loop == "exit" else p + 1), 8)
        else:
            if kind == "db": pos2 = it_.P(it_.load(env[info.get("posvar", "%i")], 8))
            else:
                itp = env[info["iter"]]; pos2 = it_.P(it_.load(Ptr(itp.r, itp.o + 8), 8)) - ONE
            st["post"] = ("header", pos2, it_.get(acc)); raise Stop()
    it.block_hook = hook
    try:
        go()
        st["post"] = ("return", None, it.get(out))
    except Stop: pass
    return it, st, digits

def _is_g(it, p):
    e = it.regions[p.r].b.get(p.o)
    return e is not None and isinstance(e[0], G)

def induction_harness(rep, cfg, modpath, kind, nd, backend, positions, label):
    t0 = time.time()
    name = {"db": "vartime double-base", "straus": "vartime Straus n=%d" % nd, "pre": "precomputed Straus 1 static + %d dynamic" % nd}[kind]
    rec = dict(harness="%s/%s: loop induction, positions %d..%d" % (cfg + ("+" + backend if backend else ""), (label + " " if label else "") + name, positions[0], positions[-1]), config=cfg,
               function={"db": "vartime_double_base::mul", "straus": "Straus::optional_multiscalar_mul (vartime)", "pre": "VartimePrecomputedStraus::optional_mixed_multiscalar_mul"}[kind], goals=[],
               bounds="every listed loop position; accumulator a formal group element; the digits of every scalar at that position arbitrary in the NAF range; symbolic points; every path of the loop body",
               assumptions=["the conclusion for the whole loop follows from the per-position steps by induction on the position (pure logic)", "NAF digits: odd or zero, |d| < 2^(w-1), sum d_i 2^i = s (c04naf.py)"])
    S = dict(status="ok", why="", nq=0, nsteps=0)
    def bad(w, viol=True):
        if S["status"] == "ok" or (viol and S["status"] != "violation"): S["status"] = "violation" if viol else "inconclusive"; S["why"] = w
    def goal(g, ok, **kw): rec["goals"].append(dict(dict(goal=g, verdict="unsat" if ok else "sat", solver_s=0.0, cases=1, solver_calls=0, kind="structural"), **kw))
    def main_one(it, st, digits, p, first):
        if backend in ("avx2", "avx512") and "vector" not in st["fn"].name + getattr(st["fn"], "pretty", ""): raise ir.Unsupported("forced backend %s but the loop executed is %s" % (backend, st["fn"].name[-60:]))
        if first:
            ok0 = st["init_acc"] is not None and st["init_acc"].eq(G())
            goal("before the loop the accumulator is the identity", ok0)
            if not ok0: bad("accumulator is not the identity before the loop")
            ii = st.get("init_iter")
            oki = ii is not None and ii[0].is_const() and ii[1].is_const() and (ii[0].cval(), ii[1].cval()) == (0, 256)
            goal("the %s loop runs over the positions 255 down to 0 (iterator (0..256).rev() at its first arrival)" % ("scan" if kind == "db" else "main"), oki)
            if not oki: bad("the %s loop does not start at position 255: iterator state %r" % ("scan" if kind == "db" else "main", ii))
        how, pos2, acc2 = st["post"]
        exp = G.base("R").scale(2)
        for b, d in digits(p): exp = exp + G.base(b).scale(d)
        if kind == "db" and p == 0: okpos = how == "return"
        else: okpos = how == "header" and pos2.is_const() and pos2.cval() == p - 1
        if not okpos:
            goal("position %d: the next position is %d" % (p, p - 1), False)
            bad("position %d: loop continues at %r (%s), expected %d" % (p, pos2, how, p - 1))
        diff = acc2 - exp
        pr = smt.Problem(it.ctx)
        for b in sorted(set(acc2.c) | set(exp.c)):
            v, model, dt, info = pr.check(Cond("cmp", "ne", diff.c.get(b, ZERO), ZERO), timeout_s=60, split=False); S["nq"] += 1
            if v != "unsat":
                rec["goals"].append(dict(goal="position %d path %s: coefficient of %s in accumulator' == 2R + sum d_p P" % (p, "".join(map(str, st["used"])), b), verdict=v, solver_s=round(dt, 3), kind="QF_LIA", **info))
                if v == "sat": bad("position %d: accumulator' differs from 2R + sum d_p P in the coefficient of %s: %s with %s" % (p, b, str(diff.c.get(b, ZERO))[:200], {k: model[k] for k in sorted(model or {})[:12]}))
                else: bad("solver verdict %s at position %d" % (v, p), viol=False)
    def scan_one(it, st, digits, p):
        how, val = st["post"][0], st["post"][1]
        ds = [d for _, d in digits(p)]
        pr = smt.Problem(it.ctx)
        if how == "continue":
            okc = val.is_const() and val.cval() == p
            viol = c_or(*[Cond("cmp", "ne", d, ZERO) for d in ds]) if len(ds) > 1 else Cond("cmp", "ne", ds[0], ZERO)
            v, model, dt, info = pr.check(viol, timeout_s=60, split=False); S["nq"] += 1
            if not okc or v != "unsat":
                rec["goals"].append(dict(goal="scan at %d moves on only if both digits are zero, to position %d" % (p, p - 1), verdict="sat" if (not okc or v == "sat") else v, solver_s=round(dt, 3), kind="QF_LIA", **info))
                bad("scan at position %d skips a non-zero digit (%s) or moves to %r" % (p, {k: (model or {})[k] for k in sorted(model or {})[:6]}, val), viol=(not okc or v == "sat"))
        else:
            oki = val.is_const() and val.cval() == p
            if not oki:
                goal("scan leaves at position %d with i = %d" % (p, p), False)
                bad("scan leaves at position %d with i = %r" % (p, val))
    def all_paths(p, loop, fn_one):
        dec = []
        while True:
            it, st, digits = one_step(mod, kind, nd, backend, p, loop, dec); S["nsteps"] += 1
            if st["fn"] is None or st["post"] is None: raise ir.Unsupported("target loop not reached / left unexpectedly (position %d, %s step)" % (p, loop))
            fn_one(it, st, digits)
            d = st["used"][:]
            while d and d[-1] == 1: d.pop()
            if not d or S["status"] == "violation": break
            if len(d) > 16: raise ir.Unsupported("more than 16 nested data-dependent branches in one loop iteration")
            d[-1] = 1; dec = d
    try:
        mod = module(modpath)
        firsts = [True]
        for p in positions:
            def m1(it, st, digits, p=p):
                main_one(it, st, digits, p, firsts[0]); firsts[0] = False
            all_paths(p, "main", m1)
            if S["status"] == "violation": break
            if kind == "db":
                all_paths(p, "scan", lambda it, st, digits, p=p: scan_one(it, st, digits, p))
                if S["status"] == "violation": break
        # ---- exit step of iterator loops: the exhausted iterator returns the accumulator
        if kind != "db" and S["status"] == "ok":
            it, st, digits = one_step(mod, kind, nd, backend, 0, "exit", []); S["nsteps"] += 1
            okx = st["post"] is not None and st["post"][0] == "return" and st["post"][2].eq(G.base("R"))
            goal("when the positions are exhausted the function returns the accumulator unchanged", okx, kind="polynomial identity mod p")
            if not okx: bad("exit of the loop does not return the accumulator: %r" % (st["post"],))
        status, why = S["status"], S["why"]
        if status == "violation":
            # replay on the natively built code: scalars with high / structured bit patterns against sum s_i P_i by the specification's arithmetic
            from checks.c04 import native_replay
            rk = {"db": "vartime_double", "straus": "vartime_multiscalar", "pre": "precomputed"}[kind]
            tags = {"db": ["a", "b"], "straus": ["s%d" % i for i in range(nd)], "pre": ["t0"] + ["u%d" % i for i in range(nd)]}[kind]
            ok, det = native_replay(cfg, rk, {}, {(t, "naf5"): dict(vars=[], weights=[]) for t in tags}, max(len(tags), 2))
            rec["replay"] = det
            if ok is True: rec["reproduced"] = True
            elif ok is False: status = "inconclusive"; why = "loop-level counterexample (%s) not reproduced natively: %s" % (why[:200], det)
            else: rec["reproduced"] = None; why += " | native replay unavailable: " + str(det)
        rec["goals"].append(dict(goal="%d loop positions: accumulator' == 2R + sum_k d_{k,p} P_k and position' == p-1 on every path of the body%s (%d loop-body executions, %d solver queries)" % (len(positions), "; scan loop skips only zero digits" if kind == "db" else "", S["nsteps"], S["nq"]),
                                 verdict="unsat" if status == "ok" else ("sat" if status == "violation" else "unknown"), solver_s=0.0, cases=S["nsteps"], solver_calls=max(S["nq"], 1), kind="QF_LIA summary"))
        rec["status"] = status
        if why: rec["why"] = why
    except (TableLemmaFailed, DigitOutOfRange) as e:
        from checks.c04 import lemma_failure
        lemma_failure(rec, e, cfg, {"db": "vartime_double", "straus": "vartime_multiscalar", "pre": "precomputed"}[kind], max(nd, 1))
    except ir.Unsupported as e:
        rec["status"] = "inconclusive"; rec["why"] = "unsupported IR: " + str(e)[:500]
    except PanicReached as e:
        rec["status"] = "violation"; rec["why"] = "panic reached: " + str(e)[:300]
    rec["wall_s"] = round(time.time() - t0, 3)
    rep.add(**rec); rep.functions.add(rec["function"]); rep.configs.add(cfg)
    return rec

def harnesses(rep, cfg, modpath, tier, backend=None, label=""):
    T = []
    chunks = [list(range(a, min(a + 64, 256))) for a in range(0, 256, 64)]
    kinds = [("db", 0), ("straus", 2), ("pre", 1)]
    for kind, nd in kinds:
        for ch in chunks: T.append(lambda kind=kind, nd=nd, ch=ch: induction_harness(rep, cfg, modpath, kind, nd, backend, ch, label))
    return T
