"""C15 - the `expect` in EdwardsPoint::nonspec_map_to_curve can never fail (layer F + quadratic-character certificates).

Everything after the digest - elligator_encode(r), MontgomeryPoint::to_edwards(sign), the Option it returns - is executed from the O0 IR over a
symbolic field element r on every oracle path (zero tests, square tests, sign).  Each path on which to_edwards returns None (the path on which the
real function panics) must be closed by a certificate; chi is the quadratic character of GF(p), multiplicative with chi(z^2) = 1 for z != 0
(Euler's criterion: trusted mathematics), and the character of every CONSTANT used is computed (ground):

  (Z)  a path relation reduces, modulo the path's other relations, to  alpha*r^2 + beta = 0  with chi(-beta/alpha) = -1: contradiction, r^2 is a square.
       This closes "1 + 2r^2 = 0" and "u = -1" (where (1+2r^2)(u+1) reduces to such a form).
  (D)  the Edwards decoding denominator vanishes: v*(u+1)^2 == d*(u-1)^2 + (u+1)^2 (identity checked), so ((u+1))^2 = -d (u-1)^2 with chi(-d) = -1 forces
       u+1 = u-1 = 0, impossible.
  (Q)  eps = 0: d = -A/(1+2r^2) is non-zero, so d^2 + A d + 1 = 0, i.e. (2d + A)^2 = A^2 - 4 with chi(A^2 - 4) = -1: contradiction.
  (S)  the final square test fails although it cannot: with g = u^3 + A u^2 + u,  num*den*(u+1)^4*(A+2) + 16 g == 0 (identity checked) gives
       chi(num*den) = chi(-(A+2)) chi(g), and  g == eps  (u = d, taken when eps is a square) resp.  g == 2 r^2 eps  (u = -d-A, taken when eps is not
       a square, chi(2) = -1), identities checked on the path; so chi(num*den) = chi(-(A+2)) = 1.
A None path without a certificate is a violation; it is replayed natively on structured r (0, 1, 2, sqrt(-1), ...) x sign before being reported."""
import time
from vp import build
from vp.fharness import *
from vp.lharness import Report
from checks.c06 import neg_of, eqz_of, sqrt_of, Missing

A_ = 486662
def chi(c):
    c %= P
    return 0 if c == 0 else (1 if pow(c, (P - 1) // 2, P) == 1 else -1)

def as_r2_form(p):
    """p == alpha*r^2 + beta in the single variable r ?  -> (alpha, beta) or None"""
    p = fnorm(p); a = b = 0
    for m, c in p.t.items():
        if m == (): b = c
        elif m == ("r", "r"): a = c
        else: return None
    return (a % P, b % P) if a % P else None

def z_certificate(it, extra=()):
    """some relation (or extra polynomial known to vanish), multiplied out, is alpha r^2 + beta with -beta/alpha a non-square"""
    cands = list(it.rel) + list(extra)
    for q in cands:
        for mult in (ONE, ONE + (V("r") * V("r")).scale(2)):
            red = None
            try:
                from llsym.fsym import reduce_mod
                vs = set(fnorm(q * mult).vars())
                for rr in it.rel: vs |= rr.vars()
                order = {v: (1 if v == "r" else 1000 + i) for i, v in enumerate(sorted(vs))}
                red = reduce_mod(fnorm(q * mult), [x for x in it.rel if x is not q], order)
            except Exception: red = None
            for cand in ([fnorm(q * mult)] + ([red] if red is not None else [])):
                f = as_r2_form(cand)
                if f and chi(-f[1] * pow(f[0], P - 2, P)) == -1:
                    return "r^2 = %d is a non-square" % ((-f[1] * pow(f[0], P - 2, P)) % P)
    return None

def harness(rep, cfg, modpath):
    DED = C(fconst.D); Ac = C(A_)
    ground = [("chi(2) = -1", chi(2) == -1), ("chi(-1) = 1", chi(-1) == 1), ("chi(-(A+2)) = 1", chi(-(A_ + 2)) == 1), ("chi(-d) = -1", chi(-fconst.D) == -1), ("chi(A^2 - 4) = -1", chi(A_ * A_ - 4) == -1)]
    def body(it):
        r0 = V("r"); p = put_point(it, "r", [r0]); out = it.new_region("out", 4 * it.fesize)
        sign = it.ctx.input("sign", 0, 1)
        ok = it.P(it.call("vp_ed_nonspec_core", [p, sign, out])).cval() & 1
        vcs = [("ground: " + n, v) for n, v in ground]
        if ok: return vcs + [("to_edwards returned Some", True)]
        # ---- a None path: it must be closed by a certificate
        try:
            d1 = ONE + (r0 * r0).scale(2)
            if eqz_of(it, d1):
                z = z_certificate(it)
                return vcs + [("None path closed: 1 + 2r^2 = 0 is impossible (%s)" % z, z is not None)]
            inv = [f[2] for f in it.facts if f[0] == "inv" and fnorm(f[1] - d1).is_zero()]
            if not inv: raise Missing("inverse of 1+2r^2")
            dd = -Ac * inv[0]
            eps = dd * (dd * dd + Ac * dd + ONE)
            if eqz_of(it, eps):
                # eps = d (d^2 + A d + 1) = 0: d = 0 contradicts the relations (d = -A/(1+2r^2)), so d^2 + A d + 1 = 0, i.e. (2d + A)^2 = A^2 - 4
                iv = list(fnorm(inv[0]).vars())
                def at_zero(q, v):      # q with the variable v set to 0
                    rest = {m: c for m, c in fnorm(q).t.items() if v not in m}
                    return rest
                d_nonzero = len(iv) == 1 and any(list(at_zero(q, iv[0]).keys()) == [()] and at_zero(q, iv[0])[()] % P != 0 for q in it.rel)
                idq = fnorm((dd * dd + Ac * dd + ONE).scale(4) - ((dd.scale(2) + Ac) * (dd.scale(2) + Ac) - C(A_ * A_ - 4))).is_zero()
                return vcs + [("None path closed (Q): eps = 0 with d != 0 needs (2d + A)^2 = A^2 - 4, and chi(A^2 - 4) = -1", d_nonzero and idq and chi(A_ * A_ - 4) == -1)]
            wsq, _ = sqrt_of(it, eps, ONE)
            u = fnorm(dd if wsq else -(dd + Ac))
            if eqz_of(it, u + ONE):
                z = z_certificate(it, extra=[u + ONE])
                return vcs + [("None path closed: u = -1 is impossible (%s)" % z, z is not None)]
            invu = [f[2] for f in it.facts if f[0] == "inv" and fnorm(f[1] - (u + ONE)).is_zero()]
            if not invu: raise Missing("inverse of u+1")
            y = (u - ONE) * invu[0]
            num, den = y * y - ONE, DED * y * y + ONE
            g = u * (u * u + Ac * u + ONE)
            up1 = u + ONE
            if eqz_of(it, num): raise Missing("y^2 = 1 but None returned")
            if eqz_of(it, den):
                idd = is_zero_mod(den * up1 * up1 - (DED * (u - ONE) * (u - ONE) + up1 * up1), it.rel)
                return vcs + [("None path closed (D): den*(u+1)^2 == d(u-1)^2 + (u+1)^2 and chi(-d) = -1, so den = 0 forces u+1 = u-1 = 0", idd)]
            s2, _ = sqrt_of(it, num, den)
            if s2: raise Missing("square test succeeded but None returned")
            id1 = is_zero_mod((num * den * up1 * up1 * up1 * up1).scale(A_ + 2) + g.scale(16), it.rel)
            if wsq: id2 = is_zero_mod(g - eps, it.rel); how = "g == eps, eps a square"
            else:
                id2 = is_zero_mod(g - (eps * r0 * r0).scale(2), it.rel); how = "g == 2 r^2 eps, eps and 2 non-squares"
                # r = 0 would make g = 0: then u = 0, num = 0, excluded above; eps = 0 is excluded by the square test's own zero test
            return vcs + [("None path closed (S): num*den*(u+1)^4*(A+2) + 16 g == 0", id1), ("None path closed (S): " + how + ", hence chi(num*den) = chi(-(A+2)) = 1: the square test cannot fail", id2)]
        except Missing as e:
            return vcs + [("None path has a certificate (structure not recognised: %s)" % e, False)]
    rec = run_paths(rep, "%s/EdwardsPoint::nonspec_map_to_curve: to_edwards(elligator_encode(r), sign) is never None" % cfg, cfg, modpath, "vp_ed_nonspec_core", body)
    it = rep.items[-1]
    it.setdefault("assumptions", []).extend(["quadratic character: multiplicative, chi(z^2) = 1 for z != 0 (Euler's criterion, trusted mathematics); characters of constants computed"])
    if it.get("status") == "violation":
        ok, det = native_replay(cfg)
        it["replay"] = det
        if ok: it["reproduced"] = True; it["why"] = "to_edwards(elligator_encode(r), sign) is None natively: %s | %s" % (det, it.get("why", "")[:200])
        else:
            it["status"] = "inconclusive"; it["why"] = "a None path has no certificate but no structured r reproduces it natively (%s): %s" % (det, it.get("why", "")[:200])
            if it in rep.violations: rep.violations.remove(it)
            rep.inconclusive.append(it)

def native_replay(cfg):
    from vp import native
    cell, nl, weights = LAYOUTS[cfg]
    sq_m1 = pow(2, (P - 1) // 4, P)
    rs = [0, 1, 2, 3, P - 1, sq_m1, (P - 1) // 2, 486662, 121665, 8, 19]
    def fe_bytes(v):
        out = b""
        for i in range(nl):
            w = weights[i + 1] - weights[i] if i + 1 < nl else 255 - weights[i]
            out += ((v >> weights[i]) & ((1 << w) - 1)).to_bytes(cell, "little")
        return out
    calls = [("vp_ed_nonspec_core", [fe_bytes(r), bytes([s])]) for r in rs for s in (0, 1)]
    try: outs = native.run(cfg, calls)
    except Exception as e: return None, "native runner failed: " + str(e)[:200]
    k = 0
    for r in rs:
        for s in (0, 1):
            got = outs[k]; k += 1
            if got is None: return None, "native runner does not know vp_ed_nonspec_core"
            if isinstance(got, tuple): return True, dict(r=r, sign=s, native_result=str(got)[:120])
            if got[0] != 1: return True, dict(r=r, sign=s, native_result="None")
    return False, "Some for all %d structured inputs" % len(calls)
