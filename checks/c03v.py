"""C03 for the AVX2 vector backend (layer F with 4-lane vectors): the point formulas of backend/vector/avx2/edwards.rs.

FieldElement2625x4 values are abstract 4-tuples of field polynomials; its kernels are intercepted as lane-wise ring operations
(their limb arithmetic: checks/c01v.py).  The vector point operations - ExtendedPoint::from / into EdwardsPoint, double,
CachedPoint::from, Neg for &CachedPoint, &ExtendedPoint +/- &CachedPoint - are executed from the O0 IR of the simd build and compared
with the affine twisted-Edwards addition law exactly as the serial formulas are in C03 (polynomial identities for points
parametrised X = xz, Y = yz, Z = z, T = xyz)."""
import re, os
from vp import build
from vp.fharness import *
from vp.lharness import run_tasks
from llsym.fsym import FSym, FE
from llsym.lsym import Ptr, UNDEF
from llsym.poly import Poly, ZERO as PZERO
from checks.c03 import law
from checks.c01v import LANE_IDX, W10

SHUFFLE = ["AAAA", "BBBB", "CACA", "DBBD", "ADDA", "CBCB", "ABAB", "BADC", "BACD", "ABDC"]
LANES = ["C", "D", "AB", "AC", "CD", "AD", "BC", "ABCD"]
import math
class V4:
    """four FE polynomials A, B, C, D and the coefficient bound b (excess in bits over 2^26 / 2^25, as in the backend's documentation)"""
    def __init__(self, l, b=0.0):
        self.l = list(l); self.b = list(b) if isinstance(b, (list, tuple)) else [b] * 4        # one bound per lane
    def bmax(self): return max(self.b)
# kernel contracts (pre-conditions -> post-condition on b), each established for all coefficient vectors by checks/c01v.py
PRE = {"mul": (2.5, 1.75), "square_and_negate_D": (1.5,), "negate_lazy": (0.999,), "diff_sum": (0.01,), "neg": (3.9999,)}
POST = {"new": 0.0002, "reduce": 0.0002, "neg": 0.0002, "mul": 0.007, "square_and_negate_D": 0.007, "mul_small": 0.007, "negate_lazy": 1.0, "diff_sum": 1.6}

I_SHUFFLE = ["AAAA", "BBBB", "BADC", "BACD", "ADDA", "CBCB", "ABDC", "ABAB", "DBBD", "CACA"]
I_LANES = ["D", "C", "AB", "AC", "AD", "BCD"]
def install_ifma(it):
    """IFMA backend: F51x4Unreduced / F51x4Reduced as abstract 4-lane ring values (their coefficient arithmetic: checks/c01i.py); the backend
    documents no coefficient bounds, so no headroom is tracked here"""
    VU = r'<?curve25519_dalek::backend::vector::ifma::field::F51x4(Unreduced|Reduced)>?'       # the nightly (v0) demangling writes inherent methods as <Type>::method
    T_ = r'(::__Impl_\w+__>::_impl_\w+)?$'
    I = it.intercept; it.headroom_fail = []
    def getv(p):
        R = it.regions[p.r]; e = R.b.get(p.o)
        if e is not None and isinstance(e[0], V4) and e[1] == 0: return e[0]
        lanes = []
        for k in range(4):
            tot = 0
            for i in range(5):
                pv = it.P(it.load(Ptr(p.r, p.o + 32 * i + 8 * k), 8))
                if not pv.is_const(): raise Unsupported("vector operand with symbolic raw coefficients at %r" % (p,))
                tot += pv.cval() << (51 * i)
            lanes.append(Poly.const(tot % P))
        return V4(lanes)
    def putv(p, v, b=None):
        obj = v if isinstance(v, V4) else V4(v); R = it.regions[p.r]
        for k in range(160): R.b[p.o + k] = (obj, k, 160)
        return None
    it.getv, it.putv = getv, putv
    def cnum(x):
        pp = it.P(x)
        if not pp.is_const(): raise Unsupported("symbolic shuffle/blend control")
        return pp.cval()
    def lanewise(f, n):
        def h(it_, a, nm):
            ops = [getv(a[1 + k]) for k in range(n)]
            return putv(a[0], [f(*[o.l[k] for o in ops]) for k in range(4)])
        return h
    def h_split(it_, a, n):
        v = getv(a[1])
        for k in range(4): it.put(Ptr(a[0].r, a[0].o + it.fesize * k), FE(v.l[k]))
        return None
    def h_mul_small(it_, a, n):
        v = getv(a[1])
        ks = [cnum(it.load(Ptr(a[2].r, a[2].o + 4 * k), 4)) for k in range(4)] if isinstance(a[2], Ptr) else [cnum(a[2 + k]) for k in range(4)]
        return putv(a[0], [v.l[k].scale(ks[k]) for k in range(4)])
    def h_diff_sum(it_, a, n):
        A, B, Cc, Dd = getv(a[1]).l; return putv(a[0], [B - A, B + A, Dd - Cc, Dd + Cc])
    I.insert(0, (VU + r'::new' + T_, lambda it_, a, n: putv(a[0], [it.get(a[k]).p for k in (1, 2, 3, 4)])))
    I.insert(0, (VU + r'::split' + T_, h_split))
    I.insert(0, (VU + r'::shuffle' + T_, lambda it_, a, n: putv(a[0], [getv(a[1]).l["ABCD".index(c)] for c in I_SHUFFLE[cnum(a[2])]])))
    I.insert(0, (VU + r'::blend' + T_, lambda it_, a, n: putv(a[0], [(getv(a[2]) if "ABCD"[k] in I_LANES[cnum(a[3])] else getv(a[1])).l[k] for k in range(4)])))
    I.insert(0, (VU + r'::negate_lazy' + T_, lanewise(lambda x: -x, 1))); I.insert(0, (VU + r'::diff_sum' + T_, h_diff_sum))
    I.insert(0, (VU + r'::square' + T_, lanewise(lambda x: x * x, 1)))
    I.insert(0, (r'<' + VU + r' as core::ops::arith::Neg>::neg' + T_, lanewise(lambda x: -x, 1)))
    I.insert(0, (r'<' + VU + r' as core::ops::arith::Add>::add' + T_, lanewise(lambda x, y: x + y, 2)))
    I.insert(0, (r'<' + VU + r' as core::convert::From<' + VU + r'>>::from' + T_, lanewise(lambda x: x, 1)))
    I.insert(0, (r'<&' + VU + r' as core::ops::arith::Mul(<&' + VU + r'>)?>::mul' + T_, lanewise(lambda x, y: x * y, 2)))
    I.insert(0, (r'<&' + VU + r' as core::ops::arith::Mul<\(u32, ?u32, ?u32, ?u32\)>>::mul' + T_, h_mul_small))

def install(it):
    """vector-field interceptors on an FSym instance"""
    VF = r'curve25519_dalek::backend::vector::avx2::field::FieldElement2625x4'
    T_ = r'(::__Impl_\w+__>::_impl_\w+)?$'
    I = it.intercept
    def getv(p):
        R = it.regions[p.r]; e = R.b.get(p.o)
        if e is not None and isinstance(e[0], V4) and e[1] == 0: return e[0]
        # constant vector (identity constants, ZERO): decode the four lanes from the coefficient bytes
        lanes = []
        for lane in "ABCD":
            tot = 0
            for i in range(10):
                v = it.load(Ptr(p.r, p.o + 32 * (i // 2) + 4 * LANE_IDX[lane][i % 2]), 4)
                if v is UNDEF: raise Unsupported("vector operand with undefined coefficients at %r" % (p,))
                pv = it.P(v)
                if not pv.is_const(): raise Unsupported("vector operand with symbolic raw coefficients at %r" % (p,))
                tot += pv.cval() << W10[i]
            lanes.append(Poly.const(tot % P))
        bs = []
        for lane in "ABCD":
            mx = -math.inf
            for i in range(10):
                c = it.P(it.load(Ptr(p.r, p.o + 32 * (i // 2) + 4 * LANE_IDX[lane][i % 2]), 4)).cval()
                if c: mx = max(mx, math.log2(c + 1) - (26 if i % 2 == 0 else 25))
            bs.append(mx)
        return V4(lanes, bs)
    it.headroom_fail = []
    def need(op, *vs):
        for k, (v, lim) in enumerate(zip(vs, PRE[op])):
            if not (v.bmax() < lim): it.headroom_fail.append("%s: operand %d has b = %s, the kernel requires b < %s" % (op, k, ["%.3f" % x for x in v.b], lim))
    def putv(p, v, b=None):
        obj = v if isinstance(v, V4) else V4(v, b if b is not None else 0.0); R = it.regions[p.r]
        for k in range(160): R.b[p.o + k] = (obj, k, 160)
        return None
    it.getv, it.putv = getv, putv
    def cnum(x):
        p = it.P(x)
        if not p.is_const(): raise Unsupported("symbolic shuffle/blend control")
        return p.cval()
    def h_new(it_, a, n): return putv(a[0], [it.get(a[k]).p for k in (1, 2, 3, 4)], POST["new"])
    def h_split(it_, a, n):
        v = getv(a[1])
        for k in range(4): it.put(Ptr(a[0].r, a[0].o + it.fesize * k), FE(v.l[k]))
        return None
    def h_shuffle(it_, a, n):
        v = getv(a[1]); pat = SHUFFLE[cnum(a[2])]
        if os.environ.get("VP_DEBUG_VEC"): print("shuffle", pat, [str(x)[:30] for x in v.l])
        return putv(a[0], [v.l["ABCD".index(c)] for c in pat], [v.b["ABCD".index(c)] for c in pat])
    def h_blend(it_, a, n):
        v = getv(a[1]); o = getv(a[2]); sel = LANES[cnum(a[3])]
        if os.environ.get("VP_DEBUG_VEC"): print("blend", sel, [str(x)[:24] for x in v.l], [str(x)[:24] for x in o.l])
        return putv(a[0], [(o if "ABCD"[k] in sel else v).l[k] for k in range(4)], [(o if "ABCD"[k] in sel else v).b[k] for k in range(4)])
    def h_lanewise(f, nargs, op):
        def h(it_, a, n):
            ops = [getv(a[1 + k]) for k in range(nargs)]
            if op in PRE: need(op, *ops)
            if op in POST: b = POST[op]
            else:       # add, lane by lane: coefficient < 2^(26+b1) + 2^(26+b2)
                b = []
                for k in range(4):
                    t = sum((2.0 ** o.b[k]) for o in ops if o.b[k] != -math.inf)
                    b.append(math.log2(t) if t > 0 else -math.inf)
            return putv(a[0], [f(*[o.l[k] for o in ops]) for k in range(4)], b)
        return h
    def h_sqnd(it_, a, n):
        v = getv(a[1]); need("square_and_negate_D", v)
        return putv(a[0], [v.l[0] * v.l[0], v.l[1] * v.l[1], v.l[2] * v.l[2], -(v.l[3] * v.l[3])], POST["square_and_negate_D"])
    def h_diff_sum(it_, a, n):
        v = getv(a[1]); need("diff_sum", v); A, B, Cc, Dd = v.l; return putv(a[0], [B - A, B + A, Dd - Cc, Dd + Cc], POST["diff_sum"])
    def h_mul_small(it_, a, n):
        v = getv(a[1])
        if isinstance(a[2], Ptr): ks = [cnum(it.load(Ptr(a[2].r, a[2].o + 4 * k), 4)) for k in range(4)]       # the (u32, u32, u32, u32) tuple by reference
        else: ks = [cnum(a[2 + k]) for k in range(4)]
        if not (v.bmax() < 4.0 and max(ks) < (1 << 18)): it.headroom_fail.append("mul by small constants: b = %s, constants %s" % (v.b, ks))
        return putv(a[0], [v.l[k].scale(ks[k]) for k in range(4)], POST["mul_small"])
    def h_csel(it_, a, n):
        raise Unsupported("conditional_select on vectors is not needed by the point formulas")
    I.insert(0, (VF + r'::new' + T_, h_new)); I.insert(0, (VF + r'::split' + T_, h_split))
    I.insert(0, (VF + r'::shuffle' + T_, h_shuffle)); I.insert(0, (VF + r'::blend' + T_, h_blend))
    I.insert(0, (VF + r'::negate_lazy' + T_, h_lanewise(lambda x: -x, 1, "negate_lazy"))); I.insert(0, (VF + r'::reduce' + T_, h_lanewise(lambda x: x, 1, "reduce")))
    I.insert(0, (VF + r'::diff_sum' + T_, h_diff_sum)); I.insert(0, (VF + r'::square_and_negate_D' + T_, h_sqnd))
    I.insert(0, (r'<' + VF + r' as core::ops::arith::Neg>::neg' + T_, h_lanewise(lambda x: -x, 1, "neg")))
    I.insert(0, (r'<' + VF + r' as core::ops::arith::Add>::add' + T_, h_lanewise(lambda x, y: x + y, 2, "add")))
    I.insert(0, (r'<&' + VF + r' as core::ops::arith::Mul<&' + VF + r'>>::mul' + T_, h_lanewise(lambda x, y: x * y, 2, "mul")))
    I.insert(0, (r'<&' + VF + r' as core::ops::arith::Mul>::mul' + T_, h_lanewise(lambda x, y: x * y, 2, "mul")))
    I.insert(0, (r'<' + VF + r' as core::ops::arith::Mul<\(u32, ?u32, ?u32, ?u32\)>>::mul' + T_, h_mul_small))

def vf_paths(rep, name, modpath, fn, body, backend="avx2"):
    def body2(it):
        (install if backend == "avx2" else install_ifma)(it); vcs = body(it)
        return list(vcs) + [("every vector kernel is called within its documented coefficient pre-condition (headroom along the formula)%s" % ((": " + "; ".join(it.headroom_fail[:3])) if it.headroom_fail else ""), not it.headroom_fail)]
    cfg = "simd" if backend == "avx2" else "avx512"
    return run_paths(rep, cfg + "/" + name.replace("avx2", backend), cfg, modpath, fn, body2)

def harnesses(rep, modpath, backend="avx2"):
    T = []
    pre = "vp_vec_" if backend == "avx2" else "vp_ivec_"
    def H(name, fn, body): T.append(lambda: vf_paths(rep, name, modpath, fn.replace("vp_vec_", pre), body, backend))
    D = C(fconst.D)
    def binop(fn, sign):
        def body(it):
            p1, (x1, y1, z1) = affine_point(it, "p"); p2, (x2, y2, z2) = affine_point(it, "q")
            out = it.new_region("out", 4 * it.fesize)
            it.call(fn.replace("vp_vec_", pre), [out, p1, p2])
            X, Y, Z, Tt = get_fes(it, out, 4)
            n1, d1, n2, d2 = law(x1, y1, x2.scale(sign), y2)
            return [("X3*(1+d x1x2y1y2) == Z3*(x1y2+y1x2)", X * d1 - Z * n1), ("Y3*(1-d x1x2y1y2) == Z3*(y1y2+x1x2)", Y * d2 - Z * n2), ("X3*Y3 == Z3*T3", X * Y - Z * Tt)]
        return body
    H("avx2: EdwardsPoint -> ExtendedPoint + CachedPoint -> EdwardsPoint is the addition law", "vp_vec_add", binop("vp_vec_add", 1))
    H("avx2: ... - CachedPoint is the subtraction", "vp_vec_sub", binop("vp_vec_sub", -1))
    def b_double(it):
        p1, (x1, y1, z1) = affine_point(it, "p"); out = it.new_region("out", 4 * it.fesize)
        it.rel.append(curve_eq(x1, y1))       # the doubling formula uses the curve equation (as the serial one does: C03)
        it.call(pre + "double", [out, p1])
        X, Y, Z, Tt = get_fes(it, out, 4)
        n1, d1, n2, d2 = law(x1, y1, x1, y1)
        return [("X3*(1+d x^2y^2) == Z3*(2xy)", X * d1 - Z * n1), ("Y3*(1-d x^2y^2) == Z3*(y^2+x^2)", Y * d2 - Z * n2), ("X3*Y3 == Z3*T3", X * Y - Z * Tt)]
    H("avx2: ExtendedPoint::double is the doubling", "vp_vec_double", b_double)
    def b_roundtrip(it):
        vs = [V("c%d" % i) for i in range(4)]; p = put_point(it, "p", vs); out = it.new_region("out", 4 * it.fesize)
        it.call(pre + "roundtrip", [out, p])
        o = get_fes(it, out, 4)
        return [("coordinate %d preserved by EdwardsPoint -> ExtendedPoint -> EdwardsPoint" % i, a - b) for i, (a, b) in enumerate(zip(o, vs))]
    H("avx2: conversion round trip", "vp_vec_roundtrip", b_roundtrip)
    def b_ident(it):
        out = it.new_region("out", 4 * it.fesize)
        it.call(pre + "identity", [out]); X, Y, Z, Tt = get_fes(it, out, 4)
        return [("X == 0", X), ("Y == Z", Y - Z), ("T == 0", Tt)]
    H("avx2: ExtendedPoint::identity is the neutral element", "vp_vec_identity", b_ident)
    def b_cached_ident(it):
        p1, (x1, y1, z1) = affine_point(it, "p"); out = it.new_region("out", 4 * it.fesize)
        it.call(pre + "add_cached_identity", [out, p1]); X, Y, Z, Tt = get_fes(it, out, 4)
        return [("P + CachedPoint::identity() == P  (x)", X * z1 - Z * x1 * z1), ("(y)", Y * z1 - Z * y1 * z1), ("X*Y == Z*T", X * Y - Z * Tt)]
    H("avx2: CachedPoint::identity is neutral for addition", "vp_vec_add_cached_identity", b_cached_ident)
    if backend != "avx2": return T
    # headroom along chains: every ExtendedPoint an operation returns has b < 0.007 (it is a product), every CachedPoint b < 0.007
    # (D lane b < 1.0 after one negation); starting from exactly these bounds each operation must again meet every kernel pre-condition and
    # return the same bounds (an inductive step over arbitrary chains of additions, doublings, table constructions)
    def chain(name, fn, in_bounds, out_max):
        def body(it):
            args = []
            for k, bs in enumerate(in_bounds):
                p = it.new_region("v%d" % k, 160)
                it.putv(p, V4([V("v%d%s" % (k, l)) for l in "ABCD"], bs)); args.append(p)
            out = it.new_region("out", 160)
            it.call(fn, [out] + args)
            r = it.getv(out)
            return [("result bounds %s within %s" % (["%.4f" % x for x in r.b], out_max), all(x <= y for x, y in zip(r.b, out_max)))]
        H("avx2 headroom step: " + name, fn, body)
    E = [0.007] * 4; Cq = [0.007] * 4; Cn = [0.007, 0.007, 0.007, 1.0]
    chain("ExtendedPoint + CachedPoint", "vp_vec_raw_add", [E, Cq], E)
    chain("ExtendedPoint + (-CachedPoint)", "vp_vec_raw_add", [E, Cn], E)
    chain("ExtendedPoint - CachedPoint", "vp_vec_raw_sub", [E, Cq], E)
    chain("ExtendedPoint::double", "vp_vec_raw_double", [E], E)
    chain("CachedPoint::from(ExtendedPoint)", "vp_vec_raw_cache", [E], Cq)
    chain("-&CachedPoint (once)", "vp_vec_raw_neg_cached", [Cq], Cn)
    return T

def run(tier, seed):
    rep = Report("C03")
    tasks = harnesses(rep, build.ir("simd", "O0"))
    run_tasks(tasks, rep)
    return rep
