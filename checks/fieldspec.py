"""Per-backend description of the field element representation and the documented limb headroom
(the 'admissible unreduced representations' C01/C11 quantify over)."""
from vp.lharness import FE51, FE2625

def alt(even, odd, n=10): return [even if i % 2 == 0 else odd for i in range(n)]

# 16p in the serial limb encodings (the constants added by sub/negate)
P16_64 = [36028797018963664] + [36028797018963952] * 4
P16_32 = [0x3ffffed << 4] + [(0x1ffffff << 4) if i % 2 else (0x3ffffff << 4) for i in range(1, 10)]

FIELD = {
    # u64: "coefficients are allowed to grow up to 2^54 between reductions" (u64/field.rs:30)
    "serial64": dict(layout=FE51, cell_max=2**64 - 1,
                     mul_in=[2**54 - 1] * 5, add_in=[2**63 - 1] * 5,
                     sub_lhs=[2**64 - 1 - x for x in P16_64], sub_rhs=P16_64[:],
                     enc_in=[2**64 - 1] * 5,
                     reduced=[2**52 - 1] * 5, decoded=[2**51 - 1] * 5),
    # u32: limbs < 2^(26+b) / 2^(25+b), b = 1.75 (u32/field.rs:38-44); mul allows b<2.5 on the x side
    "serial32": dict(layout=FE2625, cell_max=2**32 - 1,
                     mul_in=alt(int(2**27.75), int(2**26.75)), add_in=alt(2**31 - 1, 2**31 - 1),
                     mul_in_x=alt(int(2**28.5), int(2**27.5)),
                     sub_lhs=[2**32 - 1 - x for x in P16_32], sub_rhs=P16_32[:],
                     enc_in=[2**32 - 1] * 10,
                     reduced=alt(int(2**26.007), int(2**25.007)), decoded=alt(2**26 - 1, 2**25 - 1)),
    # fiat: every operation of the dalek wrapper takes and returns "tight" elements (fiat-crypto bounds)
    "fiat64": dict(layout=FE51, cell_max=2**64 - 1,
                   mul_in=[0x8000000000000] * 5, add_in=[0x8000000000000] * 5,
                   sub_lhs=[0x8000000000000] * 5, sub_rhs=[0x8000000000000] * 5,
                   enc_in=[0x8000000000000] * 5,
                   reduced=[0x8000000000000] * 5, decoded=[0x8000000000000] * 5),
    "fiat32": dict(layout=FE2625, cell_max=2**32 - 1,
                   mul_in=alt(0x4000000, 0x2000000), add_in=alt(0x4000000, 0x2000000),
                   sub_lhs=alt(0x4000000, 0x2000000), sub_rhs=alt(0x4000000, 0x2000000),
                   enc_in=alt(0x4000000, 0x2000000),
                   reduced=alt(0x4000000, 0x2000000), decoded=alt(0x4000000, 0x2000000)),
}
# the serial field code of the simd / avx512 builds is the serial u64 code
FIELD["simd"] = FIELD["serial64"]
FIELD["avx512"] = FIELD["serial64"]
