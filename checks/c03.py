"""C03 - Edwards points stay on the curve and obey the twisted-Edwards group law (layer F, O0 IR, llsym).

Every formula is executed from the unoptimised IR with field operations intercepted as ring operations over
GF(p) (kernels themselves: C01) and compared with the affine addition law / RFC 8032 encoding, for symbolic
points parametrised as X = x z, Y = y z, Z = z, T = x y z (no assumption that the point is reduced or that
z = 1)."""
from vp import build
from vp.fharness import *
from vp.lharness import run_tasks

D = C(fconst.D)

def law(x1, y1, x2, y2):
    t = D * x1 * x2 * y1 * y2
    return (x1 * y2 + y1 * x2, ONE + t, y1 * y2 + x1 * x2, ONE - t)     # x3 = n1/d1 , y3 = n2/d2

def niels_p(x, y, z): return [(y + x) * z, (y - x) * z, z, (D * x * y * z).scale(2)]
def niels_a(x, y): return [y + x, y - x, (D * x * y).scale(2)]

def harnesses(rep, cfg, modpath):
    T = []
    def H(name, fn, body, **kw): T.append(lambda: run_paths(rep, "%s/%s" % (cfg, name), cfg, modpath, fn, body, **kw))

    def ext_binop(fn, sign):
        def body(it):
            p1, (x1, y1, z1) = affine_point(it, "p"); p2, (x2, y2, z2) = affine_point(it, "q")
            out = it.new_region("out", 4 * it.fesize)
            it.call(fn, [out, p1, p2])
            X, Y, Z, Tt = get_fes(it, out, 4)
            n1, d1, n2, d2 = law(x1, y1, x2.scale(sign), y2)
            return [("X3*(1+d x1x2y1y2) == Z3*(x1y2+y1x2)", X * d1 - Z * n1), ("Y3*(1-d x1x2y1y2) == Z3*(y1y2+x1x2)", Y * d2 - Z * n2),
                    ("X3*Y3 == Z3*T3", X * Y - Z * Tt)]
        return body
    H("ed_add", "vp_ed_add", ext_binop("vp_ed_add", 1))
    H("ed_sub", "vp_ed_sub", ext_binop("vp_ed_sub", -1))

    def niels_binop(fn, sign, affine):
        def body(it):
            p1, (x1, y1, z1) = affine_point(it, "p")
            x2, y2, z2 = V("qx"), V("qy"), V("qz")
            p2 = put_point(it, "q", niels_a(x2, y2) if affine else niels_p(x2, y2, z2))
            out = it.new_region("out", 4 * it.fesize)
            it.call(fn, [out, p1, p2])
            X, Y, Z, Tt = get_fes(it, out, 4)        # completed point: x = X/Z, y = Y/T
            n1, d1, n2, d2 = law(x1, y1, x2.scale(sign), y2)
            return [("X*(1+dt) == Z*(x1y2+y1x2)", X * d1 - Z * n1), ("Y*(1-dt) == T*(y1y2+x1x2)", Y * d2 - Tt * n2)]
        return body
    H("ed_add_pn", "vp_ed_add_pn", niels_binop("vp_ed_add_pn", 1, False))
    H("ed_sub_pn", "vp_ed_sub_pn", niels_binop("vp_ed_sub_pn", -1, False))
    H("ed_add_an", "vp_ed_add_an", niels_binop("vp_ed_add_an", 1, True))
    H("ed_sub_an", "vp_ed_sub_an", niels_binop("vp_ed_sub_an", -1, True))

    def conv(fn, nin, nout, spec, inputs=None):
        def body(it):
            vs = [V("c%d" % i) for i in range(nin)] if inputs is None else inputs(it)
            p = put_point(it, "p", vs)
            out = it.new_region("out", nout * it.fesize)
            it.call(fn, [out, p])
            o = get_fes(it, out, nout)
            return [("coordinate %d" % i, a - b) for i, (a, b) in enumerate(zip(o, spec(*vs)))]
        return body
    H("cp_as_extended", "vp_cp_as_extended", conv("vp_cp_as_extended", 4, 4, lambda X, Y, Z, T: [X * T, Y * Z, Z * T, X * Y]))
    H("cp_as_projective", "vp_cp_as_projective", conv("vp_cp_as_projective", 4, 3, lambda X, Y, Z, T: [X * T, Y * Z, Z * T]))
    H("pp_as_extended", "vp_pp_as_extended", conv("vp_pp_as_extended", 3, 4, lambda X, Y, Z: [X * Z, Y * Z, Z * Z, X * Y]))
    H("ed_as_projective", "vp_ed_as_projective", conv("vp_ed_as_projective", 4, 3, lambda X, Y, Z, T: [X, Y, Z]))
    H("ed_neg", "vp_ed_neg", conv("vp_ed_neg", 4, 4, lambda X, Y, Z, T: [-X, Y, Z, -T]))
    H("pn_neg", "vp_pn_neg", conv("vp_pn_neg", 4, 4, lambda A, B, Z, T: [B, A, Z, -T]))
    H("an_neg", "vp_an_neg", conv("vp_an_neg", 3, 3, lambda A, B, T: [B, A, -T]))

    def b_as_pn(it):
        p, (x, y, z) = affine_point(it, "p"); out = it.new_region("out", 4 * it.fesize)
        it.call("vp_ed_as_projective_niels", [out, p])
        return [("field %d" % i, a - b) for i, (a, b) in enumerate(zip(get_fes(it, out, 4), niels_p(x, y, z)))]
    H("ed_as_projective_niels", "vp_ed_as_projective_niels", b_as_pn)
    def b_as_an(it):
        p, (x, y, z) = affine_point(it, "p"); out = it.new_region("out", 3 * it.fesize)
        it.call("vp_ed_as_affine_niels", [out, p])
        if any(f[0] == "eqz" and f[2] == 1 for f in it.facts): return []      # Z = 0: not a valid point
        return [("field %d" % i, a - b) for i, (a, b) in enumerate(zip(get_fes(it, out, 3), niels_a(x, y)))]
    H("ed_as_affine_niels", "vp_ed_as_affine_niels", b_as_an)

    def b_double_pp(it):
        x, y, z = V("px"), V("py"), V("pz")
        p = put_point(it, "p", [x * z, y * z, z]); out = it.new_region("out", 4 * it.fesize)
        it.rel.append(curve_eq(x, y))
        it.call("vp_pp_double", [out, p])
        X, Y, Z, Tt = get_fes(it, out, 4)
        n1, d1, n2, d2 = law(x, y, x, y)
        return [("X*(1+d x^2y^2) == Z*2xy (mod curve eq)", X * d1 - Z * n1), ("Y*(1-d x^2y^2) == T*(y^2+x^2) (mod curve eq)", Y * d2 - Tt * n2)]
    H("pp_double", "vp_pp_double", b_double_pp)
    def b_double_ed(it):
        p, (x, y, z) = affine_point(it, "p"); out = it.new_region("out", 4 * it.fesize)
        it.rel.append(curve_eq(x, y))
        it.call("vp_ed_double", [out, p])
        X, Y, Z, Tt = get_fes(it, out, 4)
        n1, d1, n2, d2 = law(x, y, x, y)
        return [("X3*(1+d x^2y^2) == Z3*2xy", X * d1 - Z * n1), ("Y3*(1-d x^2y^2) == Z3*(y^2+x^2)", Y * d2 - Z * n2), ("X3*Y3 == Z3*T3", X * Y - Z * Tt)]
    H("ed_double", "vp_ed_double", b_double_ed)

    def b_identity(it):
        out = it.new_region("out", 4 * it.fesize); it.call("vp_ed_identity", [out])
        return [("coordinate %d" % i, a - b) for i, (a, b) in enumerate(zip(get_fes(it, out, 4), [ZERO, ONE, ONE, ZERO]))]
    H("ed_identity", "vp_ed_identity", b_identity)

    def eq_polys(it): return [f[1] for f in it.facts if f[0] == "eqz"], [f[2] for f in it.facts if f[0] == "eqz"]
    def same_set(ps, exp):
        def k(p): return min(fnorm(p).key(), fnorm(-p).key())
        return sorted(k(p) for p in ps) == sorted(k(p) for p in exp)
    def b_ct_eq(it):
        p1 = put_point(it, "p", [V("X1"), V("Y1"), V("Z1"), V("T1")]); p2 = put_point(it, "q", [V("X2"), V("Y2"), V("Z2"), V("T2")])
        r = it.P(it.call("vp_ed_ct_eq", [p1, p2])).cval()
        ps, vs = eq_polys(it)
        exp = [V("X1") * V("Z2") - V("X2") * V("Z1"), V("Y1") * V("Z2") - V("Y2") * V("Z1")]
        # a path may short-circuit nothing: both predicates are always evaluated (constant time)
        return [("predicates are exactly X1Z2==X2Z1 and Y1Z2==Y2Z1", same_set(ps, exp)), ("result is their conjunction", r == (1 if all(vs) else 0))]
    H("ed_ct_eq", "vp_ed_ct_eq", b_ct_eq)
    def b_is_identity(it):
        p = put_point(it, "p", [V("X"), V("Y"), V("Z"), V("T")])
        r = it.P(it.call("vp_ed_is_identity", [p])).cval() & 1
        ps, vs = eq_polys(it)
        return [("predicates are exactly X==0 and Y==Z", same_set(ps, [V("X"), V("Y") - V("Z")])), ("result is their conjunction", r == (1 if all(vs) else 0))]
    H("ed_is_identity", "vp_ed_is_identity", b_is_identity)
    def b_select(it):
        a = [V("a%d" % i) for i in range(4)]; b = [V("b%d" % i) for i in range(4)]
        p1 = put_point(it, "p", a); p2 = put_point(it, "q", b); out = it.new_region("out", 4 * it.fesize)
        c = it.ctx.input("choice", 0, 1)
        it.call("vp_ed_select", [out, p1, p2, c])
        v = [f[2] for f in it.facts if f[0] == "bool"]
        exp = b if (v and v[0]) else a
        return [("selected coordinate %d" % i, x - y) for i, (x, y) in enumerate(zip(get_fes(it, out, 4), exp))]
    H("ed_select", "vp_ed_select", b_select)

    def b_compress(it):
        p, (x, y, z) = affine_point(it, "p"); out = it.new_region("out", 32)
        it.call("vp_ed_compress", [out, p])
        if any(f[0] == "eqz" and f[2] == 1 for f in it.facts): return []      # Z = 0: not a valid point
        vcs = []
        cy = [c for c in it.canon if is_zero_mod(c[0] - y, it.rel)]
        vcs.append(("the encoded field element is the affine y = Y/Z", len(cy) == 1))
        if not cy: return vcs
        bs = cy[0][1]
        ob = [it.ctx.resolve(it.P(it.load(Ptr(out.r, out.o + k), 1))) for k in range(32)]
        for k in range(31): vcs.append(("byte %d is the canonical byte of y" % k, (ob[k] - bs[k]).is_zero()))
        ng = [f for f in it.facts if f[0] == "neg" and is_zero_mod(f[1] - x, it.rel)]
        vcs.append(("sign is taken from the affine x = X/Z", len(ng) == 1))
        if ng: vcs.append(("byte 31 = canonical byte | sign(x) << 7", (ob[31] - bs[31] - C(128 * ng[0][2])).is_zero()))
        return vcs
    H("ed_compress", "vp_ed_compress", b_compress)

    def b_zeroize(it):
        p = put_point(it, "p", [V("X"), V("Y"), V("Z"), V("T")])
        if "vp_ed_zeroize" not in it.mod.funcs: return [("zeroize wrapper present (feature zeroize)", False)]
        it.call("vp_ed_zeroize", [p])
        return [("zeroize() leaves the identity: coordinate %d" % i, a - b) for i, (a, b) in enumerate(zip(get_fes(it, p, 4), [ZERO, ONE, ONE, ZERO]))]
    H("ed_zeroize resets to the identity", "vp_ed_zeroize", b_zeroize)

    def b_decompress(it):
        s = ByteString(it, "s"); inp = it.new_region("in", 32); s.store(it, inp)
        out = it.new_region("out", 4 * it.fesize)
        ok = it.P(it.call("vp_ed_decompress", [inp, out])).cval() & 1
        y = s.low
        u, v = y * y - ONE, D * y * y + ONE
        sq = [f for f in it.facts if f[0] == "sqrt"]
        uz = [f for f in it.facts if f[0] == "eqz" and fnorm(f[1] - u).is_zero()]
        vcs = []
        if uz and uz[0][2] == 1:      # u = 0: x = 0 is the root, accepted
            exp_ok, r = 1, ZERO
        else:
            vz = [f for f in it.facts if f[0] == "eqz" and fnorm(f[1] - v).is_zero()]
            if vz and vz[0][2] == 1: exp_ok, r = 0, ZERO
            else:
                vcs.append(("square root of ratio is taken of (y^2-1, d y^2+1)", len(sq) == 1 and fnorm(sq[0][1] - u).is_zero() and fnorm(sq[0][2] - v).is_zero()))
                if not sq: return vcs
                exp_ok, r = sq[0][3], sq[0][4]
        vcs.append(("accept exactly when x^2 = (y^2-1)/(d y^2+1) has a root", ok == exp_ok))
        if ok:
            X, Y, Z, Tt = get_fes(it, out, 4)
            top = [f[2] for f in it.facts if f[0] == "bool"]
            sign = top[0] if top else 0
            vcs += [("Y == y", Y - y), ("Z == 1", Z - ONE), ("T == X*Y", Tt - X * Y), ("X == (sign ? -r : r), r the non-negative root", X - (r.scale(-1) if sign else r)),
                    ("sign bit was consulted", len(top) == 1 or r.is_zero()),
                    ("result satisfies the curve equation", -(X * X) + Y * Y - Z * Z - D * Tt * Tt)]
        return vcs
    H("ed_decompress", "vp_ed_decompress", b_decompress)
    return T

def small_order_harness(rep, cfg, mp, which="small"):
    """is_small_order: the only test performed is whether [8]P is the identity, and its outcome is returned unchanged (layer G; both
    outcomes executed).  If the code inspects coordinates instead, the 16 points B + T, T (T in E[8]) are run natively against [8]P == O."""
    import time as _t
    from llsym import gsym, ir as _ir
    from llsym.lsym import PanicReached
    from vp.lharness import module
    from llsym import fconst as _fc
    t0 = _t.time(); fn = "vp_ed_is_small_order" if which == "small" else "vp_ed_is_torsion_free"
    mult = 8 if which == "small" else _fc.L; mname = "8" if which == "small" else "l"
    meth = "is_small_order" if which == "small" else "is_torsion_free"
    rec = dict(harness="%s/EdwardsPoint::%s tests [%s]P == O" % (cfg, meth, mname), config=cfg, function="EdwardsPoint::" + meth, goals=[], bounds="symbolic point (any point, torsion included)")
    status = "ok"
    try:
        for outcome in (1, 0):
            it = gsym.GSym(module(mp)); tested = []
            def eqh(it_, a, n, tested=tested, outcome=outcome):
                tested.append(it_.get(a[0]) - (it_.get(a[1]) if len(a) > 1 and isinstance(a[1], Ptr) else gsym.G())); return Poly.const(outcome)
            it.intercept.insert(0, (r'^<curve25519_dalek::edwards::EdwardsPoint as subtle::ConstantTimeEq>::ct_eq$', eqh))
            it.intercept.insert(0, (r'^<T as curve25519_dalek::traits::IsIdentity>::is_identity$', eqh))
            P = it.point("P")
            r = it.P(it.call(fn, [P]))
            okv = r.is_const() and (r.cval() & 1) == outcome
            okt = len(tested) == 1 and tested[0].eq(gsym.G.base("P").scale(mult))
            rec["goals"].append(dict(goal="outcome %d of the identity test is returned unchanged" % outcome, verdict="unsat" if okv else "sat", solver_s=0.0, cases=1, solver_calls=0, kind="structural"))
            rec["goals"].append(dict(goal="exactly one test, on [%s]P against the identity (outcome %d)" % (mname, outcome), verdict="unsat" if okt else "sat", solver_s=0.0, cases=1, solver_calls=0, kind="polynomial identity mod p"))
            if not (okv and okt): status = "violation"; rec["why"] = "%s is not 'is [%s]P the identity': tested %s, returned %r" % (meth, mname, [str(t)[:80] for t in tested], r)
    except _ir.Unsupported as e:
        status = "inconclusive"; rec["why"] = "unsupported IR: " + str(e)[:300]
    except PanicReached as e:
        status = "violation"; rec["why"] = "panic reached: " + str(e)[:200]
    if status != "ok":
        ok, det = small_order_replay(cfg, which); rec["replay"] = det
        if ok: status = "violation"; rec["reproduced"] = True; rec["why"] = "%s disagrees with '[%s]P == O' natively: " % (meth, mname) + str(det)[:300]
        elif status == "violation": status = "inconclusive"; rec["why"] = "not reproduced natively: " + rec["why"][:200]
    rec["status"] = status; rec["wall_s"] = round(_t.time() - t0, 3)
    rep.add(**rec); rep.functions.add(rec["function"]); rep.configs.add(cfg)

def small_order_replay(cfg, which="small"):
    from vp import native
    from checks.c04 import compress_py
    from llsym import fconst
    P_ = fconst.P; Lq = fconst.L; Bpt = (fconst.BX, fconst.BY); T8 = None; y = 3
    while T8 is None:
        y += 1
        u = (y * y - 1) % P_; v = (fconst.D * y * y + 1) % P_
        x2 = u * pow(v, P_ - 2, P_) % P_
        x = pow(x2, (P_ + 3) // 8, P_)
        if (x * x - x2) % P_ != 0: x = x * pow(2, (P_ - 1) // 4, P_) % P_
        if (x * x - x2) % P_ != 0: continue
        Q = fconst.ed_mul(Lq, (x, y))
        if fconst.ed_mul(4, Q) != (0, 1): T8 = Q
    pts = []
    for k in range(8):
        T = fconst.ed_mul(k, T8) if k else (0, 1)
        pts.append(("B+%dT" % k, fconst.ed_add(Bpt, T))); pts.append(("%dT" % k, T))
    entry = "ed_is_small_order_c" if which == "small" else "ed_is_torsion_free"
    try: outs = native.run(cfg, [(entry, [compress_py(p)]) for _, p in pts])
    except Exception as e: return False, "native runner failed: " + str(e)[:200]
    for (lab, p), got in zip(pts, outs):
        want = 1 if fconst.ed_mul(8 if which == "small" else Lq, p) == (0, 1) else 0
        if isinstance(got, tuple): return True, dict(point=lab, native_result=str(got)[:120])
        if got is None: return False, "native runner does not know " + entry
        if got[0] != want: return True, dict(point=lab, compressed=compress_py(p).hex(), native_result=got[0], specification=want)
    return False, "native results agree with [%s]P == O on all 16 torsion-shifted points" % ("8" if which == "small" else "l")

def run(tier, seed):
    rep = Report("C03")
    rep.level = "translation_validation"
    cfgs = ["serial64", "serial32"] if tier == "quick" else ["serial64", "serial32", "fiat64", "fiat32"]
    build.ir_many([dict(config=c, flavour="O0") for c in cfgs])
    tasks = []
    for cfg in cfgs: tasks += harnesses(rep, cfg, build.ir(cfg, "O0"))
    for cfg in cfgs[:1]:
        tasks.append(lambda cfg=cfg: small_order_harness(rep, cfg, build.ir(cfg, "O0")))
        tasks.append(lambda cfg=cfg: small_order_harness(rep, cfg, build.ir(cfg, "O0"), "torsion"))
    # the AVX2 copies of the point formulas (simd build): checks/c03v.py
    from checks import c03v
    tasks += c03v.harnesses(rep, build.ir("simd", "O0"))
    try: tasks += c03v.harnesses(rep, build.ir("avx512", "O0"), backend="ifma")
    except build.BuildError as e: rep.add(harness="avx512/build", config="avx512", function="build", status="inconclusive", why=str(e)[-400:], goals=[], wall_s=0)
    run_tasks(tasks, rep)
    return rep
