"""C05 - backend, word size, table feature and run-time dispatch are unobservable.

Decided compositionally (DESIGN 6 C05), every part by the solver-based engines on the code of EACH configuration:
 (1) value level: the field kernels and the canonical encoder/decoder of serial u64, serial u32, fiat u64, fiat u32 and the
     scalar kernels of the 64- and 32-bit scalar backends all satisfy the SAME specification (integers mod p / mod l, canonical
     little-endian bytes) - two implementations that equal one function of the input bytes return identical bytes;
 (2) run-time dispatch: in the simd build every dispatching entry point is executed twice at group level, once with the CPU
     feature storage forcing the AVX2 implementation and once forcing the serial one; the two results must be the identical
     integer-linear form over the same digit variables (constant-time algorithms), resp. equal the same specification on every
     path (variable-time algorithms);
 (3) precomputed-tables on / off: fixed-base multiplication and the double-base multiplication are executed from the IR of
     both feature settings; all equal s*B (+ a*A);
 (4) constants of all six configurations equal their definitions (the C12 obligations, re-run here)."""
import time
from vp import build, native
from vp.lharness import module, Report, run_tasks
from llsym import ir, gsym, smt
from llsym.gsym import GSym, G
from llsym.poly import Poly, ZERO
from llsym.lsym import Ptr, Cond, PanicReached
from checks import c01, c02, c04, c12

def dispatch_pair(rep, modpath, name, call, tier, cfg="simd", vec="avx2"):
    """same entry point, vector vs serial implementation selected at run time: identical linear forms"""
    t0 = time.time()
    rec = dict(harness="%s/dispatch-independence: %s" % (cfg, name), config=cfg, function=name, goals=[], bounds="all digit vectors of the recoding (all scalars); symbolic points")
    try:
        res = {}
        for which in (vec, "serial"):
            it = GSym(module(modpath)); c04.force_backend(it, which)
            res[which] = call(it)
            vecf = [c for c in it.calls if "vector" in c and "scalar_mul" in c]
            ok = bool(vecf) if which != "serial" else not vecf
            rec["goals"].append(dict(goal="forcing %s executes %s" % (which, "the vector implementation" if which != "serial" else "no vector code"), verdict="unsat" if ok else "sat", solver_s=0.0, cases=1, solver_calls=0, kind="structural"))
            if not ok: rec["status"] = "inconclusive"; rec["why"] = "dispatch could not be forced to " + which
        d = res[vec] - res["serial"]
        same = d.is_zero()
        rec["goals"].append(dict(goal="result(%s) - result(serial) is the zero linear form" % vec, verdict="unsat" if same else "sat", solver_s=0.0, cases=1, solver_calls=0, kind="polynomial identity over the digit variables"))
        if not same:
            rec["status"] = "violation"; rec["why"] = "the two implementations compute different functions of the digits: difference " + str(d)[:300]
        rec.setdefault("status", "ok")
    except (gsym.TableLemmaFailed, gsym.DigitOutOfRange) as e:
        rec["status"] = "violation"; rec["why"] = "%s: %s" % (type(e).__name__, e)
    except ir.Unsupported as e:
        rec["status"] = "inconclusive"; rec["why"] = "unsupported IR: " + str(e)[:300]
    except PanicReached as e:
        rec["status"] = "violation"; rec["why"] = "panic reached: " + str(e)
    rec["wall_s"] = round(time.time() - t0, 3)
    rep.add(**rec); rep.functions.add(name); rep.configs.add(cfg)

def run(tier, seed):
    rep = Report("C05")
    cfgs = ["serial64", "serial32", "fiat64", "fiat32"]
    build.ir_many([dict(config=c, flavour="O3") for c in cfgs])
    for c in cfgs: native.binary(c)
    tasks = []
    # (1) value level, every configuration against the same specification
    for cfg in cfgs: c01.run_config(rep, cfg, tier, tasks)
    for cfg in ("serial64", "serial32"): c02.run_config(rep, cfg, tier, tasks)
    # (2) run-time dispatch
    sp = build.ir("simd", "O0")
    def c_mul(it):
        P = it.point("P"); s = it.scalar("s"); out = it.new_region("out", 4 * it.fs)
        it.call("vp_g_ed_mul", [out, P, s]); return it.get(out)
    def mk_ms(n):
        def c(it):
            out = it.new_region("out", 4 * it.fs); sc = it.new_region("scalars", 32 * n); pts = it.new_region("points", 4 * it.fs * n)
            for i in range(n):
                so = gsym.ScalarObj("s%d" % i)
                for k in range(32): it.regions[sc.r].b[32 * i + k] = (so, k, 32)
                it.put(Ptr(pts.r, 4 * it.fs * i), G.base("P%d" % i), 4 * it.fs)
            it.call("vp_g_multiscalar_mul", [out, sc, Poly.const(n), pts, Poly.const(n)]); return it.get(out)
        return c
    tasks.append(lambda: dispatch_pair(rep, sp, "EdwardsPoint * Scalar (variable_base)", c_mul, tier))
    for n in ((1, 2) if tier == "quick" else (1, 2, 3)):
        tasks.append(lambda n=n: dispatch_pair(rep, sp, "EdwardsPoint::multiscalar_mul n=%d (Straus)" % n, mk_ms(n), tier))
    tasks += c04.vartime_harnesses(rep, "simd", sp, tier, backend="avx2")
    tasks += c04.vartime_harnesses(rep, "simd", sp, tier, backend="serial")
    # the same for the IFMA implementation in the unstable_avx512 build (nightly toolchain)
    try:
        a5 = build.ir("avx512", "O0")
        tasks.append(lambda: dispatch_pair(rep, a5, "EdwardsPoint * Scalar (variable_base)", c_mul, tier, cfg="avx512", vec="avx512"))
        tasks.append(lambda: dispatch_pair(rep, a5, "EdwardsPoint::multiscalar_mul n=2 (Straus)", mk_ms(2), tier, cfg="avx512", vec="avx512"))
        tasks += c04.vartime_harnesses(rep, "avx512", a5, tier, backend="avx512")
    except build.BuildError as e: rep.add(harness="avx512/build", config="avx512", function="build", status="inconclusive", why=str(e)[-400:], goals=[], wall_s=0)
    # (3) precomputed-tables on / off (serial64 and the 32-bit build)
    for cfg in (("serial64",) if tier == "quick" else ("serial64", "serial32")):
        for feats, label in ((None, "precomputed-tables on"), (["alloc", "zeroize"], "precomputed-tables off")):
            mp = build.ir(cfg, "O0") if feats is None else build.ir(cfg, "O0", features=feats, no_default=True)
            def b_base(it):
                s = it.scalar("s"); out = it.new_region("out", 4 * it.fs)
                it.call("vp_g_mul_base", [out, s])
                kind = "r2w4" if ("s", "r2w4") in it.digits else "r16"
                return it.get(out), G.base("B").scale(c04.spec_scalar(it, "s", kind)), []
            tasks.append(lambda cfg=cfg, mp=mp, label=label, b_base=b_base: c04.g_harness(rep, cfg, mp, "EdwardsPoint::mul_base [%s]" % label, "vp_g_mul_base", b_base, "all digit vectors (all scalars)"))
            for t in c04.vartime_harnesses(rep, cfg, mp, "quick", backend=None)[:1]:
                tasks.append(t)
    # (4) constants of every configuration
    ccfgs = ["serial64", "serial32", "simd", "avx512", "fiat64", "fiat32"]
    rs = build.ir_many([dict(config=c, flavour="O3") for c in ccfgs])
    for cfg, r in zip(ccfgs, rs):
        if isinstance(r, Exception):
            rep.add(harness="%s/constants" % cfg, config=cfg, function="constants", status="inconclusive", why="build failed: " + str(r)[-300:], goals=[], wall_s=0); continue
        tasks.append(lambda cfg=cfg, r=r: c12.check_config(rep, cfg, r, tier))
    run_tasks(tasks, rep)
    return rep
