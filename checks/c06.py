"""C06 - Ristretto is ristretto255 (RFC 9496): Decode, Encode, Equals and the element-derivation map are executed
from the O0 IR with field operations as ring operations and compared, per oracle path, with the RFC 9496 section 4.3
procedures evaluated over the same abstract values (SQRT_RATIO_M1 by its contract, established in C01)."""
from vp import build
from vp.fharness import *
from vp.lharness import run_tasks

D = C(fconst.D); I = C(fconst.SQRT_M1)
ONE_MINUS_D_SQ = C(fconst.ONE_MINUS_D_SQ); D_MINUS_ONE_SQ = C(fconst.D_MINUS_ONE_SQ)
SQRT_AD_MINUS_ONE = C(fconst.SQRT_AD_MINUS_ONE); INVSQRT_A_MINUS_D = C(fconst.INVSQRT_A_MINUS_D)

class Missing(Exception): pass

def neg_of(it, p):
    p = fnorm(p)
    if p.is_const(): return p.cval() & 1
    for f in it.facts:
        if f[0] == "neg" and fnorm(f[1] - p).is_zero(): return f[2]
    raise Missing("is_negative(%r) was never evaluated" % (p,))
def eqz_of(it, p):
    p = fnorm(p)
    if p.is_zero(): return 1
    if p.is_const(): return 0
    k = min(p.key(), fnorm(-p).key())
    for f in it.facts:
        if f[0] == "eqz" and f[3] == ("eqz", k): return f[2]
    from llsym.fsym import known_nonzero
    if known_nonzero(p, it.nonzero): return 0
    raise Missing("zero test of %r was never evaluated" % (p,))
def sqrt_of(it, u, v):
    """(was_square, r) of SQRT_RATIO_M1(u, v) as used on this path"""
    if eqz_of(it, u): return 1, ZERO
    if eqz_of(it, v): return 0, ZERO
    for f in it.facts:
        if f[0] == "sqrt" and fnorm(f[1] - u).is_zero() and fnorm(f[2] - v).is_zero(): return f[3], f[4]
    raise Missing("SQRT_RATIO_M1 was not applied to the expected (u, v)")
def ct_abs(it, x): return -x if neg_of(it, x) else x

def rfc_map(it, t):
    """RFC 9496 4.3.4 MAP"""
    r = I * t * t
    u = (r + ONE) * ONE_MINUS_D_SQ
    v = (-ONE - r * D) * (r + D)
    wsq, s = sqrt_of(it, u, v)
    s_prime = -ct_abs(it, s * t)
    s = s if wsq else s_prime
    c = -ONE if wsq else r
    N = c * (r - ONE) * D_MINUS_ONE_SQ - v
    w0 = (s * v).scale(2); w1 = N * SQRT_AD_MINUS_ONE; w2 = ONE - s * s; w3 = ONE + s * s
    return [w0 * w3, w2 * w1, w1 * w3, w0 * w2]

def mk_ris_decode(entry):
    def b_decode(it):
        s = ByteString(it, "s"); inp = it.new_region("in", 32); s.store(it, inp)
        out = it.new_region("out", 4 * it.fesize)
        ok = it.P(it.call(entry, [inp, out])).cval() & 1
        sv = s.low
        vcs = []
        try:
            # step 1: canonical (bytes of s reduced == all 32 input bytes) and non-negative
            bq = [f for f in it.facts if f[0] == "byteseq"]
            canon_ok = len(bq) == 1 and any(fnorm(c[0] - sv).is_zero() and all((x - y).is_zero() for x, y in zip(bq[0][1], c[1])) for c in it.canon) \
                and all((it.ctx.resolve(y) - it.ctx.resolve(b)).is_zero() for y, b in zip(bq[0][2], s.bytes))
            # the top-bit decision may have pinned the bit: compare against pinned bytes
            vcs.append(("canonicity test compares the canonical re-encoding of s with all 32 input bytes (bit 255 included)", canon_ok))
            if not canon_ok: return vcs
            is_canon = bq[0][4]
            expect = None
            if not is_canon or neg_of(it, sv): expect = 0
            else:
                ss = sv * sv; u1 = ONE - ss; u2 = ONE + ss; u2s = u2 * u2
                v = -(D * u1 * u1) - u2s
                wsq, inv = sqrt_of(it, ONE, v * u2s)
                den_x = inv * u2; den_y = inv * den_x * v
                x = ct_abs(it, (sv * den_x).scale(2)); y = u1 * den_y; t = x * y
                if (not wsq) or neg_of(it, t) or eqz_of(it, y): expect = 0
                else: expect = 1
            vcs.append(("accept <=> canonical, s >= 0, was_square, t >= 0, y != 0 (RFC 9496 4.3.1)", ok == expect))
            if ok and expect:
                X, Y, Z, Tt = get_fes(it, out, 4)
                vcs += [("x", X - x), ("y", Y - y), ("z == 1", Z - ONE), ("t", Tt - t)]
        except Missing as e:
            vcs.append(("procedure follows RFC 9496 Decode: " + str(e), False))
        return vcs
    return b_decode

def harnesses(rep, cfg, modpath):
    T = []
    def H(name, fn, body, **kw): T.append(lambda: run_paths(rep, "%s/%s" % (cfg, name), cfg, modpath, fn, body, **kw))

    H("ristretto_decode vs RFC 9496 4.3.1", "vp_ris_decompress", mk_ris_decode("vp_ris_decompress"))

    def b_encode(it):
        x0, y0, z0, t0 = V("x0"), V("y0"), V("z0"), V("t0")
        p = put_point(it, "p", [x0, y0, z0, t0]); out = it.new_region("out", 32)
        it.call("vp_ris_compress", [out, p])
        vcs = []
        try:
            u1 = (z0 + y0) * (z0 - y0); u2 = x0 * y0
            _, inv = sqrt_of(it, ONE, u1 * u2 * u2)
            den1 = inv * u1; den2 = inv * u2; z_inv = den1 * den2 * t0
            ix0 = x0 * I; iy0 = y0 * I; ench = den1 * INVSQRT_A_MINUS_D
            rot = neg_of(it, t0 * z_inv)
            x = iy0 if rot else x0; y = ix0 if rot else y0; den_inv = ench if rot else den2
            if neg_of(it, x * z_inv): y = -y
            sres = ct_abs(it, den_inv * (z0 - y))
            ob = [it.ctx.resolve(it.P(it.load(Ptr(out.r, out.o + k), 1))) for k in range(32)]
            sres = fnorm(sres)
            if sres.is_const():
                val = sres.cval() % P
                vcs.append(("output is the canonical encoding of the (constant) RFC 9496 4.3.2 value s", all(b.is_const() and b.cval() == ((val >> (8 * k)) & 255) for k, b in enumerate(ob))))
            else:
                cs = [c for c in it.canon if fnorm(c[0] - sres).is_zero()]
                vcs.append(("output is the canonical encoding of the RFC 9496 4.3.2 value s", len(cs) == 1))
                if cs: vcs.append(("all 32 output bytes are the canonical bytes", all((a - b).is_zero() for a, b in zip(ob, cs[0][1]))))
        except Missing as e:
            vcs.append(("procedure follows RFC 9496 Encode: " + str(e), False))
        return vcs
    H("ristretto_encode vs RFC 9496 4.3.2", "vp_ris_compress", b_encode)

    def b_equals(it):
        a = [V("x1"), V("y1"), V("z1"), V("t1")]; b = [V("x2"), V("y2"), V("z2"), V("t2")]
        p1 = put_point(it, "p", a); p2 = put_point(it, "q", b)
        r = it.P(it.call("vp_ris_ct_eq", [p1, p2])).cval() & 1
        try:
            e1 = eqz_of(it, a[0] * b[1] - a[1] * b[0]); e2 = eqz_of(it, a[1] * b[1] - a[0] * b[0])
            n = len([f for f in it.facts if f[0] == "eqz"])
            return [("x1*y2 == y1*x2 | y1*y2 == x1*x2 (RFC 9496 4.3.3)", r == (e1 | e2)), ("both comparisons evaluated, nothing else", n == 2)]
        except Missing as e:
            return [("procedure follows RFC 9496 Equals: " + str(e), False)]
    H("ristretto_equals vs RFC 9496 4.3.3", "vp_ris_ct_eq", b_equals)

    def b_map(it):
        t = V("t"); p = put_point(it, "t", [t]); out = it.new_region("out", 4 * it.fesize)
        it.call("vp_ris_elligator", [out, p])
        try:
            exp = rfc_map(it, t)
            return [("coordinate %d == RFC 9496 MAP" % i, a - b) for i, (a, b) in enumerate(zip(get_fes(it, out, 4), exp))]
        except Missing as e:
            return [("procedure follows RFC 9496 MAP: " + str(e), False)]
    H("ristretto_map vs RFC 9496 4.3.4 MAP", "vp_ris_elligator", b_map)

    def b_uniform(it):
        # element derivation: MAP(b[0..32]) + MAP(b[32..64]) with bit 255 of each half ignored; the addition
        # formula itself is C03's; here the result is compared coordinate-wise with the add law applied to the maps
        s1 = ByteString(it, "r1"); s2 = ByteString(it, "r2")
        inp = it.new_region("in", 64); s1.store(it, inp); s2.store(it, Ptr(inp.r, 32))
        # intercept the Edwards addition: record operands, return a fresh abstract sum
        seen = {}
        def ic_add(it2, a, n):
            seen["ops"] = (get_fes(it2, a[1], 4), get_fes(it2, a[2], 4))
            for i in range(4): it2.put(Ptr(a[0].r, a[0].o + i * it2.fesize), FE(V("sum%d" % i)))
        it.intercept.insert(0, (r'^<&curve25519_dalek::edwards::EdwardsPoint as core::ops::arith::Add>::add$', ic_add))
        out = it.new_region("out", 4 * it.fesize)
        it.call("vp_ris_from_uniform_bytes", [out, inp])
        try:
            vcs = [("exactly one Edwards addition", "ops" in seen)]
            if "ops" not in seen: return vcs
            m1 = rfc_map(it, s1.low); m2 = rfc_map(it, s2.low)
            for i in range(4):
                vcs.append(("first summand coordinate %d == MAP(bytes[0..32] mod 2^255)" % i, seen["ops"][0][i] - m1[i]))
                vcs.append(("second summand coordinate %d == MAP(bytes[32..64] mod 2^255)" % i, seen["ops"][1][i] - m2[i]))
            vcs += [("result is the sum", get_fes(it, out, 4)[i] - V("sum%d" % i)) for i in range(4)]
            return vcs
        except Missing as e:
            return [("procedure follows RFC 9496 element derivation: " + str(e), False)]
    H("ristretto_from_uniform_bytes vs RFC 9496 4.3.4", "vp_ris_from_uniform_bytes", b_uniform)
    return T

def run(tier, seed):
    rep = Report("C06")
    rep.level = "translation_validation"
    cfgs = ["serial64", "serial32"] if tier == "quick" else ["serial64", "serial32", "fiat64", "fiat32"]
    build.ir_many([dict(config=c, flavour="O0") for c in cfgs])
    tasks = []
    for cfg in cfgs: tasks += harnesses(rep, cfg, build.ir(cfg, "O0"))
    # the hash-to-group wrappers RistrettoPoint::hash_from_bytes / from_hash (SHA-512 uninterpreted, linked ed25519-dalek IR): checks/c08s.py
    from checks import c08s
    tasks += c08s.hashmap_harnesses(rep, tier, "ris")
    run_tasks(tasks, rep)
    return rep
