"""C10 - secret-independent control flow and memory addressing, on the optimised (release) LLVM IR.

Every operation documented as constant-time is executed by the taint engine (llsym/tsym.py) from the O3 IR of each
configuration with ALL secret inputs replaced by the abstract value SECRET: the run follows one path and one address
sequence for every secret exactly when no branch condition, switch selector, getelementptr index, memory-intrinsic
length, pointer select, division operand or allocation size is secret-dependent.  On a leak the harness searches
two concrete secrets whose executions of the same IR differ in their branch/address trace and reports that pair."""
import time, random, re, os, json
from vp import build
from vp.lharness import module, Report, run_tasks
from llsym import ir, lsym, tsym
from llsym.ir import Unsupported
from llsym.poly import Poly
from llsym.lsym import LSym, Ptr, PanicReached
from llsym.tsym import TSym, SECRET, Leak

FE, EP, SC, MP = 40, 160, 32, 32
def US(cfg): return 36 if cfg.endswith("32") else 40
# argument roles (in Rust parameter order; the sret out-parameter is added from the IR signature):
#   sN secret region of N bytes | oN writable secret region (in/out) | pN public region (bytes 1,2,3..) | si secret integer | i:K public integer K
#   slN:K  slice of K secret elements of N bytes (ptr, len) | plN:K slice of K public elements
def curve_ops(cfg):
    u = US(cfg)
    ops = []
    def A(name, *roles, doc=None): ops.append((name, list(roles), doc or name))
    for f in ("mul", "add", "sub"): A("vp_fe_" + f, "s40", "s40")
    for f in ("neg", "square", "square2", "as_bytes", "is_negative", "is_zero", "invert"): A("vp_fe_" + f, "s40")
    A("vp_fe_pow2k", "s40", "i:3"); A("vp_fe_from_bytes", "s32"); A("vp_fe_select", "s40", "s40", "si"); A("vp_fe_assign", "s40", "s40", "si")
    A("vp_fe_swap", "s40", "s40", "si"); A("vp_fe_cneg", "s40", "si"); A("vp_fe_ct_eq", "s40", "s40")
    A("vp_fe_sqrt_ratio_i", "s40", "s40", "s40"); A("vp_fe_invsqrt", "s40", "s40")
    A("vp_us_from_bytes", "s32"); A("vp_us_from_bytes_wide", "s64"); A("vp_us_as_bytes", "s%d" % u)
    for f in ("add", "sub", "mul", "montgomery_mul"): A("vp_us_" + f, "s%d" % u, "s%d" % u)
    for f in ("square", "montgomery_square", "as_montgomery", "from_montgomery"): A("vp_us_" + f, "s%d" % u)
    for f in ("add", "sub", "ct_eq"): A("vp_ed_" + f, "s160", "s160")
    for f in ("neg", "double", "as_projective_niels", "as_affine_niels", "as_projective", "compress", "mul_by_cofactor", "to_montgomery", "is_identity", "is_small_order"): A("vp_ed_" + f, "s160")
    A("vp_ed_add_pn", "s160", "s160"); A("vp_ed_sub_pn", "s160", "s160"); A("vp_ed_add_an", "s160", "s120"); A("vp_ed_sub_an", "s160", "s120")
    A("vp_pn_neg", "s160"); A("vp_an_neg", "s120"); A("vp_cp_as_extended", "s160"); A("vp_cp_as_projective", "s160"); A("vp_pp_double", "s120"); A("vp_pp_as_extended", "s120")
    A("vp_ed_select", "s160", "s160", "si"); A("vp_ed_mul_by_pow_2", "s160", "i:3")
    A("vp_mont_ct_eq", "s32", "s32"); A("vp_mont_elligator_encode", "s40")
    A("vp_ris_compress", "s160"); A("vp_ris_ct_eq", "s160", "s160"); A("vp_ris_elligator", "s40"); A("vp_ris_from_uniform_bytes", "s64")
    for f in ("add", "sub", "mul", "ct_eq"): A("vp_sc_" + f, "s32", "s32")
    for f in ("neg", "from_bytes_mod_order", "invert"): A("vp_sc_" + f, "s32")
    A("vp_sc_from_bytes_mod_order_wide", "s64"); A("vp_sc_from_canonical_bytes", "s32", "s32"); A("vp_sc_sum3", "s96"); A("vp_sc_product3", "s96")
    A("vp_sc_batch_invert", "sl32:2", doc="Scalar::batch_invert n=2")
    return ops
def mult_ops(cfg, tier="quick"):
    ops = []
    def A(name, *roles, doc=None): ops.append((name, list(roles), doc or name))
    A("vp_g_variable_base", "s160", "s32"); A("vp_g_ed_mul", "s160", "s32"); A("vp_g_mul_base", "s32")
    A("vp_g_mont_mul", "s32", "s32"); A("vp_g_mont_mul_clamped", "s32", "s32"); A("vp_g_ed_mul_clamped", "s160", "s32"); A("vp_g_ed_mul_base_clamped", "s32")
    A("vp_g_straus_ct_1", "s32", "s160"); A("vp_g_straus_ct_2", "s64", "s320")
    A("vp_g_multiscalar_mul", "sl32:2", "sl160:2", doc="EdwardsPoint::multiscalar_mul n=2"); A("vp_g_ris_multiscalar_mul", "sl32:3", "sl160:3", doc="RistrettoPoint::multiscalar_mul n=3")
    for r in ((16,) if tier == "quick" else (16, 32, 64, 128, 256)): A("vp_g_table_r%d" % r, "s160", "s32", "o160", doc="EdwardsBasepointTableRadix%d::create + mul_base" % r)
    return ops

def find(mod, name):
    n = mod.aliases.get(name, name)
    if n in mod.funcs: return n
    c = [f for f in mod.funcs if re.search(r"\d+" + re.escape(name) + r"17h", f)]
    if len(c) == 1: return c[0]
    raise Unsupported("function %s not found in the IR" % name)

def build_args(it, mod, fname, roles, secret_bytes=None, rng=None):
    """allocate argument regions.  taint mode: secret_bytes None -> SECRET cells; concrete mode: secret cells get rng bytes"""
    fn = mod.funcs[fname]
    args = []; k = 0
    def sec_region(tag, n):
        p = it.new_region(tag, n)
        if rng is None:
            for j in range(n): it.store(Ptr(p.r, j), SECRET, 1)
            return p
        b = [rng.randrange(256) for _ in range(n)]
        shape = getattr(rng, "shape", None)
        # structured secrets for the replay (boundary classes a uniformly random secret hits with probability 2^-4 .. 2^-8 only):
        # applied to the last / first byte of every 32-byte block of the secret (scalars, field elements, keys)
        ends = [j for j in range(n) if j % 32 == 31 or j == n - 1]; starts = [j for j in range(n) if j % 32 == 0]
        if shape == "zero": b = [0] * n
        elif shape == "ones": b = [255] * n
        elif shape == "top0f":
            for j in ends: b[j] &= 0x0f
        elif shape == "top00":
            for j in ends: b[j] = 0
        elif shape == "top80":
            for j in ends: b[j] |= 0x80
        elif shape == "low0":
            for j in starts: b[j] = 0
        for j in range(n): it.store(Ptr(p.r, j), Poly.const(b[j]), 1)
        return p
    def pub_region(tag, data):
        if hasattr(it, "public_region"): return it.public_region(tag, data)
        p = it.new_region(tag, len(data))
        for j, v in enumerate(data): it.store(Ptr(p.r, j), Poly.const(v), 1)
        return p
    ri = 0
    for pi, pty in enumerate(fn.param_types):
        if fn.sret is not None and fn.sret[0] == pi:
            args.append(it.new_region("out", it.mod.sizeof(fn.sret[1]) if fn.sret[1] else 512)); continue
        if ri >= len(roles): raise Unsupported("more IR parameters than roles for " + fname)
        r = roles[ri]
        if r.startswith("sl") or r.startswith("pl"):
            # a slice occupies two IR parameters (ptr, len); emitted on the first, the second consumes no role
            m = re.match(r"[sp]l(\d+):(\d+)", r); es, cnt = int(m.group(1)), int(m.group(2))
            if not getattr(build_args, "_pending", None):
                p = sec_region("slice%d" % ri, es * cnt) if r[0] == "s" else pub_region("slice%d" % ri, [(j * 7 + 1) & 255 for j in range(es * cnt)])
                args.append(p); build_args._pending = cnt; continue
            args.append(Poly.const(build_args._pending)); build_args._pending = None; ri += 1; continue
        ri += 1
        if r[0] in "so" and r[1:].isdigit(): args.append(sec_region("arg%d" % ri, int(r[1:])))
        elif r[0] == "p" and r[1:].isdigit(): args.append(pub_region("arg%d" % ri, [(j * 5 + 3) & 255 for j in range(int(r[1:]))]))
        elif r == "si": args.append(SECRET if rng is None else Poly.const(rng.randrange(2)))
        elif r.startswith("i:"): args.append(Poly.const(int(r[2:])))
        else: raise Unsupported("role " + r)
    build_args._pending = None
    if ri != len(roles): raise Unsupported("roles left over for %s (%d of %d used; IR params %r)" % (fname, ri, len(roles), fn.param_types))
    return args

def prepare(it, mod, cfg, force_backend):
    """run-time CPU dispatch: the cpufeatures storage byte is preset so that the wanted implementation is selected"""
    for g in list(mod.globals):
        if re.search(r"cpuid_avx2.*STORAGE|cpuid_avx512.*STORAGE", g) or (("STORAGE" in g) and "cpuid" in g):
            p = it.global_region(g)
            want = 1 if ((force_backend == "avx2" and "avx2" in g) or (force_backend == "avx512" and "avx512" in g)) else 0
            it.store(Ptr(p.r, 0), Poly.const(want), 1)

SHAPES = [None, None, "top0f", "top80", "zero", "ones", "top00", "low0", None, None, None, None]

def trace_of(mod, cfg, fname, roles, seed, force_backend):
    it = LSym(mod, max_steps=400_000_000); it.record_events = True
    prepare(it, mod, cfg, force_backend)
    rng = random.Random(seed); rng.shape = SHAPES[(seed - 1000) % len(SHAPES)]
    args = build_args(it, mod, fname, roles, rng=rng)
    it.call(fname, args)
    return it.events

def find_pair(mod, cfg, fname, roles, force_backend, tries=12):
    """two secrets whose concrete executions of the same IR take different branches / touch different addresses"""
    base = None
    for s in range(tries):
        try: ev = trace_of(mod, cfg, fname, roles, 1000 + s, force_backend)
        except (Unsupported, PanicReached) as e: return None, "concrete re-execution not possible: " + str(e)[:200]
        if base is None: base = (1000 + s, ev); continue
        a, b = base[1], ev
        n = min(len(a), len(b))
        for i in range(n):
            if a[i] != b[i]: return dict(seed_a=base[0], seed_b=1000 + s, first_difference_at_event=i, event_a=repr(a[i])[:200], event_b=repr(b[i])[:200]), None
        if len(a) != len(b): return dict(seed_a=base[0], seed_b=1000 + s, first_difference_at_event=n, event_a="trace length %d" % len(a), event_b="trace length %d" % len(b)), None
    return None, "no diverging pair among %d sampled secrets" % tries

def ct_harness(rep, cfg, modpaths, name, roles, doc, force_backend=None, crate="curve25519-dalek"):
    t0 = time.time()
    label = "%s%s/%s" % (cfg, ("+" + force_backend) if force_backend else "", doc)
    rec = dict(harness=label, config=cfg, function=doc, goals=[], bounds="all values of every secret input (abstract value SECRET); public lengths/constants as listed in the role string %s" % ",".join(roles))
    try:
        mod = module(modpaths[0]) if isinstance(modpaths, list) else module(modpaths)
        if isinstance(modpaths, list):
            for p in modpaths[1:]: mod.link(module(p))
        fname = find(mod, name)
        it = TSym(mod)
        prepare(it, mod, cfg, force_backend)
        args = build_args(it, mod, fname, roles)
        try:
            it.call(fname, args)
            rec["goals"].append(dict(goal="no branch, switch, address, length, division or call target depends on a secret (%d branches, %d memory accesses executed, all public; %d operations on secret data)" % (it.n_branches, it.n_addrs, it.secret_ops),
                                     verdict="unsat", solver_s=0.0, cases=1, solver_calls=0, kind="single-path execution over the abstract secret", nontrivial=bool(it.secret_ops > 0 and (it.n_branches + it.n_addrs) > 0)))
            moved = any(isinstance(e[0], tsym.Secret) for R in it.regions.values() if R.name.startswith("out") for e in R.b.values())
            if it.secret_ops == 0 and not moved:
                rec["status"] = "inconclusive"; rec["why"] = "vacuous: no operation touched secret data"
            else: rec["status"] = "ok"
            rec["ir_steps"] = it.steps; rec["calls"] = len(it.calls)
            if force_backend:
                hit = [c for c in it.calls if ("vector" in c and ("avx2" in c or "ifma" in c or "spec_" in c))]
                rec["vector_functions_executed"] = len(hit)
                if not hit: rec["status"] = "inconclusive"; rec["why"] = "forced backend %s but no vector-backend function was executed" % force_backend
        except Leak as e:
            pair, why = find_pair(mod, cfg, fname, roles, force_backend)
            g = dict(goal="no secret-dependent %s" % e.kind, verdict="sat", solver_s=0.0, cases=1, solver_calls=0, leak=str(e)[:600], call_stack=[s[-90:] for s in it.stack[-6:]])
            if pair is not None:
                g["replay"] = pair; g["reproduced"] = True; rec["status"] = "violation"
                rec["why"] = "secret-dependent %s: %s; two secrets (PRNG seeds %d / %d) diverge at trace event %d" % (e.kind, e.what[:200], pair["seed_a"], pair["seed_b"], pair["first_difference_at_event"])
            else:
                g["reproduced"] = False; rec["status"] = "inconclusive"; rec["why"] = "secret-tainted %s (%s) but %s" % (e.kind, str(e)[:300], why)
            rec["goals"].append(g)
    except Unsupported as e:
        rec["status"] = "inconclusive"; rec["why"] = "unsupported IR: " + str(e)[:400]
    except PanicReached as e:
        rec["status"] = "inconclusive"; rec["why"] = "panic reached: " + str(e)[:300]
    rec["wall_s"] = round(time.time() - t0, 3)
    rep.add(**rec); rep.functions.add(doc); rep.configs.add(cfg)

def run(tier, seed):
    rep = Report("C10")
    cfgs = ["serial64", "serial32"] if tier == "quick" else ["serial64", "serial32", "fiat64", "fiat32"]
    paths = {}
    for cfg in cfgs + ["simd"]:
        paths[cfg] = build.ir(cfg, "O3")
    jobs = []
    for cfg in cfgs:
        for (n, roles, doc) in curve_ops(cfg) + mult_ops(cfg, tier): jobs.append((cfg, n, roles, doc, None))
    for (n, roles, doc) in [o for o in mult_ops("simd", tier) if o[0] in ("vp_g_ed_mul", "vp_g_ed_mul_clamped", "vp_g_multiscalar_mul", "vp_g_ris_multiscalar_mul")]:
        jobs.append(("simd", n, roles, doc, "avx2"))
    # protocol level: Ed25519 key derivation + signing (message public), X25519 (ed25519-dalek / x25519-dalek IR linked with the IR of
    # every dependency as compiled into them, SHA-512 included)
    edp = build.ir("serial64", "O3", crate="ed25519-dalek", features=["hazmat", "digest", "zeroize"], no_default=True, with_deps=True)
    xp = build.ir("serial64", "O3", crate="x25519-dalek", features=["static_secrets", "reusable_secrets"], with_deps=True)
    paths["ed"] = edp; paths["x"] = xp
    jobs.append(("ed", "vp_ed_keygen", ["s32"], "ed25519 SigningKey::from_bytes + verifying_key (key derivation)", None))
    jobs.append(("ed", "vp_ed_sign", ["s32", "pl1:3"], "ed25519 SigningKey::sign (3-byte public message)", None))
    jobs.append(("x", "vp_x25519", ["s32", "s32"], "x25519(k, u)", None))
    jobs.append(("x", "vp_x_ephemeral_dh", ["s32", "s32"], "EphemeralSecret::diffie_hellman", None))
    jobs.append(("x", "vp_x_static_dh", ["s32", "s32"], "StaticSecret::diffie_hellman", None))
    jobs.append(("x", "vp_x_reusable_dh", ["s32", "s32"], "ReusableSecret::diffie_hellman", None))
    jobs.append(("x", "vp_x_public_from_static", ["s32"], "PublicKey::from(&StaticSecret)", None))
    only = os.environ.get("VERIF_ONLY")
    if only: jobs = [j for j in jobs if re.search(only, j[0] + "/" + j[1])]
    # long harnesses first (better packing of the worker pool)
    heavy = lambda j: 0 if (j[0] in ("ed", "x") or "table" in j[1] or "mont_mul" in j[1] or "multiscalar" in j[1] or "straus" in j[1] or "variable_base" in j[1] or "ed_mul" in j[1]) else 1
    jobs.sort(key=heavy)
    cfgname = {"ed": "serial64", "x": "serial64"}
    tasks = [(lambda j=j: ct_harness(rep, cfgname.get(j[0], j[0]), paths[j[0]], j[1], j[2], j[3], force_backend=j[4])) for j in jobs]
    run_tasks(tasks, rep)
    return rep
