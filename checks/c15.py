"""C15 - untrusted input never panics: decoders and verifiers are total.
(a) every decoding / conversion entry point whose body is field arithmetic is executed from the O0 IR on EVERY
    oracle path (all outcomes of all data-dependent predicates, i.e. all algebraically exceptional inputs: zero
    denominators, u = -1, y = +-1, s = 0, non-squares, non-canonical encodings): reaching any panic on an
    algebraically consistent path is a violation;  (b) slice decoders are model-checked by Kani for every slice
    length 0..=66 (length handling, indexing, copy_from_slice);  (c) the verification entry points are covered by the
    C09 harnesses re-run here (Kani reports any reachable panic as a failed check)."""
from vp import build, kani
from vp.lharness import Report, run_tasks
from checks import c03, c06, c07, c01f

CURVE_KANI = {
 "c15_compressed_edwards_from_slice_total": dict(function="CompressedEdwardsY::{from_slice, try_from}", bounds="all slices of length 0..=66", what="Ok <=> len == 32, bytes copied, no panic"),
 "c15_compressed_ristretto_from_slice_total": dict(function="CompressedRistretto::{from_slice, try_from}", bounds="all slices of length 0..=66", what="Ok <=> len == 32, no panic"),
}
ED_KANI = {
 "c15_verifying_key_try_from_slice_total": dict(function="VerifyingKey::try_from(&[u8])", bounds="all slices of length 0..=66; decompress stubbed by an arbitrary Option", what="Err for every length != 32, no panic"),
 "c15_signature_from_slice_total": dict(function="Signature::from_slice", bounds="all slices of length 0..=66", what="Ok <=> len == 64"),
 "c15_internal_signature_rejects_noncanonical_s": dict(function="InternalSignature::from_bytes", bounds="all 2^512 signatures; canonical decoder stubbed by its contract", what="Err <=> S rejected by the canonical decoder"),
 "c15_expanded_secret_key_from_slice_total": dict(function="ExpandedSecretKey::from_slice", bounds="all slices of length 0..=66", what="Ok <=> len == 64"),
}

def run(tier, seed):
    rep = Report("C15")
    cfgs = ["serial64"] if tier == "quick" else ["serial64", "serial32"]
    build.ir_many([dict(config=c, flavour="O0") for c in cfgs])
    tasks = []
    keep = ("ed_decompress", "ed_compress", "ristretto_decode", "ristretto_encode", "ristretto_map", "ristretto_from_uniform_bytes", "montgomery to_edwards",
            "edwards to_montgomery", "nonspec_map_to_curve", "montgomery elligator_encode", "montgomery as_affine", "montgomery ct_eq", "fe_batch_invert", "fe_invsqrt", "fe_sqrt_ratio_i")
    for cfg in cfgs:
        mp = build.ir(cfg, "O0")
        sub = Report("C15")
        for mod in (c03, c06, c07, c01f):
            hs = mod.harnesses(rep, cfg, mp)
            tasks += hs
    # the `expect` of EdwardsPoint::nonspec_map_to_curve: every None path of to_edwards(elligator_encode(r), sign) closed by a certificate (checks/c15n.py)
    from checks import c15n
    for cfg in cfgs: tasks.append(lambda cfg=cfg: c15n.harness(rep, cfg, build.ir(cfg, "O0")))
    def kani_curve():
        res = kani.run("curve25519-dalek", "serial64", list(CURVE_KANI), timeout_s=600, jobs=4)
        kani.record(rep, "serial64", res, list(CURVE_KANI), CURVE_KANI)
    def kani_ed():
        res = kani.run("ed25519-dalek", "serial64", list(ED_KANI), features=["hazmat", "digest", "zeroize"], no_default=True, stubbing=True, timeout_s=600, jobs=4)
        kani.record(rep, "serial64", res, list(ED_KANI), ED_KANI)
    tasks.append(kani_curve); tasks.append(kani_ed)
    run_tasks(tasks, rep)
    # keep only the decoder / conversion harnesses; their verdict here is panic-freedom on every path
    rep.items = [it for it in rep.items if it["harness"].startswith("kani:") or any(k in it["harness"] for k in keep)]
    rep.violations = [it for it in rep.items if it.get("status") == "violation"]
    rep.inconclusive = [it for it in rep.items if it.get("status") not in ("ok", "violation")]
    for it in rep.items:
        if not it["harness"].startswith("kani:"): it["harness"] = "nopanic:" + it["harness"]
    rep.level = "model_checking"
    return rep
