"""C13 - batch verification is the z-weighted sum of the individual verification equations, is deterministic, and fails closed.

`ed25519_dalek::verify_batch` is executed from the O0 LLVM IR of ed25519-dalek linked with the IR of all its dependencies
(merlin, sha2, curve25519-dalek, ...) by the group-level engine:
  * points are elements of the exact model group Z^k over formal base points B, R_i, A_i; scalars are polynomials over the symbols
    z_i (the 128-bit coefficients, byte by byte), h_i (the reduced hash H(R_i||A_i||M_i)), s_i (signature bytes);
  * SHA-512 is an uninterpreted function of its recorded input (update/finalize intercepted: the bytes fed to it are compared
    with R_i||A_i||M_i), the merlin transcript records what is appended and hands out fresh symbolic bytes (its Keccak runs
    concretely), the vartime multiscalar multiplication runs as real code (C04's machinery: NAF contract, arm merging);
  * the data-dependent decisions - S_i canonical?, R_i decodes?, result is the identity? - are enumerated exhaustively.
Decided for ALL signature / key bytes (n <= 2 quick, 3 thorough):
  Ok  <=>  lengths agree /\\ every S_i canonical /\\ every R_i decodes /\\ [the tested group element is the identity], where the tested
  element is exactly  sum_i z_i*R_i + sum_i (z_i*h_i)*A_i - (sum_i z_i*s_i)*B  (polynomial identity), h_i hashes exactly
  R_i||A_i||M_i, every z_i is squeezed after ALL h_i and ALL s_i were appended, and the only entropy source is the all-zero ZeroRng.
  Mismatching slice lengths return Err on every combination <= 2 without reaching a panic."""
import time, re
from vp import build
from vp.lharness import module, Report, run_tasks
from llsym import ir, gsym, lsym, smt, fconst
from llsym.ir import Unsupported
from llsym.gsym import GSym, G, SDigit
from llsym.poly import Poly, ZERO, ONE
from llsym.lsym import LSym, Ptr, Cond, PanicReached
from llsym.fsym import Oracle
from checks.c14 import linked

L = fconst.L
class SVal:
    """abstract scalar (an element of Z/l given as an integer polynomial over the symbols z, h, s)"""
    def __init__(self, p): self.p = p
class HashOut:
    def __init__(self, idx, inputs): self.idx, self.inputs = idx, inputs

class BSym(GSym):
    def __init__(self, mod, oracle, window):
        super().__init__(mod)
        self.max_steps = 200_000_000
        self.oracle = oracle
        self.naf_window = set(window) if window is not None else None
        self.hashes = {}        # region of the hasher object -> list of input byte cells
        self.hash_outs = []
        self.transcript = []    # (label, [cells])
        self.squeezes = []      # (number of transcript records at that time, [byte polys])
        self.scalar_vals = {}   # tag -> Poly
        self.tested = []        # group elements handed to is_identity
        self.rng_type = None; self.stack = []
        I = self.intercept
        SC = r'curve25519_dalek::scalar::Scalar'
        I.insert(0, (r'^<D as digest::digest::Digest>::update$', self.h_update))
        I.insert(0, (r'^<D as digest::digest::Digest>::finalize$', self.h_finalize))
        I.insert(0, (r'^merlin::transcript::Transcript::append_message$', self.t_append))
        I.insert(0, (r'^<merlin::transcript::TranscriptRng as rand_core::RngCore>::fill_bytes$', self.t_fill))
        I.insert(0, (r'^' + SC + r'::from_bytes_mod_order_wide$', self.s_wide))
        I.insert(0, (r'^' + SC + r'::from_canonical_bytes$', self.s_canon))
        I.insert(0, (r'^<&' + SC + r' as core::ops::arith::Mul(<&' + SC + r'>)?>::mul$', lambda it, a, n: self.put_scalar(a[0], self.sval(a[1]) * self.sval(a[2]))))
        I.insert(0, (r'^<&' + SC + r' as core::ops::arith::Add(<&' + SC + r'>)?>::add$', lambda it, a, n: self.put_scalar(a[0], self.sval(a[1]) + self.sval(a[2]))))
        I.insert(0, (r'^<&' + SC + r' as core::ops::arith::Neg>::neg$', lambda it, a, n: self.put_scalar(a[0], -self.sval(a[1]))))
        I.insert(0, (r'^curve25519_dalek::edwards::CompressedEdwardsY::decompress$', self.p_decompress))
        I.insert(0, (r'^<T as curve25519_dalek::traits::IsIdentity>::is_identity$', self.p_is_identity))
    def call(self, name, args, comment=None):
        self.stack.append(comment or name)
        try: return super().call(name, args, comment)
        except Unsupported as e:
            if " [stack " not in str(e): raise Unsupported("%s [stack %s]" % (e, " <- ".join(x[-70:] for x in reversed(self.stack[-5:]))))
            raise
        finally: self.stack.pop()
    # ---- scalars
    def sval(self, p):
        R = self.regions[p.r]; e = R.b.get(p.o)
        if e is not None and isinstance(e[0], SVal) and e[1] == 0 and e[2] == 32: return e[0].p
        return self.ctx.resolve(self.P(self.load(p, 32)))
    def put_scalar(self, p, poly):
        obj = SVal(poly); R = self.regions[p.r]
        for k in range(32): R.b[p.o + k] = (obj, k, 32)
        return None
    def scalar_tag(self, p):
        e = self.regions[p.r].b.get(p.o)
        if e is not None and isinstance(e[0], gsym.ScalarObj): return super().scalar_tag(p)
        v = self.sval(p); key = repr(sorted(v.t.items()))
        for t, (k2, _) in self.scalar_vals.items():
            if k2 == key: return t
        t = "k%d" % len(self.scalar_vals); self.scalar_vals[t] = (key, v)
        return t
    def s_wide(self, it, a, name):
        e = self.regions[a[1].r].b.get(a[1].o)
        if e is None or not isinstance(e[0], HashOut): raise Unsupported("from_bytes_mod_order_wide of something that is not a SHA-512 output")
        h = self.ctx.input("h%d" % e[0].idx, 0, L - 1)
        return self.put_scalar(a[0], h)
    def s_canon(self, it, a, name):
        # CtOption<Scalar> { value: Scalar @0, is_some: Choice @32 }
        src = a[1]
        cells = [self.regions[src.r].b.get(src.o + k) for k in range(32)]
        nm = repr(cells[0][0]) if cells[0] else "?"
        ok = self.oracle.decide(("canon", nm), "S canonical? (%s..)" % nm)
        for k in range(32): self.regions[a[0].r].b[a[0].o + k] = cells[k]
        self.store(Ptr(a[0].r, a[0].o + 32), Poly.const(1 if ok else 0), 1)
        return None
    # ---- points
    def p_decompress(self, it, a, name):
        src = a[1]; c0 = self.regions[src.r].b.get(src.o)
        nm = repr(c0[0]) if c0 else "?"
        m = re.match(r"sig(\d+)_0$", nm)
        if not m: raise Unsupported("decompress of bytes that are not the R half of a harness signature: " + nm)
        ok = self.oracle.decide(("dec", nm), "R_%s decodes?" % m.group(1))
        # Option<EdwardsPoint>: no niche in 20 u64 limbs -> tag word at 0, payload at 8
        self.store(Ptr(a[0].r, a[0].o), Poly.const(1 if ok else 0), 8)
        if ok: self.put(Ptr(a[0].r, a[0].o + 8), G.base("R" + m.group(1)), 4 * self.fs)
        return None
    def p_is_identity(self, it, a, name):
        g = self.get(a[0]); self.tested.append(g)
        f, ok = self.fold_scalars(g)
        if ok and f.is_zero():
            self.count("identity_by_construction"); return Poly.const(1)      # the zero linear form is the identity for every input
        v = self.oracle.decide(("ident", len(self.tested)), "tested element is the identity?")
        return Poly.const(1 if v else 0)
    def fold_scalars(self, g):
        """every coefficient must be sum_j 2^j d_kj over the NAF digits of batch scalars k: fold back to sum_k value_k  -> (G over z,h,s ; ok)"""
        digs = {}
        for (t, kind), dd in self.digits.items():
            for v, w in zip(dd["vars"], dd["weights"]):
                if v.vars(): digs[list(v.vars())[0]] = (t, w)
        folded = G(); ok = True
        for b, p in g.c.items():
            per = {}
            for mono, c in self.ctx.resolve(p).t.items():
                if len(mono) == 1 and mono[0] in digs:
                    t, w = digs[mono[0]]
                    if c % w: ok = False
                    per.setdefault(t, set()).add(c // w)
                else: ok = False
            acc = ZERO
            for t, ks in per.items():
                if len(ks) != 1: ok = False; continue
                # all windowed digit positions of scalar t must occur with the same multiplier
                nv = sum(1 for v in self.digits[(t, "naf5")]["vars"] if v.vars()) if (t, "naf5") in self.digits else sum(1 for v in self.digits[(t, "naf8")]["vars"] if v.vars())
                cnt = sum(1 for mono in self.ctx.resolve(p).t if len(mono) == 1 and mono[0] in digs and digs[mono[0]][0] == t)
                if cnt != nv: ok = False
                acc = acc + self.scalar_vals[t][1].scale(list(ks)[0])
            folded = folded + G({b: acc})
        return folded, ok
    # ---- hash
    def cells(self, p, n):
        R = self.regions[p.r]; out = []
        for k in range(n):
            c = R.b.get(p.o + k)
            if c is None: raise Unsupported("hash / transcript input with an undefined byte")
            out.append(c)
        return out
    def h_update(self, it, a, name):
        # update(&mut self, data: impl AsRef<[u8]>): instances for &[u8] (ptr, len) and for &[u8; 32] (thin pointer)
        if len(a) >= 3:
            n = self.P(a[2])
            if not n.is_const(): raise Unsupported("hash update of symbolic length")
            n = n.cval()
        else: n = 32
        self.hashes.setdefault(a[0].r + "+%d" % a[0].o, []).extend(self.cells(a[1], n))
        return None
    def h_finalize(self, it, a, name):
        key = a[1].r + "+%d" % a[1].o
        inp = self.hashes.pop(key, None)
        if inp is None:
            # the hasher was moved (memcpy) before finalize: take the only pending one
            if len(self.hashes) != 1: raise Unsupported("finalize of an unknown hasher")
            key, inp = self.hashes.popitem()
        ho = HashOut(len(self.hash_outs), inp); self.hash_outs.append(ho)
        R = self.regions[a[0].r]
        for k in range(64): R.b[a[0].o + k] = (ho, k, 64)
        return None
    # ---- transcript
    def t_append(self, it, a, name):
        ll = self.P(a[2]).cval(); ml = self.P(a[4]).cval()
        label = bytes(self.P(self.load(Ptr(a[1].r, a[1].o + k), 1)).cval() for k in range(ll))
        self.transcript.append((label, self.cells(a[3], ml)))
        return None
    def t_fill(self, it, a, name):
        n = self.P(a[2]).cval(); i = len(self.squeezes)
        bs = [self.ctx.input("z%d_%d" % (i, k), 0, 255) for k in range(n)]
        for k in range(n): self.store(Ptr(a[1].r, a[1].o + k), bs[k], 1)
        self.squeezes.append((len(self.transcript), bs))
        return None

def same_cells(a, b):
    if len(a) != len(b): return False
    for x, y in zip(a, b):
        if x[0] is y[0] and x[1] == y[1]: continue
        if isinstance(x[0], Poly) and isinstance(y[0], Poly) and x[0].t == y[0].t and x[1] == y[1]: continue
        return False
    return True

def batch_paths(rep, paths, n, nm, nk, tier, window):
    """all decision paths of verify_batch for ns = n signatures, nm messages, nk keys"""
    t0 = time.time()
    name = "verify_batch signatures=%d messages=%d keys=%d" % (n, nm, nk)
    rec = dict(harness="serial64/" + name, config="serial64", function="ed25519_dalek::batch::verify_batch", goals=[], paths=0,
               bounds="all signature and key bytes symbolic; 1-byte public message; NAF digits of the batch scalars arbitrary in positions %s" % (sorted(window) if window else "0..255"))
    status = "ok"; why = ""
    def goal(g, ok, kind="structural"):
        nonlocal status, why
        rec["goals"].append(dict(goal=g, verdict="unsat" if ok else "sat", solver_s=0.0, cases=1, solver_calls=0, kind=kind, nontrivial=(kind != "structural" or "path" in g and "=" in g)))
        if not ok and status != "violation": status = "violation"; why = g
    try:
        mod = linked(paths)
        lay = VK_LAYOUT[0]
        fn = [f for f in mod.funcs if re.search(r"batchhook15vp_verify_batch17h", f)][0]
        decisions = []; npaths = 0
        while True:
            npaths += 1
            if npaths > 200: raise Unsupported("more than 200 paths")
            orc = Oracle(decisions)
            it = BSym(mod, orc, window)
            msg = it.new_region("msg", 1); it.store(Ptr(msg.r, 0), Poly.const(0x4d), 1)
            sigs = it.new_region("sigs", 64 * max(n, 1)); keys = it.new_region("keys", lay[0] * max(nk, 1))
            for i in range(n):
                for k in range(64): it.store(Ptr(sigs.r, 64 * i + k), it.ctx.input("sig%d_%d" % (i, k), 0, 255), 1)
            for i in range(nk):
                for k in range(32): it.store(Ptr(keys.r, lay[0] * i + lay[1] + k), it.ctx.input("key%d_%d" % (i, k), 0, 255), 1)
                it.put(Ptr(keys.r, lay[0] * i + lay[2]), G.base("A%d" % i), 4 * it.fs)
            r = it.P(it.call(fn, [msg, Poly.const(1), sigs, Poly.const(n), keys, Poly.const(nk), Poly.const(nm)]))
            if not r.is_const(): raise Unsupported("symbolic return value")
            got = bool(r.cval() & 1)
            tr = dict((d, v) for d, v in orc.trace)
            pd = "path %d [%s]" % (npaths, ", ".join("%s=%d" % (d, v) for d, v in orc.trace))
            if not (n == nm == nk):
                goal("%s: mismatching lengths -> Err" % pd, (not got) and not orc.trace)
            else:
                canon = [v for d, v in orc.trace if d.startswith("S canonical")]
                dec = [v for d, v in orc.trace if d.startswith("R_")]
                ident = [v for d, v in orc.trace if d.startswith("tested")]
                if it.kcalls.get("identity_by_construction"): ident = [1]
                want = len(canon) == n and all(canon) and len(dec) == n and all(dec) and (ident == [1])
                goal("%s: returns %s" % (pd, "Ok" if want else "Err"), got == want)
                # fail-closed order: a non-canonical S ends the call before any R is decoded; an undecodable R before the identity test
                if not all(canon): goal("%s: no R decoded and nothing tested after a non-canonical S" % pd, not dec and not ident)
                elif not all(dec): goal("%s: nothing tested after an undecodable R" % pd, not ident)
                # hashes: h_i = H(R_i || A_i || M) for every i, in order
                hs_ok = len(it.hash_outs) == n
                for i, ho in enumerate(it.hash_outs):
                    exp = it.cells(Ptr(sigs.r, 64 * i), 32) + it.cells(Ptr(keys.r, lay[0] * i + lay[1]), 32) + it.cells(msg, 1)
                    hs_ok = hs_ok and same_cells(ho.inputs, exp)
                goal("%s: SHA-512 is fed exactly R_i || A_i || M_i for i < %d" % (pd, n), hs_ok)
                # transcript: label, then all hrams, then all s; every squeeze comes after all of them; ZeroRng is the external RNG
                exp_tr = [(b"hram", None)] * n + [(b"sig.s", None)] * n
                labs = [l for l, _ in it.transcript if l not in (b"dom-sep",)]
                tr_ok = labs == [l for l, _ in exp_tr]
                if tr_ok:
                    body = [c for l, c in it.transcript if l not in (b"dom-sep",)]
                    for i in range(n):
                        tr_ok = tr_ok and len(body[i]) == 64 and all(c[0] is it.hash_outs[i] for c in body[i])
                        tr_ok = tr_ok and same_cells(body[n + i], it.cells(Ptr(sigs.r, 64 * i + 32), 32))
                goal("%s: the transcript absorbs all H(R_i||A_i||M_i) and then all S_i" % pd, tr_ok)
                if all(canon) and len(canon) == n:
                    goal("%s: every coefficient z_i is squeezed (16 bytes) after the whole transcript was absorbed" % pd,
                         len(it.squeezes) == n and all(cnt == len(it.transcript) and len(bs) == 16 for cnt, bs in it.squeezes))
                    rngs = [c for c in it.calls if "rand_core..RngCore" in c and "fill_bytes" in c and "TranscriptRng" not in c]
                    goal("%s: the only external entropy source consulted is batch::ZeroRng (which writes nothing)" % pd, len(rngs) == 1 and "ZeroRng" in rngs[0])
                if it.tested:
                    g = it.tested[0]
                    folded, fold_ok = it.fold_scalars(g)
                    goal("%s: every group coefficient is a recoded batch scalar (sum_j 2^j d_kj for one scalar k per term)" % pd, fold_ok)
                    z = [sum((bs[k].scale(1 << (8 * k)) for k in range(16)), ZERO) for _, bs in it.squeezes]
                    s = [sum((Poly.var("sig%d_%d" % (i, 32 + k)).scale(1 << (8 * k)) for k in range(32)), ZERO) for i in range(n)]
                    spec = G()
                    for i in range(n):
                        spec = spec + G.base("R%d" % i).scale(z[i]) + G.base("A%d" % i).scale(z[i] * Poly.var("h%d" % i)) - G.base("B").scale(z[i] * s[i])
                    goal("%s: tested element == sum z_i*R_i + sum z_i*h_i*A_i - (sum z_i*s_i)*B" % pd, (folded - spec).is_zero(), kind="polynomial identity in Z[z, h, s]")
            rec.setdefault("ir_steps", 0); rec["ir_steps"] += it.steps
            nd = orc.next_decisions()
            if nd is None or status == "violation": break
            decisions = nd
        rec["paths"] = npaths
        if len(rec["goals"]) > 60: rec["goals"] = rec["goals"][:30] + [dict(goal="... %d further goals, all %s" % (len(rec["goals"]) - 60, "unsat" if status == "ok" else "see status"), verdict="unsat" if status == "ok" else "sat", solver_s=0.0, cases=1, solver_calls=0, kind="summary")] + rec["goals"][-30:]
        rec["status"] = status
        if why: rec["why"] = why
    except (gsym.TableLemmaFailed, gsym.DigitOutOfRange) as e:
        rec["status"] = "violation"; rec["why"] = "%s: %s" % (type(e).__name__, e)
    except Unsupported as e:
        rec["status"] = "inconclusive"; rec["why"] = "unsupported IR: " + str(e)[:500]
    except PanicReached as e:
        rec["status"] = "violation"; rec["why"] = "panic reached (%s) on %s" % (str(e)[:200], name)
    rec["wall_s"] = round(time.time() - t0, 3)
    rep.add(**rec); rep.functions.add(rec["function"]); rep.configs.add("serial64")

VK_LAYOUT = [None]
def run(tier, seed):
    from checks.c14 import layout_of
    rep = Report("C13")
    paths = build.ir("serial64", "O0", crate="ed25519-dalek", features=["batch", "hazmat", "digest", "zeroize"], no_default=True, with_deps=True)
    VK_LAYOUT[0] = layout_of(paths, "vp_layout_verifying_key", 3)
    window = [0, 1, 2, 3, 252, 253, 254, 255] if tier == "quick" else list(range(0, 8)) + list(range(120, 136)) + list(range(248, 256))
    tasks = []
    for n in ((0, 1, 2) if tier == "quick" else (0, 1, 2, 3)):
        tasks.append(lambda n=n: batch_paths(rep, paths, n, n, n, tier, window))
    for (ns, nm, nk) in [(a, b, c) for a in range(3) for b in range(3) for c in range(3) if not (a == b == c)]:
        tasks.append(lambda ns=ns, nm=nm, nk=nk: batch_paths(rep, paths, ns, nm, nk, tier, window))
    run_tasks(tasks, rep)
    return rep
