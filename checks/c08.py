"""C08 - Ed25519 key expansion and signing are the RFC 8032 functions (layer P, Kani): ExpandedSecretKey::from_bytes
(clamping, prefix), raw_sign and raw_sign_prehashed (transcripts, dom2, R = rB, S = k*a + r) for all key bits against
an RFC 8032 5.1.6-shaped reference over shared model functions; the 255-byte context limit for all lengths 0..300."""
from vp.lharness import Report
from vp import kani

STUBS = ["EdwardsPoint::{mul_base, compress}, CompressedEdwardsY::decompress, Scalar::{from_bytes_mod_order, from_bytes_mod_order_wide}, &Scalar * &Scalar, &Scalar + &Scalar replaced by deterministic bit-mixing model functions shared with the reference (arithmetic meaning: C02/C04)",
         "digest = model digest (order- and length-sensitive rolling state); SHA-512 trusted (M5)"]
KANI = {
 "c08_raw_sign_matches_rfc8032": dict(function="hazmat::raw_sign::<ModelDigest> + ExpandedSecretKey::from_bytes", bounds="all 2^512 expanded-key bits, all keys; message <= 2 bytes", what="prefix/scalar split + clamp; r = H(prefix||M); R = rB; k = H(R||A||M); S = k*a + r; sig = R||S"),
 "c08_raw_sign_prehashed_matches_rfc8032_dom2": dict(function="hazmat::raw_sign_prehashed::<ModelDigest,ModelDigest>", bounds="all key bits; prehash input and context <= 1 byte, context absent/present", what="dom2(1,ctx) prefix in both hashes, RFC 8032 Ed25519ph"),
 "c08_prehashed_context_length_limit": dict(function="hazmat::raw_sign_prehashed (context length)", bounds="all context lengths 0..=300", what="Err <=> len(ctx) > 255"),
 "c08_from_keypair_bytes_accepts_exactly_matching_halves": dict(function="SigningKey::from_keypair_bytes", bounds="all 2^512 keypair byte strings", what="Ok <=> public half decodes and is byte-identical to the key derived from the secret half; the returned key holds both halves"),
}
def run(tier, seed):
    rep = Report("C08")
    for m in KANI.values(): m["stubs"] = STUBS
    hs = list(KANI)
    res = kani.run("ed25519-dalek", "serial64", hs, features=["hazmat", "digest", "zeroize"], no_default=True, stubbing=True, timeout_s=1200 if tier == "quick" else 3000, jobs=6)
    kani.record(rep, "serial64", res, hs, KANI)
    # key derivation as one run (seed -> SHA-512 -> clamp -> s*B -> Encode), SHA-512 uninterpreted: checks/c08k.py (llsym layer G)
    from checks import c08k
    for t in c08k.harnesses(rep, tier): t()
    # the whole signing run (seed -> signature) against RFC 8032 5.1.6 in the exact group model: checks/c08s.py
    from checks import c08s
    for t in c08s.sign_harnesses(rep, tier): t()
    # sign -> verify / verify_strict / prehashed variants under the same key (and under another message / context)
    for t in c08s.roundtrip_harnesses(rep, tier): t()
    return rep
