"""C02, inversion and products (layer S: scalars as monomials).

`Scalar::invert`, `Scalar::batch_invert` and `Product` are multiplication-only computations: every intermediate value is a monomial
c * x_1^e_1 * ... * x_n^e_n * R^k (R = 2^260 resp. 2^261 the Montgomery radix).  They are executed from the O0 IR with the unpacked-scalar
kernels intercepted as exact monomial arithmetic (their limb arithmetic and the Montgomery identities are the layer-L part of C02):
    unpack / pack: identity;  as_montgomery: k+1;  from_montgomery: k-1;  montgomery_mul(a, b): a*b with k_a + k_b - 1;
    montgomery_square likewise;  mul(a, b): a*b.
The addition chain of `montgomery_invert` (about 265 squarings and multiplications) and the batch-inversion bookkeeping run as real code.
Decided: invert(x) is x^(l-2) with no stray Montgomery factor (= x^-1 for x != 0 by Fermat, l prime: trusted mathematics);
batch_invert replaces every x_i by the monomial with exponent -1 on x_i and 0 on the others (exponents compared modulo l-1: inputs are
non-zero by the documented pre-condition) and returns the inverse of the product; Product multiplies every element exactly once."""
import time, re
from vp import build
from vp.lharness import module, Report, run_tasks
from llsym.ir import Unsupported
from llsym.poly import Poly
from llsym.lsym import LSym, Ptr, PanicReached
from checks.c02 import L

class Mono:
    def __init__(self, c=1, e=None, k=0): self.c = c % L; self.e = dict((v, x) for v, x in (e or {}).items() if x); self.k = k
    def mul(self, o, dk=0):
        e = dict(self.e)
        for v, x in o.e.items(): e[v] = e.get(v, 0) + x
        return Mono(self.c * o.c, e, self.k + o.k + dk)
    def key(self): return (self.c, tuple(sorted(self.e.items())), self.k)
    def __repr__(self): return "%d*%s*R^%d" % (self.c, "*".join("%s^%d" % kv for kv in sorted(self.e.items())) or "1", self.k)

class SSym(LSym):
    def __init__(self, mod, cfg):
        super().__init__(mod, max_steps=50_000_000)
        self.us = 36 if cfg.endswith("32") else 40; self.nops = 0
        US = r'curve25519_dalek::backend::serial::\w+::scalar::Scalar\d+'
        I = self.intercept
        I.append((r'^curve25519_dalek::scalar::Scalar::unpack$', lambda it, a, n: it.putm(a[0], it.getm(a[1], 32), it.us)))
        I.append((r'^' + US + r'::pack$', lambda it, a, n: it.putm(a[0], it.getm(a[1], it.us), 32)))
        I.append((r'^curve25519_dalek::scalar::<impl ' + US + r'>::pack$', lambda it, a, n: it.putm(a[0], it.getm(a[1], it.us), 32)))
        I.append((r'^' + US + r'::as_montgomery$', lambda it, a, n: it.op(a, lambda x: Mono(x.c, x.e, x.k + 1))))
        I.append((r'^' + US + r'::from_montgomery$', lambda it, a, n: it.op(a, lambda x: Mono(x.c, x.e, x.k - 1))))
        I.append((r'^' + US + r'::montgomery_mul$', lambda it, a, n: it.op2(a, lambda x, y: x.mul(y, -1))))
        I.append((r'^' + US + r'::montgomery_square$', lambda it, a, n: it.op(a, lambda x: x.mul(x, -1))))
        I.append((r'^' + US + r'::mul$', lambda it, a, n: it.op2(a, lambda x, y: x.mul(y))))
        I.append((r'^' + US + r'::square$', lambda it, a, n: it.op(a, lambda x: x.mul(x))))
    def getm(self, p, size):
        R = self.regions[p.r]; e = R.b.get(p.o)
        if e is not None and isinstance(e[0], Mono) and e[1] == 0: return e[0]
        # a constant (Scalar::ONE, ...): all bytes / limbs concrete
        if size == 32:
            v = 0
            for k in range(32):
                c = R.b.get(p.o + k)
                if c is None or not isinstance(c[0], Poly) or not c[0].is_const(): raise Unsupported("scalar operand that is neither abstract nor constant at %r" % (p,))
                v |= ((c[0].cval() >> (8 * c[1])) & 255) << (8 * k)
            return Mono(v)
        raise Unsupported("unpacked scalar operand that is not abstract at %r" % (p,))
    def putm(self, p, m, size):
        R = self.regions[p.r]
        for k in range(size): R.b[p.o + k] = (m, k, size)
        return None
    def op(self, a, f): self.nops += 1; return self.putm(a[0], f(self.getm(a[1], self.us)), self.us)
    def op2(self, a, f): self.nops += 1; return self.putm(a[0], f(self.getm(a[1], self.us), self.getm(a[2], self.us)), self.us)

def expo_ok(m, want, note_k=True):
    """coefficient 1, no Montgomery factor left, every exponent congruent to the wanted one modulo l-1"""
    vs = set(m.e) | set(want)
    return m.c == 1 and m.k == 0 and all((m.e.get(v, 0) - want.get(v, 0)) % (L - 1) == 0 for v in vs)

def m_harness(rep, cfg, modpath, name, fn, n, kind):
    t0 = time.time()
    rec = dict(harness="%s/%s" % (cfg, name), config=cfg, function=fn, goals=[], bounds="all non-zero scalars (symbols x_i); exponents compared modulo l-1",
               assumptions=["unpacked-scalar kernels are exact arithmetic mod l with the Montgomery radix bookkeeping (C02 layer L)", "x^(l-1) = 1 for x != 0 (l prime: trusted mathematics)"])
    def goal(g, ok): rec["goals"].append(dict(goal=g, verdict="unsat" if ok else "sat", solver_s=0.0, cases=1, solver_calls=0, kind="exponent identity of monomials (decided exactly)", nontrivial=True))
    try:
        it = SSym(module(modpath), cfg)
        xs = [Mono(1, {"x%d" % i: 1}) for i in range(n)]
        if kind == "invert":
            a = it.new_region("a", 32); out = it.new_region("out", 32); it.putm(a, xs[0], 32)
            it.call(fn, [out, a]); r = it.getm(out, 32)
            goal("invert(x) == x^(l-2): exponent exactly l-2, coefficient 1, no Montgomery factor (got %r after %d kernel calls)" % (r if len(repr(r)) < 120 else "...", it.nops), r.c == 1 and r.k == 0 and r.e == {"x0": L - 2})
        elif kind == "batch":
            arr = it.new_region("arr", 32 * n); out = it.new_region("out", 32)
            for i in range(n): it.putm(Ptr(arr.r, 32 * i), xs[i], 32)
            it.call(fn, [out, arr, Poly.const(n)])
            r = it.getm(out, 32)
            goal("returns the inverse of the product of all %d inputs" % n, expo_ok(r, {"x%d" % i: -1 for i in range(n)}))
            for i in range(n):
                goal("inputs[%d] is replaced by x_%d^-1" % (i, i), expo_ok(it.getm(Ptr(arr.r, 32 * i), 32), {"x%d" % i: -1}))
        else:
            arr = it.new_region("arr", 32 * n); out = it.new_region("out", 32)
            for i in range(n): it.putm(Ptr(arr.r, 32 * i), xs[i], 32)
            it.call(fn, [out, arr])
            r = it.getm(out, 32)
            goal("product of %d scalars: every factor exactly once" % n, r.c == 1 and r.k == 0 and r.e == {"x%d" % i: 1 for i in range(n)})
        rec["status"] = "ok" if all(g["verdict"] == "unsat" for g in rec["goals"]) else "violation"
        if rec["status"] != "ok": rec["why"] = [g["goal"] for g in rec["goals"] if g["verdict"] != "unsat"][0][:300]
        rec["ir_steps"] = it.steps; rec["kernel_calls"] = it.nops
    except Unsupported as e:
        rec["status"] = "inconclusive"; rec["why"] = "unsupported IR: " + str(e)[:400]
    except PanicReached as e:
        rec["status"] = "violation"; rec["why"] = "panic reached: " + str(e)[:200]
    rec["wall_s"] = round(time.time() - t0, 3)
    rep.add(**rec); rep.functions.add(fn); rep.configs.add(cfg)

def harnesses(rep, cfg, modpath, tier):
    T = [lambda: m_harness(rep, cfg, modpath, "Scalar::invert is x^(l-2)", "vp_sc_invert", 1, "invert"),
         lambda: m_harness(rep, cfg, modpath, "Product of 3 scalars", "vp_sc_product3", 3, "product")]
    for n in ((1, 2, 3) if tier == "quick" else (1, 2, 3, 5, 8)):
        T.append(lambda n=n: m_harness(rep, cfg, modpath, "Scalar::batch_invert n=%d" % n, "vp_sc_batch_invert", n, "batch"))
    return T
