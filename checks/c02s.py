"""C02, Scalar level: the public `Scalar` constructors and operators (reduce / from_bytes_mod_order,
from_canonical_bytes, +, -, *, negation, sums, products, integer conversions, equality, inversion chain) executed
from the O0 LLVM IR.  The `#[inline(never)]` limb kernels (sub, mul, montgomery_mul) are replaced by the contracts
established on the optimised IR by checks/c02.py; the always-inlined ones (mul_internal, montgomery_reduce,
from_bytes, as_bytes) are executed limb by limb."""
import time
from vp import build
from vp.lharness import *
from vp.lharness import OffPath
from llsym.poly import Poly, ZERO, ONE
from llsym.ir import Unsupported
from checks.c02 import SC, SubContract, MontMulContract, L

class MulContract(MontMulContract):
    """Scalar52/29::mul / square (inline(never)): out == a*b mod l, out < l  (established by <cfg>/vp_us_mul)"""
    def __init__(self, run, S, square=False):
        super().__init__(run, S); self.square = square
    def __call__(self, it, args, name):
        S = self.S; lay = S["layout"]; ctx = it.ctx; rb = S["rb"]; n = S["n"]
        k = len(self.calls)
        A = [it.P(it.load(Ptr(args[1].r, args[1].o + lay.cell * i), lay.cell)) for i in range(n)]
        B = A if self.square else [it.P(it.load(Ptr(args[2].r, args[2].o + lay.cell * i), lay.cell)) for i in range(n)]
        av, bv = lay.value(A), lay.value(B)
        if self.run.concrete is not None:
            o = (av.cval() * bv.cval()) % L
            for i in range(n): it.store(Ptr(args[0].r, args[0].o + lay.cell * i), Poly.const((o >> (rb * i)) & ((1 << rb) - 1)), lay.cell)
            self.calls.append(dict(pre_ok=True)); return None
        sho = [None] * n; sht = None
        if ctx.shadow is not None:
            a_, b_ = ctx.resolve(av).eval(ctx.shadow), ctx.resolve(bv).eval(ctx.shadow)
            ov_ = (a_ * b_) % L; sht = (ov_ - a_ * b_) // L
            sho = [(ov_ >> (rb * i)) & ((1 << rb) - 1) for i in range(n)]
        tag = "sq" if self.square else "ml"
        o = [ctx.input("%s%d_o%d" % (tag, k, i), 0, (1 << rb) - 1, shadow=sho[i]) for i in range(n)]
        plo, phi = ctx.interval(av * bv)
        t = ctx.input("%s%d_t" % (tag, k), -(phi // L) - 1, 0, shadow=sht)
        rest = ZERO
        for i in range(1, n): rest = rest + o[i].scale(1 << (rb * i))
        (m0, _), = o[0].t.items()
        ctx.__dict__.setdefault("extra_defs", []).append((m0[0], av * bv + t.scale(L) - rest, "goal"))
        ov = lay.value(o)
        ctx.side.append(("cond", Cond("and", ge(ov, 0), lt(ov, L))))
        for i in range(n): it.store(Ptr(args[0].r, args[0].o + lay.cell * i), o[i], lay.cell)
        self.calls.append(dict(A=A, B=B, av=av, bv=bv))
        return None
    def obligations(self):
        out = []
        S = self.S
        for k, c in enumerate(self.calls):
            cc = None
            for x in c["A"] + c["B"]:
                g = ge(x, 1 << S["rb"]); cc = g if cc is None else c_or(cc, g)
            out.append(("mul call %d operand limbs < 2^r" % k, cc))
            out.append(("mul call %d operands < 2^256" % k, c_or(ge(c["av"], 1 << 256), ge(c["bv"], 1 << 256))))
        return out

def ic_slice_ct_eq(it, a, name):
    """<[u8] as ConstantTimeEq>::ct_eq: equal lengths and all bytes equal (bytes in [0,255] => value equality)"""
    la, lb = it.P(a[1]), it.P(a[3])
    if not (la.is_const() and lb.is_const()): raise Unsupported("ct_eq on slices of symbolic length")
    if la.cval() != lb.cval(): return ZERO
    n = la.cval()
    va = ZERO; vb = ZERO
    for k in range(n):
        va = va + it.P(it.load(Ptr(a[0].r, a[0].o + k), 1)).scale(1 << (8 * k))
        vb = vb + it.P(it.load(Ptr(a[2].r, a[2].o + k), 1)).scale(1 << (8 * k))
    return it.boolvar(Cond("cmp", "eq", va, vb))

def ic_int_ct_eq(it, a, name):
    """<uN as ConstantTimeEq>::ct_eq(&a, &b): 1 iff equal (the bit trick (x | -x) >> (N-1) is C10's concern)"""
    import re as _re
    m = _re.search(r'<[ui](\d+|size) as subtle::ConstantTimeEq>', name)
    w = 64 if (m is None or m.group(1) == "size") else int(m.group(1))
    x = it.P(it.load(a[0], w // 8)); y = it.P(it.load(a[1], w // 8))
    return it.boolvar(Cond("cmp", "eq", x, y))

def s_harness(rep, cfg, modpath, name, fn, arg_specs, goal_fn, T, out_kind="scalar", bounds="", reduce_lemma=False, fork=False):
    """fork=True: data-dependent branches (variable-time code) are explored path by path (every outcome of every
    symbolic branch condition), each path discharged separately under its path condition"""
    if not fork:
        return s_harness1(rep, cfg, modpath, name, fn, arg_specs, goal_fn, T, out_kind, bounds, reduce_lemma, None)
    decisions = []
    n = 0
    while True:
        n += 1
        if n > 160: raise Unsupported("more than 160 paths")
        used = s_harness1(rep, cfg, modpath, "%s [path %d]" % (name, n), fn, arg_specs, goal_fn, T, out_kind, bounds, reduce_lemma, decisions)
        d = used[:]
        while d and d[-1] == 1: d.pop()
        if not d: break
        d[-1] = 1; decisions = d

class ReduceContract:
    """interceptor for Scalar::reduce inside its callers (is_canonical / from_canonical_bytes): out = x - k*l with 0 <= out < l, 0 <= k <= 15, for every
    256-bit x - established on the real code of reduce by the harness 'Scalar::from_bytes_mod_order' (= Scalar{bytes}.reduce()) of this check, whatever
    way reduce is written (mul_internal + montgomery_reduce, or montgomery_mul(x, R))"""
    def __init__(self, run): self.run, self.calls = run, []
    def __call__(self, it, args, name):
        ctx = it.ctx; k = len(self.calls)
        xb = [it.P(it.load(Ptr(args[1].r, args[1].o + i), 1)) for i in range(32)]
        xv = BYTES32.value(xb)
        if self.run.concrete is not None:
            o = xv.cval() % L
            for i in range(32): it.store(Ptr(args[0].r, args[0].o + i), Poly.const((o >> (8 * i)) & 255), 1)
            self.calls.append(1); return None
        sho = [None] * 32; shk = None
        if ctx.shadow is not None:
            x_ = ctx.resolve(xv).eval(ctx.shadow); o_ = x_ % L; shk = x_ // L
            sho = [(o_ >> (8 * i)) & 255 for i in range(32)]
        o = [ctx.input("red%d_o%d" % (k, i), 0, 255, shadow=sho[i]) for i in range(32)]
        q = ctx.input("red%d_k" % k, 0, 15, shadow=shk)
        ov = BYTES32.value(o)
        ctx.side.append(("cond", Cond("and", eq(ov, xv - q.scale(L)), lt(ov, L))))
        for i in range(32): it.store(Ptr(args[0].r, args[0].o + i), o[i], 1)
        self.calls.append(1); return None

def s_harness1(rep, cfg, modpath, name, fn, arg_specs, goal_fn, T, out_kind, bounds, reduce_lemma, decisions):
    """arg_specs: list of ('scalar'|'bytes32'|'bytes64'|('int', bits), assume_canonical)"""
    S = SC[cfg]
    def build_run(concrete=None, shadow=None):
        run = Run(module(modpath)); run.concrete = concrete; run.shadow = shadow
        if decisions is not None and concrete is None:
            state = dict(i=0)
            def brancher(it, fnn, lab, c, ins):
                i = state["i"]; state["i"] += 1
                if i >= len(used): used.append(0)
                v = used[i]
                if shadow is not None:
                    # the sampled vector must follow this path, otherwise it is not a witness for it
                    if bool(it.shadow_cond(c)) != bool(v): raise OffPath()
                it.ctx.assume.append(c if v else c_not(c))
                return ins[3] if v else ins[4]
            run.it.allow_symbolic_branch = brancher
        sc = SubContract(run, S, scope="goal" if reduce_lemma else "all"); mc = MontMulContract(run, S); ml = MulContract(run, S); sq = MulContract(run, S, square=True)
        base = S["sub"].split("(")[0]
        run.it.intercept = [(S["sub"], sc), (base + r'(14montgomery_mul|::montgomery_mul)$', mc), (base + r'(3mul|::mul)$', ml), (base + r'(6square|::square)$', sq),
                            (r'^<\[T\] as subtle::ConstantTimeEq>::ct_eq$', ic_slice_ct_eq),
                            (r'^<[ui](\d+|size) as subtle::ConstantTimeEq>::ct_eq$', ic_int_ct_eq)]
        if reduce_lemma == "contract": run.it.intercept.insert(0, (r'^curve25519_dalek::scalar::Scalar::reduce$', ReduceContract(run)))
        args = []; vals = []
        out = run.out("out", BYTES32) if out_kind in ("scalar", "flag+scalar") else None
        for k, (kind, canon) in enumerate(arg_specs):
            nm = "abc"[k]
            if kind in ("scalar", "bytes32"):
                p, bs = run.arg(nm, BYTES32, 255); args.append(p); v = BYTES32.value(bs); vals.append(v)
                if canon and concrete is None: run.assume(lt(v, L))
            elif kind == "bytes64":
                p, bs = run.arg(nm, BYTES64, 255); args.append(p); vals.append(BYTES64.value(bs))
            else:
                bits = kind[1]
                vn = "%s0" % nm
                if concrete is not None: v = Poly.const(concrete[vn])
                elif shadow is not None:
                    if run.ctx.shadow is None: run.ctx.shadow = {}
                    v = run.ctx.input(vn, 0, (1 << bits) - 1, shadow=shadow[vn])
                else: v = run.ctx.input(vn, 0, (1 << bits) - 1)
                run.inputs[nm] = (Layout("int", (bits + 7) // 8, [0]), [v], None)
                args.append(v); vals.append(v)
        if out_kind == "scalar": r = run.call(fn, [out] + args); flag = None
        elif out_kind == "flag+scalar": flag = run.it.P(run.call(fn, args + [out]))
        else: flag = run.it.P(run.call(fn, args));
        o = run.read(out, BYTES32) if out is not None else []
        ov = BYTES32.value(o) if o else None
        goals = list(goal_fn(ov, vals, flag))
        if reduce_lemma is True and concrete is None and sc.calls:
            # Scalar::reduce(x): the value r returned by the final conditional subtraction satisfies r == x (mod l);
            # once proven, r = x - l*k for an integer k (0 <= k <= 16) is added as a fact for the remaining goals
            c0 = sc.calls[-1]
            rv = c0["xv"] - c0["yv"] + Poly.var("sub%d_u" % (len(sc.calls) - 1)).scale(L)
            ofree = S["layout"].value([Poly.var("sub%d_o%d" % (len(sc.calls) - 1, i)) for i in range(S["n"])])
            def fact(ctx, rv=ofree, x=vals[0]):
                k = ctx.input("reduce_k", 0, 16, shadow=None)
                if ctx.shadow is not None: ctx.shadow["reduce_k"] = (ctx.resolve(x).eval(ctx.shadow)) // L
                ctx.side.append(("cond", eq(rv, x - k.scale(L))))
            goals = [("lemma: reduce(x) == x (mod l)", modne(rv - vals[0], L), fact)] + [(g[0], g[1], None, dict(light=True)) for g in goals]
        if concrete is None:
            for c in (sc, mc, ml, sq): goals += c.obligations()
        else:
            for k, c in enumerate(sc.calls): goals.append(("sub call %d precondition -l <= X-Y < l" % k, Cond("const", not c["pre_ok"])))
        roots = o + ([flag] if flag is not None else [])
        return run, goals, roots
    used = list(decisions) if decisions is not None else []
    run, goals, roots = build_run()
    def replay(env, gname):
        r2, g2, o2 = build_run(concrete=env)
        for (n2, c2) in g2:
            if n2 == gname: return eval_concrete(r2, c2), dict(llsym_concrete_outputs=[x.cval() for x in o2])
        return False, "goal not evaluable concretely: " + gname
    if decisions is not None: build_run.path_forked = True
    discharge(rep, run, "%s/%s" % (cfg, name), goals, roots, cfg, fn, bounds, timeout_s=T, replay=replay, selftest=build_run,
              assumptions=["Scalar52/29::{sub, mul, square, montgomery_mul} summarised by the contracts established on the optimised IR (checks/c02.py)"])
    return used


def _unused():
    return None

def harnesses(rep, cfg, modpath, tier):
    T = 120 if tier == "quick" else 600
    tasks = []
    def H(*a, **kw): tasks.append(lambda: s_harness(rep, cfg, modpath, *a, **kw))
    canon = lambda o: ("out < l (canonical)", ge(o, L))
    H("Scalar + Scalar", "vp_sc_add", [("scalar", True), ("scalar", True)], lambda o, v, f: [("out == a + b (mod l)", modne(o - v[0] - v[1], L)), canon(o)], T, bounds="all canonical a, b")
    H("Scalar - Scalar", "vp_sc_sub", [("scalar", True), ("scalar", True)], lambda o, v, f: [("out == a - b (mod l)", modne(o - v[0] + v[1], L)), canon(o)], T, bounds="all canonical a, b")
    H("Scalar * Scalar", "vp_sc_mul", [("scalar", True), ("scalar", True)], lambda o, v, f: [("out == a * b (mod l)", modne(o - v[0] * v[1], L)), canon(o)], T, bounds="all canonical a, b")
    H("-Scalar", "vp_sc_neg", [("scalar", True)], lambda o, v, f: [("out == -a (mod l)", modne(o + v[0], L)), canon(o)], T, bounds="all canonical a")
    H("Scalar::from_bytes_mod_order", "vp_sc_from_bytes_mod_order", [("bytes32", False)], lambda o, v, f: [("out == bytes (mod l)", modne(o - v[0], L)), canon(o)], T, bounds="all 2^256 byte strings")
    H("Scalar::from_bytes_mod_order_wide", "vp_sc_from_bytes_mod_order_wide", [("bytes64", False)], lambda o, v, f: [("out == bytes (mod l)", modne(o - v[0], L)), canon(o)], T, bounds="all 2^512 byte strings")
    H("Scalar::from_canonical_bytes", "vp_sc_from_canonical_bytes", [("bytes32", False)],
      lambda o, v, f: [("Some <=> bytes < l", c_or(c_and(eq(f, 1), ge(v[0], L)), c_and(ne(f, 1), lt(v[0], L)))), ("Some(x): x == bytes", c_and(eq(f, 1), ne(o, v[0])))],
      T, out_kind="flag+scalar", bounds="all 2^256 byte strings", reduce_lemma="contract")
    H("Scalar ct_eq", "vp_sc_ct_eq", [("scalar", False), ("scalar", False)],
      lambda o, v, f: [("1 <=> equal bytes", c_or(c_and(eq(f, 1), ne(v[0], v[1])), c_and(ne(f, 1), eq(v[0], v[1]))))], T, out_kind="flag", bounds="all pairs of 32-byte strings")
    for bits, nm in ((8, "u8"), (16, "u16"), (32, "u32"), (64, "u64"), (128, "u128")):
        H("Scalar::from(%s)" % nm, "vp_sc_from_%s" % nm, [(("int", bits), False)], lambda o, v, f: [("out == x", ne(o, v[0]))], T, bounds="all %s" % nm)
    H("Sum of 3", "vp_sc_sum3", [("bytes96", True)], None, T) if False else None
    return tasks
