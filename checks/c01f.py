"""C01, layer F: exponent chains (invert, pow_p58, pow22501), sqrt_ratio_i against RFC 9496 SQRT_RATIO_M1,
invsqrt, batch_invert - executed from the O0 IR with the kernels (layer L) replaced by ring operations."""
from vp.fharness import *
from llsym.fsym import FSym, FE
from llsym.ir import Unsupported

def find_fn(mod, sub):
    c = [n for n in mod.funcs if sub in n]
    if len(c) != 1: raise Unsupported("expected exactly one function matching %s, found %d" % (sub, len(c)))
    return c[0]

class Exp:
    """x^e : element of the monomial domain used for addition-chain checks"""
    def __init__(self, e): self.e = e

class ExpSym(FSym):
    """field elements are powers of one symbolic x: mul adds exponents, square doubles, pow2k(k) shifts by k"""
    def get(self, p):
        e = self.regions[p.r].b.get(p.o)
        if e is not None and isinstance(e[0], Exp) and e[1] == 0: return e[0]
        raise Unsupported("exponent-domain operand is not a power of x")
    def put(self, p, v):
        if not isinstance(v, Exp): raise Unsupported("exponent-domain put")
        R = self.regions[p.r]
        for k in range(self.fesize): R.b[p.o + k] = (v, k, self.fesize)
    def binop_fe(self, op, x, y):
        if op != "mul": raise Unsupported("addition in an exponent chain")
        return Exp(x.e + y.e)
    def unop_fe(self, op, x):
        if op != "square": raise Unsupported(op + " in an exponent chain")
        return Exp(2 * x.e)
    def pow2k(self, a):
        k = self.P(a[2])
        if not k.is_const(): raise Unsupported("pow2k with symbolic k")
        self.count("pow2k"); self.put(a[0], Exp(self.get(a[1]).e << k.cval()))

def chain_harness(rep, cfg, modpath, name, fnsub, nout, expected):
    import time
    t0 = time.time()
    rec = dict(harness="%s/%s" % (cfg, name), config=cfg, function=name, goals=[], bounds="all field elements x (monomial domain: value = x^e)")
    try:
        mod = module(modpath)
        it = ExpSym(mod, layout=LAYOUTS[cfg], invert_contract=False, sqrt_contract=False)
        fn = fnsub if fnsub in mod.funcs else find_fn(mod, fnsub)
        inp = it.new_region("x", it.fesize); it.put(inp, Exp(1))
        out = it.new_region("out", nout * it.fesize)
        it.call(fn, [out, inp])
        es = [it.get(Ptr(out.r, out.o + i * it.fesize)).e for i in range(nout)]
        ok = es == expected
        rec["goals"].append(dict(goal="exponents == %s" % [hex(e) for e in expected], verdict="unsat" if ok else "sat", solver_s=0.0, cases=1, solver_calls=0,
                                 kind="polynomial identity mod p", got=[hex(e) for e in es]))
        rec["status"] = "ok" if ok else "violation"
        rec["ir_steps"] = it.steps; rec["intercepted"] = it.kcalls
        if not ok: rec["why"] = "addition chain computes x^%s" % [hex(e) for e in es]
    except Unsupported as e:
        rec["status"] = "inconclusive"; rec["why"] = "unsupported IR: " + str(e)
    rec["wall_s"] = round(time.time() - t0, 3)
    rep.add(**rec); rep.functions.add(name); rep.configs.add(cfg)

def harnesses(rep, cfg, modpath):
    T = []
    T.append(lambda: chain_harness(rep, cfg, modpath, "fe_invert (x^(p-2))", "vp_fe_invert", 1, [P - 2]))
    T.append(lambda: chain_harness(rep, cfg, modpath, "fe_pow_p58 (x^((p-5)/8))", "7pow_p58", 1, [(P - 5) // 8]))
    T.append(lambda: chain_harness(rep, cfg, modpath, "fe_pow22501 (x^(2^250-1), x^11)", "8pow22501", 2, [2**250 - 1, 11]))

    I = C(fconst.SQRT_M1)
    def b_sqrt(it):
        # pow_p58 as an uninterpreted function of its argument
        pw = {}
        def ic_pow(it2, a, n):
            x = it2.get(a[1]).p; k = fnorm(x).key()
            if k not in pw: pw[k] = it2.sym("pw")
            it2.put(a[0], FE(pw[k]))
        it.intercept.insert(0, (r'::pow_p58$', ic_pow))
        u, v = V("u"), V("v")
        pu = put_point(it, "u", [u]); pv = put_point(it, "v", [v]); out = it.new_region("out", it.fesize)
        c = it.P(it.call("vp_fe_sqrt_ratio_i", [pu, pv, out])).cval() & 1
        r_impl = it.get(out).p
        # RFC 9496 4.2 SQRT_RATIO_M1 over the same abstract values
        v3 = v * v * v; v7 = v3 * v3 * v
        k7 = fnorm(u * v7).key()
        vcs = [("pow_p58 applied exactly once, to u*v^7", list(pw.keys()) == [k7])]
        if k7 not in pw: return vcs
        r = u * v3 * pw[k7]
        check = v * r * r
        def pred(p):
            p = fnorm(p)
            if p.is_zero(): return 1
            kk = min(p.key(), fnorm(-p).key())
            for f in it.facts:
                if f[0] == "eqz" and f[3] == ("eqz", kk): return f[2]
            return None
        cs, fs, fi = pred(check - u), pred(check + u), pred(check + u * I)
        vcs.append(("the three comparisons are check==u, check==-u, check==-u*sqrt(-1)", None not in (cs, fs, fi)))
        if None in (cs, fs, fi): return vcs
        if fs | fi: r = I * r
        ng = [f[2] for f in it.facts if f[0] == "neg" and fnorm(f[1] - r).is_zero()]
        vcs.append(("sign is taken of the candidate root after the sqrt(-1) correction", len(ng) == 1))
        if not ng: return vcs
        if ng[0]: r = -r
        vcs += [("r == RFC 9496 SQRT_RATIO_M1 r", r_impl - r), ("was_square == correct_sign | flipped_sign", c == (cs | fs))]
        return vcs
    T.append(lambda: run_paths(rep, "%s/fe_sqrt_ratio_i vs RFC 9496 SQRT_RATIO_M1" % cfg, cfg, modpath, "vp_fe_sqrt_ratio_i", b_sqrt, sqrt_contract=False))

    def b_invsqrt(it):
        v = V("v"); pv = put_point(it, "v", [v]); out = it.new_region("out", it.fesize)
        c = it.P(it.call("vp_fe_invsqrt", [pv, out])).cval() & 1
        sq = [f for f in it.facts if f[0] == "sqrt"]
        vz = [f for f in it.facts if f[0] == "eqz" and fnorm(f[1] - v).is_zero()]
        if vz and vz[0][2] == 1: return [("invsqrt(0) = (0, 0)", c == 0), ("value", it.get(out).p)]
        return [("invsqrt(v) = sqrt_ratio_i(1, v)", len(sq) == 1 and fnorm(sq[0][1] - ONE).is_zero() and fnorm(sq[0][2] - v).is_zero()),
                ("returns the contract's pair", bool(sq) and c == sq[0][3] and fnorm(it.get(out).p - sq[0][4]).is_zero())]
    T.append(lambda: run_paths(rep, "%s/fe_invsqrt" % cfg, cfg, modpath, "vp_fe_invsqrt", b_invsqrt))

    def mk_batch(n):
        def b(it):
            xs = [V("x%d" % i) for i in range(n)]
            p = put_point(it, "xs", xs) if n else it.new_region("xs", 0)
            it.call("vp_fe_batch_invert", [p, C(n)])
            vcs = []
            for i in range(n):
                o = it.get(Ptr(p.r, p.o + i * it.fesize)).p
                z = [f for f in it.facts if f[0] == "eqz" and fnorm(f[1] - xs[i]).is_zero()]
                if z and z[0][2] == 1: vcs.append(("zero input %d is left unchanged (0)" % i, o))
                else: vcs.append(("out[%d] * x%d == 1" % (i, i), o * xs[i] - ONE))
            return vcs
        return b
    for n in (0, 1, 2, 3):
        T.append(lambda n=n: run_paths(rep, "%s/fe_batch_invert n=%d" % (cfg, n), cfg, modpath, "vp_fe_batch_invert", mk_batch(n)))
    return T
