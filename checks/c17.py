"""C17 - ff/group trait implementations agree with the inherent API and the axioms (feature `group`).
(1) constants: read from the IR (accessors), ground SMT obligations against l;  (2) the hard-coded Tonelli-Shanks
exponent (t-1)/2 passed to ff's helper;  (3) glue at the scalar level (from_repr == from_canonical_bytes for all
2^256 inputs and its vartime twin, invert is None exactly for zero, is_odd, to_repr, square, double,
from_uniform_bytes) and at the field/group level (GroupEncoding == decompress/compress for Edwards and Ristretto,
clear_cofactor == [8]P, Group::{identity, generator, double, is_identity})."""
import time
from vp import build
from vp.lharness import *
from vp.fharness import run_paths, put_point, get_fes, affine_point, ByteString, V, C, ONE, ZERO, fnorm, FE, LAYOUTS, is_zero_mod
from llsym import ir, lsym, fconst, gsym
from llsym.poly import Poly
from checks.c12 import Obl, Reader
from checks import c02s, c03, c06
from checks.c02 import L

def constants(rep, cfg, modpath):
    t0 = time.time()
    rec = dict(harness="%s/ff constants" % cfg, config=cfg, function="PrimeField constants of Scalar", goals=[], bounds="finite")
    try:
        R = Reader(cfg, modpath); O = Obl()
        sc = lambda fn: R.bytes(R.call(fn), 32)
        s = R.it.P(R.call("vp_ff_s")).cval(); nb = R.it.P(R.call("vp_ff_num_bits")).cval(); cap = R.it.P(R.call("vp_ff_capacity")).cval()
        buf = R.it.new_region("modulus", 80); n = R.it.P(R.it.call("vp_ff_modulus", [buf])).cval()
        mod_str = bytes(R.u(buf, i, 1) for i in range(n)).decode()
        O.true("MODULUS string == l", int(mod_str, 16) == L)
        O.true("NUM_BITS == bit length of l", nb == L.bit_length()); O.true("CAPACITY == NUM_BITS - 1", cap == nb - 1)
        O.true("2^S divides l-1 exactly (S = 2)", (L - 1) % (1 << s) == 0 and ((L - 1) >> s) % 2 == 1)
        t = (L - 1) >> s
        g = sc("vp_ff_mult_gen")
        O.eq("TWO_INV * 2 == 1", sc("vp_ff_two_inv") * 2, 1, L)
        O.eq("MULTIPLICATIVE_GENERATOR ^ ((l-1)/2) == -1 (non-residue)", pow(g, (L - 1) // 2, L), L - 1, L)
        O.true("MULTIPLICATIVE_GENERATOR generates: g^((l-1)/q) != 1 for the prime factors q of l-1 that are known small (2)", pow(g, (L - 1) // 2, L) != 1)
        rou = sc("vp_ff_root_of_unity")
        O.eq("ROOT_OF_UNITY == g^t", rou, pow(g, t, L), L)
        O.true("ROOT_OF_UNITY has exact order 2^S", pow(rou, 1 << s, L) == 1 and pow(rou, 1 << (s - 1), L) != 1)
        O.eq("ROOT_OF_UNITY * ROOT_OF_UNITY_INV == 1", rou * sc("vp_ff_root_of_unity_inv"), 1, L)
        O.eq("DELTA == g^(2^S)", sc("vp_ff_delta"), pow(g, 1 << s, L), L)
        O.eq("Field::ZERO == 0", sc("vp_ff_zero"), 0, None); O.eq("Field::ONE == 1", sc("vp_ff_one"), 1, None)
        for nm in ("vp_ff_two_inv", "vp_ff_mult_gen", "vp_ff_root_of_unity", "vp_ff_root_of_unity_inv", "vp_ff_delta"):
            O.true(nm + " is canonical (< l)", sc(nm) < L)
        # Tonelli-Shanks literal
        cap_ = {}
        def ic_ts(it, a, name):
            p = a[2] if len(a) > 2 else a[1]
            cap_["limbs"] = [it.P(it.load(Ptr(p.r, p.o + 8 * i), 8)).cval() for i in range(4)]
            raise StopIteration
        R.it.intercept.append((r'sqrt_tonelli_shanks', ic_ts))
        a = R.it.new_region("a", 32); o = R.it.new_region("o", 32)
        for k in range(32): R.it.store(Ptr(a.r, k), Poly.const(4 if k == 0 else 0), 1)
        try: R.it.call("vp_ff_sqrt", [a, o])
        except StopIteration: pass
        O.true("sqrt passes an exponent to ff::helpers::sqrt_tonelli_shanks", "limbs" in cap_)
        if "limbs" in cap_:
            O.eq("Tonelli-Shanks exponent literal == (t-1)/2", sum(x << (64 * i) for i, x in enumerate(cap_["limbs"])), (t - 1) // 2, None)
        res, dt = O.discharge()
        bad = [(n_, v) for n_, v in res if v != "unsat"]
        rec["goals"] = [dict(goal=n_, verdict=v, solver_s=0.0, cases=1, solver_calls=1, kind="ground SMT") for n_, v in res]
        rec["status"] = "ok" if not bad else "violation"
        if bad: rec["why"] = "relations fail: %s" % [n_ for n_, _ in bad]
    except ir.Unsupported as e:
        rec["status"] = "inconclusive"; rec["why"] = "unsupported IR: " + str(e)
    rec["wall_s"] = round(time.time() - t0, 2)
    rep.add(**rec); rep.functions.add("ff constants"); rep.configs.add(cfg)

def harnesses(rep, cfg, mp, tier):
    T = 120 if tier == "quick" else 600
    tasks = [lambda: constants(rep, cfg, mp)]
    def S(*a, **kw): tasks.append(lambda: c02s.s_harness(rep, cfg, mp, *a, **kw))
    S("PrimeField::from_repr == from_canonical_bytes", "vp_ff_from_repr", [("bytes32", False)],
      lambda o, v, f: [("Some <=> repr < l", c_or(c_and(eq(f, 1), ge(v[0], L)), c_and(ne(f, 1), lt(v[0], L)))), ("Some(x): x == repr", c_and(eq(f, 1), ne(o, v[0])))],
      T, out_kind="flag+scalar", bounds="all 2^256 reprs", reduce_lemma=True)
    S("PrimeField::from_repr_vartime agrees", "vp_ff_from_repr_vartime", [("bytes32", False)],
      lambda o, v, f: [("Some <=> repr < l", c_or(c_and(eq(f, 1), ge(v[0], L)), c_and(ne(f, 1), lt(v[0], L)))), ("Some(x): x == repr", c_and(eq(f, 1), ne(o, v[0])))],
      T, out_kind="flag+scalar", bounds="all 2^256 reprs", reduce_lemma=True, fork=True)
    S("PrimeField::to_repr", "vp_ff_to_repr", [("scalar", False)], lambda o, v, f: [("repr == bytes", ne(o, v[0]))], T, bounds="all scalars")
    S("PrimeField::is_odd", "vp_ff_is_odd", [("scalar", False)], lambda o, v, f: [("is_odd == low bit", modne(v[0] - f, 2))], T, out_kind="flag", bounds="all scalars")
    S("Field::square", "vp_ff_square", [("scalar", True)], lambda o, v, f: [("out == a*a (mod l)", modne(o - v[0] * v[0], L)), ("canonical", ge(o, L))], T, bounds="all canonical scalars")
    S("Field::double", "vp_ff_double", [("scalar", True)], lambda o, v, f: [("out == 2a (mod l)", modne(o - v[0].scale(2), L)), ("canonical", ge(o, L))], T, bounds="all canonical scalars")
    S("FromUniformBytes", "vp_ff_from_uniform_bytes", [("bytes64", False)], lambda o, v, f: [("out == bytes (mod l)", modne(o - v[0], L)), ("canonical", ge(o, L))], T, bounds="all 2^512 inputs")
    # field-level glue: GroupEncoding == decompress / compress
    def F(name, fn, body): tasks.append(lambda: run_paths(rep, "%s/%s" % (cfg, name), cfg, mp, fn, body))
    hs3 = {}; hs6 = {}
    def grab(mod, store):
        import types
        rep2 = Report("x"); lst = mod.harnesses(rep2, cfg, mp)
    # re-use the C03 / C06 bodies by name through small adapters
    def b_ed_from_bytes(it):
        return c03_body(it, "vp_grp_ed_from_bytes")
    from checks.c03 import D as D3
    def c03_body(it, fn):
        s = ByteString(it, "s"); inp = it.new_region("in", 32); s.store(it, inp)
        out = it.new_region("out", 4 * it.fesize)
        ok = it.P(it.call(fn, [inp, out])).cval() & 1
        y = s.low; u, v = y * y - ONE, D3 * y * y + ONE
        sq = [f for f in it.facts if f[0] == "sqrt"]
        uz = [f for f in it.facts if f[0] == "eqz" and fnorm(f[1] - u).is_zero()]
        vcs = []
        if uz and uz[0][2] == 1: exp_ok, r = 1, ZERO
        else:
            vz = [f for f in it.facts if f[0] == "eqz" and fnorm(f[1] - v).is_zero()]
            if vz and vz[0][2] == 1: exp_ok, r = 0, ZERO
            else:
                vcs.append(("square root of ratio is taken of (y^2-1, d y^2+1)", len(sq) == 1 and fnorm(sq[0][1] - u).is_zero() and fnorm(sq[0][2] - v).is_zero()))
                if not sq: return vcs
                exp_ok, r = sq[0][3], sq[0][4]
        vcs.append(("GroupEncoding::from_bytes is Some exactly when decompress succeeds", ok == exp_ok))
        if ok:
            X, Y, Z, Tt = get_fes(it, out, 4)
            top = [f[2] for f in it.facts if f[0] == "bool"]; sign = top[0] if top else 0
            vcs += [("Y == y", Y - y), ("Z == 1", Z - ONE), ("T == X*Y", Tt - X * Y), ("X == (sign ? -r : r)", X - (r.scale(-1) if sign else r))]
        return vcs
    F("GroupEncoding::from_bytes for EdwardsPoint == decompress", "vp_grp_ed_from_bytes", b_ed_from_bytes)
    def b_ed_to_bytes(it):
        p, (x, y, z) = affine_point(it, "p"); out = it.new_region("out", 32)
        it.call("vp_grp_ed_to_bytes", [out, p])
        if any(f[0] == "eqz" and f[2] == 1 for f in it.facts): return []
        cy = [c for c in it.canon if is_zero_mod(c[0] - y, it.rel)]
        vcs = [("to_bytes encodes the affine y", len(cy) == 1)]
        if not cy: return vcs
        ob = [it.ctx.resolve(it.P(it.load(Ptr(out.r, out.o + k), 1))) for k in range(32)]
        ng = [f for f in it.facts if f[0] == "neg" and is_zero_mod(f[1] - x, it.rel)]
        vcs.append(("bytes 0..30 canonical, byte 31 | sign(x)<<7", all((ob[k] - cy[0][1][k]).is_zero() for k in range(31)) and len(ng) == 1 and (ob[31] - cy[0][1][31] - C(128 * ng[0][2])).is_zero()))
        return vcs
    F("GroupEncoding::to_bytes for EdwardsPoint == compress", "vp_grp_ed_to_bytes", b_ed_to_bytes)
    # RistrettoPoint's GroupEncoding::from_bytes re-implements the decoding steps: compared with RFC 9496 Decode on every path, exactly
    # like CompressedRistretto::decompress in C06 (same reference procedure)
    F("GroupEncoding::from_bytes for RistrettoPoint vs RFC 9496 4.3.1", "vp_grp_ris_from_bytes", c06.mk_ris_decode("vp_grp_ris_from_bytes"))
    # group-level glue
    def G(name, fn, body): tasks.append(lambda: c04_g(rep, cfg, mp, name, fn, body))
    from checks.c04 import g_harness
    def c04_g(rep, cfg, mp, name, fn, body): return g_harness(rep, cfg, mp, name, fn, body, "symbolic point")
    def b_cc(it):
        P = it.point("P"); out = it.new_region("out", 4 * it.fs)
        it.call("vp_grp_clear_cofactor", [out, P]); return it.get(out), gsym.G.base("P").scale(8), []
    G("CofactorGroup::clear_cofactor == [8]P", "vp_grp_clear_cofactor", b_cc)
    def b_dbl(it):
        P = it.point("P"); out = it.new_region("out", 4 * it.fs)
        it.call("vp_grp_ed_double", [out, P]); return it.get(out), gsym.G.base("P").scale(2), []
    G("Group::double == [2]P", "vp_grp_ed_double", b_dbl)
    def b_id(it):
        out = it.new_region("out", 4 * it.fs)
        it.call("vp_grp_ed_identity", [out]); return it.get(out), gsym.G(), []
    G("Group::identity", "vp_grp_ed_identity", b_id)
    # torsion-freeness (inherent method, CofactorGroup::is_torsion_free, into_subgroup): the ONLY test performed is whether [l]P is the
    # identity, and its outcome is returned unchanged (both outcomes of the test are executed)
    def tf_harness(name, fn):
        def run_one():
            import time as _t
            from llsym import fconst
            t0 = _t.time()
            rec = dict(harness="%s/%s" % (cfg, name), config=cfg, function=fn, goals=[], bounds="symbolic point; the scalar is the constant l (its radix-16 digits are computed by the reference recoding)")
            status = "ok"
            try:
                for outcome in (1, 0):
                    it = gsym.GSym(module(mp)); tested = []
                    def eqh(it_, a, n, tested=tested, outcome=outcome):
                        tested.append(it_.get(a[0]) - (it_.get(a[1]) if len(a) > 1 and isinstance(a[1], Ptr) else gsym.G())); return Poly.const(outcome)
                    it.intercept.insert(0, (r'^<curve25519_dalek::edwards::EdwardsPoint as subtle::ConstantTimeEq>::ct_eq$', eqh))
                    it.intercept.insert(0, (r'^<T as curve25519_dalek::traits::IsIdentity>::is_identity$', eqh))
                    P = it.point("P")
                    r = it.P(it.call(fn, [P]))
                    okv = r.is_const() and (r.cval() & 1) == outcome
                    okt = len(tested) == 1 and tested[0].eq(gsym.G.base("P").scale(fconst.L))
                    rec["goals"].append(dict(goal="outcome %d of the identity test is returned unchanged" % outcome, verdict="unsat" if okv else "sat", solver_s=0.0, cases=1, solver_calls=0, kind="structural"))
                    rec["goals"].append(dict(goal="exactly one test, on [l]P against the identity (outcome %d)" % outcome, verdict="unsat" if okt else "sat", solver_s=0.0, cases=1, solver_calls=0, kind="polynomial identity"))
                    if not (okv and okt): status = "violation"; rec["why"] = "torsion test is not 'is [l]P the identity': tested %s, returned %r" % ([str(t)[:80] for t in tested], r)
            except ir.Unsupported as e:
                status = "inconclusive"; rec["why"] = "unsupported IR: " + str(e)[:300]
                if "cannot use G(" in str(e):
                    # the code inspects raw coordinates of [l]P instead of testing it against the identity: differential native replay on
                    # the points whose torsion component is each of the eight 8-torsion points
                    ok, det = torsion_replay(cfg, fn)
                    rec["replay"] = det
                    if ok: status = "violation"; rec["reproduced"] = True; rec["why"] = "torsion test inspects coordinates of [l]P and disagrees with '[l]P == O': " + str(det)[:300]
            except PanicReached as e:
                status = "violation"; rec["why"] = "panic reached: " + str(e)[:200]
            rec["status"] = status; rec["wall_s"] = round(_t.time() - t0, 3)
            rep.add(**rec); rep.functions.add(fn); rep.configs.add(cfg)
        tasks.append(run_one)
    tf_harness("EdwardsPoint::is_torsion_free tests [l]P == O", "vp_ed_is_torsion_free")
    tf_harness("CofactorGroup::is_torsion_free tests [l]P == O", "vp_grp_is_torsion_free")
    tf_harness("CofactorGroup::into_subgroup is Some <=> [l]P == O", "vp_grp_into_subgroup_is_some")
    return tasks

def torsion_replay(cfg, fn):
    """native run of the torsion test on B + T for every T in E[8] (and T itself), compared with [l]P == O computed by the specification"""
    from vp import native
    from checks.c04 import compress_py
    P_ = fconst.P; Lq = fconst.L; Bpt = (fconst.BX, fconst.BY)
    # an 8-torsion generator: l * (any point whose l-multiple has order 8)
    T8 = None
    y = 3
    while T8 is None:
        y += 1
        u = (y * y - 1) % P_; v = (fconst.D * y * y + 1) % P_
        x2 = u * pow(v, P_ - 2, P_) % P_
        x = pow(x2, (P_ + 3) // 8, P_)
        if (x * x - x2) % P_ != 0: x = x * pow(2, (P_ - 1) // 4, P_) % P_
        if (x * x - x2) % P_ != 0: continue
        Q = fconst.ed_mul(Lq, (x, y))
        if fconst.ed_mul(4, Q) != (0, 1): T8 = Q
    name = {"vp_grp_is_torsion_free": "grp_is_torsion_free", "vp_grp_into_subgroup_is_some": "grp_into_subgroup_is_some", "vp_ed_is_torsion_free": "ed_is_torsion_free"}[fn]
    pts = []
    for k in range(8):
        T = fconst.ed_mul(k, T8) if k else (0, 1)
        pts.append(("B+%dT" % k, fconst.ed_add(Bpt, T))); pts.append(("%dT" % k, T))
    try: outs = native.run(cfg, [(name, [compress_py(p)]) for _, p in pts])
    except Exception as e: return False, "native runner failed: " + str(e)[:200]
    for (lab, p), got in zip(pts, outs):
        want = 1 if fconst.ed_mul(Lq, p) == (0, 1) else 0
        if isinstance(got, tuple): return True, dict(point=lab, native_result=str(got)[:120])
        if got is None: return False, "native runner does not know " + name
        if got[0] != want: return True, dict(point=lab, compressed=compress_py(p).hex(), native_result=got[0], specification=want)
    return False, "native results agree with [l]P == O on all 16 torsion-shifted points"

def run(tier, seed):
    rep = Report("C17")
    cfgs = ["serial64"] if tier == "quick" else ["serial64", "serial32"]
    for c in cfgs: build.ir(c, "O0", features=["group"])
    tasks = []
    for cfg in cfgs: tasks += harnesses(rep, cfg, build.ir(cfg, "O0", features=["group"]), tier)
    run_tasks(tasks, rep)
    return rep
