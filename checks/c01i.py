"""C01 for the AVX-512 IFMA vector field backend (unstable_avx512 build, nightly toolchain; layer L on the O3 IR).

F51x4Unreduced / F51x4Reduced hold four field elements in radix 2^51: vector i = (a_i, b_i, c_i, d_i) as 64-bit lanes.  The backend
documents no coefficient bounds; the ones used here are the ones its own operations establish: `F51x4Reduced::from` returns
coefficients < 2^51 + 19*2^13, and vpmadd52 reads only the low 52 bits of an operand, so REDUCED operands below 2^52 are required."""
from vp import build
from vp.lharness import *
from llsym.poly import Poly, ZERO

P = P25519
W5 = [51 * i for i in range(5)]
class ILane(Layout):
    def __init__(self, lane):
        super().__init__("F51x4." + lane, 8, W5); self.k = "ABCD".index(lane); self.lane = lane
    def off(self, i): return 32 * i + 8 * self.k
    def size(self): return 160
ILANES = {k: ILane(k) for k in "ABCD"}
RED = [(1 << 51) + 19 * (1 << 13)] * 5          # what From<F51x4Unreduced> for F51x4Reduced establishes

def i4_arg(run, name, bounds):
    p = run.it.new_region(name, 160); vals = {}
    for lane, lay in ILANES.items():
        limbs = []
        for i in range(5):
            vn = "%s%s%d" % (name, lane, i)
            if run.concrete is not None: v = Poly.const(run.concrete[vn])
            elif run.shadow is not None:
                if run.ctx.shadow is None: run.ctx.shadow = {}
                v = run.ctx.input(vn, 0, bounds[i], shadow=run.shadow[vn])
            else: v = run.ctx.input(vn, 0, bounds[i])
            run.it.store(Ptr(p.r, lay.off(i)), v, 8); limbs.append(v)
        run.inputs[name + lane] = (lay, limbs, p); vals[lane] = limbs
    return p, vals

def i_harness(rep, modpath, fn, args, spec, out_bound, T, note=""):
    cfg = "avx512"
    def build_run(concrete=None, shadow=None):
        run = Run(module(modpath)); run.concrete = concrete; run.shadow = shadow
        out = run.it.new_region("out", 160); call_args = [out]; ops = []
        for k, (kind, b) in enumerate(args):
            nm = "xyzwvst"[k]
            if kind == "i4":
                p, vals = i4_arg(run, nm, b); call_args.append(p); ops.append({l: ILANES[l].value(v) for l, v in vals.items()})
            elif kind == "fe51":
                p, limbs = run.arg(nm, FE51, b); call_args.append(p); ops.append(FE51.value(limbs))
            else:
                vn = nm + "0"
                if shadow is not None and run.ctx.shadow is None: run.ctx.shadow = {}
                v = Poly.const(concrete[vn]) if concrete is not None else (run.ctx.input(vn, 0, b, shadow=shadow[vn]) if shadow is not None else run.ctx.input(vn, 0, b))
                run.inputs[nm] = (Layout("u32", 4, [0]), [v], None); call_args.append(v); ops.append(v)
        run.call(fn, call_args)
        goals = []; roots = []
        for lane, lay in ILANES.items():
            o = run.read(out, lay); roots += o
            goals.append(("lane %s: value == spec (mod p)" % lane, modne(lay.value(o) - spec(lane, *ops), P)))
            cc = None
            for i, x in enumerate(o):
                g = Cond("cmp", "gt", x, Poly.const(out_bound[i])); cc = g if cc is None else c_or(cc, g)
            goals.append(("lane %s: every coefficient <= %s" % (lane, out_bound[:1]), cc))
        return run, goals, roots
    run, goals, roots = build_run()
    def replay(env, gname):
        r2, g2, o2 = build_run(concrete=env)
        for (n2, c2) in g2:
            if n2 == gname: return eval_concrete(r2, c2), dict(llsym_concrete_outputs=[x.cval() for x in o2][:12])
        return False, "goal not found"
    return discharge(rep, run, "%s/%s" % (cfg, fn), goals, roots, cfg, fn, "coefficient bounds %s ; all values" % ([a[1] if isinstance(a[1], int) else a[1][:1] for a in args],),
                     timeout_s=T, replay=replay, selftest=build_run, assumptions=[note] if note else [])

def harnesses(rep, modpath, tier):
    T = 180 if tier == "quick" else 900
    tasks = []
    def H(*a, **kw): tasks.append(lambda: i_harness(rep, modpath, *a, **kw))
    in51 = [(1 << 54) - 1] * 5; U = [(1 << 63) - 1] * 5
    H("vp_i_new", [("fe51", in51)] * 4, lambda lane, a, b, c, d: dict(A=a, B=b, C=c, D=d)[lane], in51, T)
    H("vp_i_reduce", [("i4", [(1 << 64) - 1] * 5)], lambda lane, x: x[lane], RED, T)
    H("vp_i_mul", [("i4", RED), ("i4", RED)], lambda lane, x, y: x[lane] * y[lane], U, T)
    H("vp_i_square", [("i4", RED)], lambda lane, x: x[lane] * x[lane], U, T)
    H("vp_i_add", [("i4", [(1 << 62) - 1] * 5), ("i4", [(1 << 62) - 1] * 5)], lambda lane, x, y: x[lane] + y[lane], U, T)
    H("vp_i_negate_lazy", [("i4", RED)], lambda lane, x: -x[lane], [(1 << 56)] * 5, T)
    H("vp_i_diff_sum", [("i4", RED)], lambda lane, x: dict(A=x["B"] - x["A"], B=x["B"] + x["A"], C=x["D"] - x["C"], D=x["D"] + x["C"])[lane], [(1 << 57)] * 5, T)
    H("vp_i_neg", [("i4", RED)], lambda lane, x: -x[lane], RED, T)
    H("vp_i_mul_small", [("i4", RED), ("u32", (1 << 18) - 1), ("u32", (1 << 18) - 1), ("u32", (1 << 18) - 1), ("u32", (1 << 18) - 1)],
      lambda lane, x, s0, s1, s2, s3: x[lane] * dict(A=s0, B=s1, C=s2, D=s3)[lane], U, T)
    return tasks
