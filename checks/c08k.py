"""C08, key derivation as one run (layer G with SHA-512 as an uninterpreted function): RFC 8032 5.1.5.

`SigningKey::from_bytes(seed)` and `ExpandedSecretKey::from(seed)` are executed from the O0 IR of ed25519-dalek linked with its
dependencies.  SHA-512 is intercepted (its input is recorded, its 64 output bytes are fresh symbolic bytes); clamping is real code on
those bytes; `Scalar::from_bytes_mod_order` and `EdwardsPoint::mul_base` / `compress` are their contracts (C02, C04, C03): the reduced
scalar denotes the integer of its argument, mul_base(s) = s*B in the exact group model, compress(P) = the opaque encoding of P.
Decided for ALL seeds and all hash outputs: SHA-512 is fed exactly the 32 seed bytes; the secret scalar is the clamped little-endian
integer of hash bytes 0..31 (bits 0,1,2 and 255 cleared, bit 254 set); the prefix is hash bytes 32..63; the verifying key is
(Encode(s*B), s*B) for that s; the signing key stores the seed unchanged."""
import time, re
from vp import build
from vp.lharness import module, Report, run_tasks
from llsym import gsym, fconst
from llsym.ir import Unsupported
from llsym.gsym import GSym, G
from llsym.poly import Poly, ZERO, ONE
from llsym.lsym import Ptr, PanicReached
from checks.c14 import linked, layout_of

class SVal:
    def __init__(self, p): self.p = p
class Enc:
    def __init__(self, g): self.g = g
class HState:
    def __init__(self): self.inp = []

class KSym(GSym):
    def __init__(self, mod):
        super().__init__(mod); self.max_steps = 50_000_000
        self.hashes = {}; self.hash_inputs = []; self.hbytes = []
        I = self.intercept
        I.insert(0, (r'^<digest::core_api::wrapper::CoreWrapper<T> as digest::Update>::update$', self.h_update))
        I.insert(0, (r'^<D as digest::digest::Digest>::finalize$', self.h_finalize))
        I.insert(0, (r'^curve25519_dalek::scalar::Scalar::from_bytes_mod_order$', self.s_mod_order))
        I.insert(0, (r'^curve25519_dalek::edwards::EdwardsPoint::mul_base$', self.p_mul_base))
        I.insert(0, (r'^curve25519_dalek::edwards::EdwardsPoint::compress$', self.p_compress))
    def cells(self, p, n): return [self.regions[p.r].b.get(p.o + k) for k in range(n)]
    # the running input of a hasher lives IN the hasher object (an HState cell at its first bytes), so that it moves with the object
    # (chain_update / by-value passing are memcpys); updates are intercepted below the generic `impl AsRef<[u8]>` layer, where the data
    # is always a (pointer, length) slice
    def hstate(self, p, create=True):
        R = self.regions[p.r]; e = R.b.get(p.o)
        if e is not None and isinstance(e[0], HState): return e[0]
        if not create: return None
        hs = HState()
        for k in range(8): R.b[p.o + k] = (hs, k, 8)
        return hs
    def h_update(self, it, a, name):
        n = self.P(a[2])
        if not n.is_const(): raise Unsupported("hash update of symbolic length")
        self.hstate(a[0]).inp.extend(self.cells(a[1], n.cval())); return None
    def h_finalize(self, it, a, name):
        hs = self.hstate(a[1], create=False)
        inp = hs.inp if hs is not None else []          # finalize of a hasher that was never updated: the hash of the empty string
        # an uninterpreted FUNCTION: the same input (cell by cell) yields the same output bytes
        def samecells(x, y): return len(x) == len(y) and all((c is not None and d is not None and (c[0] is d[0] and c[1] == d[1] or (isinstance(c[0], Poly) and isinstance(d[0], Poly) and c[0].t == d[0].t and c[1] == d[1]))) for c, d in zip(x, y))
        for j, old in enumerate(self.hash_inputs):
            if samecells(old, inp):
                for k in range(64): self.store(Ptr(a[0].r, a[0].o + k), self.hbytes[j][k], 1)
                self.repeated = getattr(self, "repeated", 0) + 1
                return None
        i = len(self.hash_inputs); self.hash_inputs.append(inp)
        bs = [self.ctx.input("h%d_%d" % (i, k), 0, 255) for k in range(64)]; self.hbytes.append(bs)
        for k in range(64): self.store(Ptr(a[0].r, a[0].o + k), bs[k], 1)
        return None
    def s_mod_order(self, it, a, name):
        v = self.ctx.resolve(self.P(self.load(a[1], 32)))
        obj = SVal(v); R = self.regions[a[0].r]
        for k in range(32): R.b[a[0].o + k] = (obj, k, 32)
        return None
    def p_mul_base(self, it, a, name):
        e = self.regions[a[1].r].b.get(a[1].o)
        if e is None or not isinstance(e[0], SVal): raise Unsupported("mul_base of a scalar that did not come from from_bytes_mod_order")
        return self.put(a[0], G.base("B").scale(e[0].p), 4 * self.fs)
    def p_compress(self, it, a, name):
        obj = Enc(self.get(a[1])); R = self.regions[a[0].r]
        for k in range(32): R.b[a[0].o + k] = (obj, k, 32)
        return None

def clamp_poly(it, hb):
    ctx = it.ctx
    v = sum((b.scale(1 << (8 * k)) for k, b in enumerate(hb[:32])), ZERO)
    return v - ctx.bits(hb[0], 0, 3) - ctx.bits(hb[31], 7, 8).scale(1 << 255) - ctx.bits(hb[31], 6, 7).scale(1 << 254) + Poly.const(1 << 254)

def keygen_harness(rep, paths, which):
    t0 = time.time()
    name = "SigningKey::from_bytes" if which == "sk" else "ExpandedSecretKey::from(&SecretKey)"
    rec = dict(harness="serial64/" + name + " is RFC 8032 5.1.5", config="serial64", function=name, goals=[], bounds="all 2^256 seeds, all SHA-512 outputs (64 symbolic bytes)",
               assumptions=["SHA-512 is a function of its input (uninterpreted)", "Scalar::from_bytes_mod_order, EdwardsPoint::mul_base, compress per their contracts (C02, C04, C03)"])
    def goal(g, ok, kind="structural"): rec["goals"].append(dict(goal=g, verdict="unsat" if ok else "sat", solver_s=0.0, cases=1, solver_calls=0, kind=kind, nontrivial=True))
    try:
        mod = linked(paths)
        lay = layout_of(paths, "vp_layout_keys", 8)
        it = KSym(mod)
        seed = it.new_region("seed", 32); sb = [it.ctx.input("seed%d" % k, 0, 255) for k in range(32)]
        for k in range(32): it.store(Ptr(seed.r, k), sb[k], 1)
        fn = [f for f in mod.funcs if re.search(r"keygen(16vp_ed_from_bytes|12vp_ed_expand)17h", f) and (("from_bytes" in f) == (which == "sk"))][0]
        out = it.new_region("out", lay[0] if which == "sk" else lay[5])
        for k in range(lay[0] if which == "sk" else lay[5]): it.store(Ptr(out.r, k), Poly.const(0), 1)
        it.call(fn, [seed, out])
        same = lambda cs, want: len(cs) == len(want) and all(c is not None and isinstance(c[0], Poly) and c[0].t == w.t for c, w in zip(cs, want))
        goal("SHA-512 is computed exactly once, over exactly the 32 seed bytes", len(it.hash_inputs) == 1 and same(it.hash_inputs[0], sb))
        hb = it.hbytes[0] if it.hbytes else [ZERO] * 64
        s_want = it.ctx.resolve(clamp_poly(it, hb))
        if which == "sk":
            goal("the signing key stores the seed unchanged", same(it.cells(Ptr(out.r, lay[1]), 32), sb))
            vk = lay[2]
            gp = it.get(Ptr(out.r, vk + lay[4]))
            coef = it.ctx.resolve(gp.c.get("B", ZERO))
            goal("verifying_key.point == clamp(h[0..32]) * B  (bits 0,1,2,255 cleared, bit 254 set)", set(gp.c) <= {"B"} and (coef - s_want).is_zero(), kind="polynomial identity over the hash bytes")
            enc = it.regions[out.r].b.get(vk + lay[3])
            goal("verifying_key.compressed == Encode(that point)", enc is not None and isinstance(enc[0], Enc) and enc[0].g.eq(gp))
        else:
            sc = it.regions[out.r].b.get(lay[6])
            goal("expanded.scalar == clamp(h[0..32]) (reduced mod l)", sc is not None and isinstance(sc[0], SVal) and (it.ctx.resolve(sc[0].p) - s_want).is_zero(), kind="polynomial identity over the hash bytes")
            goal("expanded.hash_prefix == h[32..64]", same(it.cells(Ptr(out.r, lay[7]), 32), hb[32:]))
        rec["status"] = "ok" if all(g["verdict"] == "unsat" for g in rec["goals"]) else "violation"
        if rec["status"] != "ok": rec["why"] = [g["goal"] for g in rec["goals"] if g["verdict"] != "unsat"][0]
        rec["ir_steps"] = it.steps
    except Unsupported as e:
        rec["status"] = "inconclusive"; rec["why"] = "unsupported IR: " + str(e)[:400]
    except PanicReached as e:
        rec["status"] = "violation"; rec["why"] = "panic reached: " + str(e)[:200]
    rec["wall_s"] = round(time.time() - t0, 3)
    rep.add(**rec); rep.functions.add(name); rep.configs.add("serial64")

def harnesses(rep, tier):
    paths = build.ir("serial64", "O0", crate="ed25519-dalek", features=["hazmat", "digest", "zeroize"], no_default=True, with_deps=True)
    return [lambda: keygen_harness(rep, paths, "sk"), lambda: keygen_harness(rep, paths, "esk")]

def conversion_harness(rep, paths):
    """C07: the Ed25519 -> X25519 key conversions.  SigningKey::to_scalar_bytes() is H(seed)[0..32] (unclamped), to_scalar() its clamped value,
    VerifyingKey::to_montgomery() is to_montgomery(clamp(H(seed)[0..32]) * B): exactly the X25519 public key that x25519-dalek derives from
    StaticSecret::from(to_scalar_bytes()) (C07 harness 'PublicKey::from(&StaticSecret)': to_montgomery(clamp(bytes) * B))."""
    from checks.c07g import Phi, phi_intercept
    t0 = time.time()
    name = "SigningKey::to_scalar_bytes / to_scalar / VerifyingKey::to_montgomery"
    rec = dict(harness="serial64/Ed25519 -> X25519 conversions: " + name, config="serial64", function=name, goals=[], bounds="all 2^256 seeds, all SHA-512 outputs (64 symbolic bytes)",
               assumptions=["SHA-512 is a function of its input (uninterpreted)", "Scalar::from_bytes_mod_order, EdwardsPoint::mul_base per their contracts (C02, C04)"])
    def goal(g, ok, kind="structural"): rec["goals"].append(dict(goal=g, verdict="unsat" if ok else "sat", solver_s=0.0, cases=1, solver_calls=0, kind=kind, nontrivial=True))
    try:
        mod = linked(paths); it = KSym(mod); phi_intercept(it)
        seed = it.new_region("seed", 32); sb = [it.ctx.input("seed%d" % k, 0, 255) for k in range(32)]
        for k in range(32): it.store(Ptr(seed.r, k), sb[k], 1)
        o1 = it.new_region("scalar_bytes", 32); o2 = it.new_region("scalar", 32); o3 = it.new_region("mont", 32)
        fn = [f for f in mod.funcs if re.search(r"4conv15vp_ed_to_x2551917h", f)][0]
        it.call(fn, [seed, o1, o2, o3])
        same = lambda cs, want: len(cs) == len(want) and all(c is not None and isinstance(c[0], Poly) and c[0].t == w.t for c, w in zip(cs, want))
        goal("every SHA-512 computation is over exactly the 32 seed bytes (one distinct input)", len(it.hash_inputs) == 1 and same(it.hash_inputs[0], sb))
        hb = it.hbytes[0] if it.hbytes else [ZERO] * 64
        a = it.ctx.resolve(clamp_poly(it, hb))
        goal("to_scalar_bytes() == H(seed)[0..32], unclamped", same(it.cells(o1, 32), hb[:32]))
        sc = it.regions[o2.r].b.get(0)
        goal("to_scalar() == clamp(H(seed)[0..32]) (reduced mod l)", sc is not None and isinstance(sc[0], SVal) and (it.ctx.resolve(sc[0].p) - a).is_zero(), kind="polynomial identity over the hash bytes")
        cs = [it.regions[o3.r].b.get(k) for k in range(32)]
        ph = cs[0][0] if cs[0] else None
        okp = isinstance(ph, Phi) and all(c is not None and c[0] is ph and c[1] == k for k, c in enumerate(cs))
        goal("verifying_key().to_montgomery() == to_montgomery(clamp(H(seed)[0..32]) * B): the X25519 public key of StaticSecret::from(to_scalar_bytes())",
             okp and set(ph.g.c) <= {"B"} and (it.ctx.resolve(ph.g.c.get("B", ZERO)) - a).is_zero(), kind="polynomial identity over the hash bytes")
        rec["status"] = "ok" if all(g["verdict"] == "unsat" for g in rec["goals"]) else "violation"
        if rec["status"] != "ok": rec["why"] = [g["goal"] for g in rec["goals"] if g["verdict"] != "unsat"][0]
        rec["ir_steps"] = it.steps
    except Unsupported as e:
        rec["status"] = "inconclusive"; rec["why"] = "unsupported IR: " + str(e)[:400]
    except PanicReached as e:
        rec["status"] = "violation"; rec["why"] = "panic reached: " + str(e)[:200]
    rec["wall_s"] = round(time.time() - t0, 3)
    rep.add(**rec); rep.functions.add(name); rep.configs.add("serial64")

def conversion_harnesses(rep, tier):
    paths = build.ir("serial64", "O0", crate="ed25519-dalek", features=["hazmat", "digest", "zeroize"], no_default=True, with_deps=True)
    return [lambda: conversion_harness(rep, paths)]
