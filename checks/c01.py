"""C01 - field arithmetic is exact arithmetic mod 2^255-19 in every backend (layer L, O3 IR, llsym)."""
import time
from vp import build
from vp import native
from vp.lharness import *
from checks.fieldspec import FIELD
from llsym.poly import Poly

P = P25519

def fe_harness0(rep, cfg, modpath, fn, in_bounds, spec, out_bound, tier, extra_in=None, timeout_s=60, note=""):
    """generic: fn(out, a[, b]) on field elements. in_bounds: list of per-operand limb bounds.
    spec(vals) -> Poly value expected (mod p)."""
    F = FIELD[cfg]; lay = F["layout"]
    def build_run(concrete=None, shadow=None):
        run = Run(module(modpath)); run.concrete = concrete; run.shadow = shadow
        out = run.out("out", lay)
        ops = []
        for k, b in enumerate(in_bounds):
            p, limbs = run.arg("xyz"[k], lay, b)
            ops.append((p, limbs))
        run.call(fn, [out] + [p for p, _ in ops])
        o = run.read(out, lay)
        vals = [lay.value(l) for _, l in ops]
        goals = [("value == spec (mod p)", modne(lay.value(o) - spec(*vals), P))]
        cc = None
        for i, x in enumerate(o):
            g = Cond("cmp", "gt", x, Poly.const(out_bound[i])); cc = g if cc is None else c_or(cc, g)
        goals.append(("every out limb i <= %s" % (out_bound,), cc))
        return run, goals, o
    run, goals, o = build_run()
    def replay(env, gname):
        r2, g2, o2 = build_run(concrete=env)
        for (n2, c2) in g2:
            if n2 == gname: return eval_concrete(r2, c2), dict(llsym_concrete_outputs=[x.cval() for x in o2])
        return False, "goal not found"
    return discharge(rep, run, "%s/%s" % (cfg, fn), goals, o, cfg, fn,
                     "input limbs <= %s ; all values" % (in_bounds,), timeout_s=timeout_s, replay=replay, selftest=build_run, nat=(cfg, fn, lay),
                     assumptions=[note] if note else [])

def run_config(rep, cfg, tier, tasks, flavour="O3"):
    F = FIELD[cfg]; lay = F["layout"]
    modpath = build.ir(cfg, flavour)
    T = 120 if tier == "quick" else 600
    sq2 = [2 * x + 1 for x in F["reduced"]] if cfg.startswith("serial") else F["reduced"]
    def fe_harness(*a, **kw): tasks.append(lambda: fe_harness0(*a, **kw))
    fe_harness(rep, cfg, modpath, "vp_fe_mul", [F.get("mul_in_x", F["mul_in"]), F["mul_in"]], lambda a, b: a * b, F["reduced"], tier, timeout_s=T)
    fe_harness(rep, cfg, modpath, "vp_fe_square", [F["mul_in"]], lambda a: a * a, F["reduced"], tier, timeout_s=T)
    fe_harness(rep, cfg, modpath, "vp_fe_square2", [F["mul_in"]], lambda a: (a * a).scale(2), sq2, tier, timeout_s=T)
    addout = [a + b for a, b in zip(F["add_in"], F["add_in"])] if cfg.startswith("serial") or cfg in ("simd", "avx512") else F["reduced"]
    fe_harness(rep, cfg, modpath, "vp_fe_add", [F["add_in"], F["add_in"]], lambda a, b: a + b, addout, tier, timeout_s=T)
    fe_harness(rep, cfg, modpath, "vp_fe_sub", [F["sub_lhs"], F["sub_rhs"]], lambda a, b: a - b, F["reduced"], tier, timeout_s=T)
    fe_harness(rep, cfg, modpath, "vp_fe_neg", [F["sub_rhs"]], lambda a: -a, F["reduced"], tier, timeout_s=T)
    if not (cfg == "fiat32" and tier == "quick"):
        # fiat32 to_bytes (borrow/cmov chains on 10 limbs) needs > 2 min of solver time: thorough tier only
        tasks.append(lambda: enc_harness(rep, cfg, modpath, tier, 900 if cfg == "fiat32" else T))
    tasks.append(lambda: dec_harness(rep, cfg, modpath, tier, T))

def enc_harness(rep, cfg, modpath, tier, T):
    F = FIELD[cfg]; lay = F["layout"]
    def build_run(concrete=None, shadow=None):
        run = Run(module(modpath)); run.concrete = concrete; run.shadow = shadow
        out = run.out("out", BYTES32)
        p, limbs = run.arg("x", lay, F["enc_in"])
        run.call("vp_fe_as_bytes", [out, p])
        o = run.read(out, BYTES32)
        v = BYTES32.value(o)
        goals = [("bytes == value (mod p)", modne(v - lay.value(limbs), P)),
                 ("bytes < p (canonical)", ge(v, P)),
                 ("bit 255 clear", ge(o[31], 128))]
        return run, goals, o
    run, goals, o = build_run()
    def replay(env, gname):
        r2, g2, o2 = build_run(concrete=env)
        for (n2, c2) in g2:
            if n2 == gname: return eval_concrete(r2, c2), dict(llsym_concrete_outputs=[x.cval() for x in o2])
        return False, "goal not found"
    discharge(rep, run, "%s/vp_fe_as_bytes" % cfg, goals, o, cfg, "vp_fe_as_bytes", "limbs <= %s" % (F["enc_in"],), timeout_s=max(T, 120), replay=replay, selftest=build_run, nat=(cfg, 'vp_fe_as_bytes', BYTES32))

def dec_harness(rep, cfg, modpath, tier, T):
    F = FIELD[cfg]; lay = F["layout"]
    def build_run(concrete=None, shadow=None):
        run = Run(module(modpath)); run.concrete = concrete; run.shadow = shadow
        out = run.out("out", lay)
        p, bs = run.arg("b", BYTES32, 255)
        run.call("vp_fe_from_bytes", [out, p])
        o = run.read(out, lay)
        goals = [("value == bytes mod 2^255", modne(lay.value(o) - BYTES32.value(bs), 2**255))]
        cc = None
        for i, x in enumerate(o):
            g = Cond("cmp", "gt", x, Poly.const(F["decoded"][i])); cc = g if cc is None else c_or(cc, g)
        goals.append(("every limb i <= %s" % (F["decoded"],), cc))
        goals.append(("value < 2^255", ge(lay.value(o), 2**255)))
        return run, goals, o
    run, goals, o = build_run()
    def replay(env, gname):
        r2, g2, o2 = build_run(concrete=env)
        for (n2, c2) in g2:
            if n2 == gname: return eval_concrete(r2, c2), dict(llsym_concrete_outputs=[x.cval() for x in o2])
        return False, "goal not found"
    discharge(rep, run, "%s/vp_fe_from_bytes" % cfg, goals, o, cfg, "vp_fe_from_bytes", "all 2^256 byte strings", timeout_s=T, replay=replay, selftest=build_run, nat=(cfg, "vp_fe_from_bytes", lay))

def run(tier, seed):
    rep = Report("C01")
    cfgs = ["serial64", "serial32"] if tier == "quick" else ["serial64", "serial32", "fiat64", "fiat32"]
    cfgs = ["serial64", "serial32", "fiat64", "fiat32"]
    build.ir_many([dict(config=c, flavour="O3") for c in cfgs])
    for c in cfgs: native.binary(c)
    tasks = []
    for cfg in cfgs:
        run_config(rep, cfg, tier, tasks)
    from checks import c01f
    # the 4-lane AVX2 vector field (simd build): checks/c01v.py
    from checks import c01v
    tasks += c01v.harnesses(rep, build.ir("simd", "O3"), tier)
    # the 4-lane AVX-512 IFMA field (unstable_avx512 build, nightly toolchain): checks/c01i.py
    from checks import c01i
    try: tasks += c01i.harnesses(rep, build.ir("avx512", "O3"), tier)
    except build.BuildError as e: rep.add(harness="avx512/build", config="avx512", function="build", status="inconclusive", why=str(e)[-400:], goals=[], wall_s=0)
    fcfgs = ["serial64", "serial32"] if tier == "quick" else cfgs
    build.ir_many([dict(config=c, flavour="O0") for c in fcfgs])
    for cfg in fcfgs: tasks += c01f.harnesses(rep, cfg, build.ir(cfg, "O0"))
    run_tasks(tasks, rep)
    return rep
