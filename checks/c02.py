"""C02 - scalar arithmetic is exact arithmetic mod l with canonical output (layer L kernels, O3 IR, llsym).

Compositional: `Scalar52/29::sub` is checked once against its contract
      limbs < 2^r, -l <= X - Y < l   ==>   out = X - Y + l*[X<Y],  0 <= out < l, limbs < 2^r
and every other kernel is executed with calls to `sub` replaced by that contract (fresh outputs + the exact
defining equation); the precondition is an obligation at each call site."""
import time
from vp import build
from vp import native
from vp.lharness import *
from llsym.poly import Poly, ZERO

L = ELL
SC = {"serial64": dict(layout=SC52, rb=52, n=5, sub=r'Scalar52(3sub|::sub)'),
      "serial32": dict(layout=SC29, rb=29, n=9, sub=r'Scalar29(3sub|::sub)')}
SC["fiat64"] = SC["serial64"]; SC["fiat32"] = SC["serial32"]; SC["simd"] = SC["serial64"]; SC["avx512"] = SC["serial64"]

class SubContract:
    """interceptor for Scalar::sub: records call sites, returns fresh outputs tied by the exact equation"""
    def __init__(self, run, S, scope="all"):
        self.run, self.S, self.calls, self.scope = run, S, [], scope
    def __call__(self, it, args, name):
        S = self.S; lay = S["layout"]; ctx = it.ctx
        k = len(self.calls)
        X = [it.P(it.load(Ptr(args[1].r, args[1].o + lay.cell * i), lay.cell)) for i in range(lay.n)]
        Y = [it.P(it.load(Ptr(args[2].r, args[2].o + lay.cell * i), lay.cell)) for i in range(lay.n)]
        if self.run.concrete is not None:
            x, y = lay.value(X).cval(), lay.value(Y).cval()
            o = (x - y) % (1 << (S["rb"] * S["n"]))
            if x < y: o = (o + L) % (1 << (S["rb"] * S["n"]))
            for i in range(lay.n):
                it.store(Ptr(args[0].r, args[0].o + lay.cell * i), Poly.const((o >> (S["rb"] * i)) & ((1 << S["rb"]) - 1)), lay.cell)
            self.calls.append(dict(X=X, Y=Y, pre_ok=(-L <= x - y < L)))
            if not (-L <= x - y < L) and getattr(self, "strict", True):
                raise ContractViolation("Scalar::sub called with X - Y = %d outside [-l, l) (X=%d, Y=%d)" % (x - y, x, y))
            return None
        xv, yv = lay.value(X), lay.value(Y)
        sho = [None] * lay.n; shu = None
        if ctx.shadow is not None:
            x, y = ctx.resolve(xv).eval(ctx.shadow), ctx.resolve(yv).eval(ctx.shadow)
            shu = 1 if x < y else 0
            ov_ = x - y + shu * L
            sho = [(ov_ >> (S["rb"] * i)) & ((1 << S["rb"]) - 1) for i in range(lay.n)]
        o = [ctx.input("sub%d_o%d" % (k, i), 0, (1 << S["rb"]) - 1, shadow=sho[i]) for i in range(lay.n)]
        u = ctx.input("sub%d_u" % k, 0, 1, shadow=shu)
        # exact equation: val(o) = X - Y + l*u ; pivot on limb 0
        rest = ZERO
        for i in range(1, lay.n): rest = rest + o[i].scale(1 << (S["rb"] * i))
        (m0, _), = o[0].t.items()
        ent = (m0[0], xv - yv + u.scale(L) - rest) + (("goal",) if self.scope == "goal" else ())
        ctx.__dict__.setdefault("extra_defs", []).append(ent)
        if self.scope == "goal":
            # the constraint system keeps the outputs free; u is tied to the comparison it stands for
            ctx.side.append(("booldef", "sub%d_u" % k, Cond("cmp", "lt", xv, yv)))
        ov = lay.value(o)
        ctx.side.append(("cond", Cond("and", ge(ov, 0), lt(ov, L))))
        for i in range(lay.n): it.store(Ptr(args[0].r, args[0].o + lay.cell * i), o[i], lay.cell)
        self.calls.append(dict(X=X, Y=Y, xv=xv, yv=yv))
        return None
    def obligations(self):
        """precondition at every call site (as violated-conditions)"""
        out = []
        lay = self.S["layout"]
        for k, c in enumerate(self.calls):
            d = c["xv"] - c["yv"]
            out.append(("sub call %d precondition -l <= X-Y < l" % k, c_or(lt(d, -L), ge(d, L))))
            cc = None
            for x in c["X"] + c["Y"]:
                g = ge(x, 1 << self.S["rb"]); cc = g if cc is None else c_or(cc, g)
            out.append(("sub call %d operand limbs < 2^r" % k, cc))
        return out

class MontMulContract:
    """interceptor for Scalar::montgomery_mul (an #[inline(never)] callee): limbs < 2^r and a*b < R*l  ==>
       out < l, limbs < 2^r, out = a*b*R^-1 + t*l for an integer t (i.e. out*R == a*b mod l).
       Established in the same run by the harness <cfg>/vp_us_montgomery_mul."""
    def __init__(self, run, S):
        self.run, self.S, self.calls = run, S, []
    def __call__(self, it, args, name):
        S = self.S; lay = S["layout"]; ctx = it.ctx; rb = S["rb"]; n = S["n"]
        R = 1 << (rb * n); Rinv = pow(R, -1, L)
        k = len(self.calls)
        A = [it.P(it.load(Ptr(args[1].r, args[1].o + lay.cell * i), lay.cell)) for i in range(n)]
        B = [it.P(it.load(Ptr(args[2].r, args[2].o + lay.cell * i), lay.cell)) for i in range(n)]
        av, bv = lay.value(A), lay.value(B)
        if self.run.concrete is not None:
            a, b = av.cval(), bv.cval()
            o = (a * b * Rinv) % L
            for i in range(n):
                it.store(Ptr(args[0].r, args[0].o + lay.cell * i), Poly.const((o >> (rb * i)) & ((1 << rb) - 1)), lay.cell)
            self.calls.append(dict(pre_ok=(a * b < R * L)))
            return None
        sho = [None] * n; sht = None
        if ctx.shadow is not None:
            a_, b_ = ctx.resolve(av).eval(ctx.shadow), ctx.resolve(bv).eval(ctx.shadow)
            ov_ = (a_ * b_ * Rinv) % L
            sht = (ov_ - a_ * b_ * Rinv) // L
            sho = [(ov_ >> (rb * i)) & ((1 << rb) - 1) for i in range(n)]
        o = [ctx.input("mm%d_o%d" % (k, i), 0, (1 << rb) - 1, shadow=sho[i]) for i in range(n)]
        plo, phi = ctx.interval(av * bv)
        t = ctx.input("mm%d_t" % k, -((phi * Rinv) // L) - 1, 0, shadow=sht)
        rest = ZERO
        for i in range(1, n): rest = rest + o[i].scale(1 << (rb * i))
        (m0, _), = o[0].t.items()
        # used as a rewrite rule for goals modulo l only; the constraint system keeps o free with 0 <= val(o) < l
        ctx.__dict__.setdefault("extra_defs", []).append((m0[0], (av * bv).scale(Rinv) + t.scale(L) - rest, "goal"))
        ov = lay.value(o)
        ctx.side.append(("cond", Cond("and", ge(ov, 0), lt(ov, L))))
        for i in range(n): it.store(Ptr(args[0].r, args[0].o + lay.cell * i), o[i], lay.cell)
        self.calls.append(dict(A=A, B=B, av=av, bv=bv))
        return None
    def obligations(self):
        out = []
        S = self.S; R = 1 << (S["rb"] * S["n"])
        for k, c in enumerate(self.calls):
            out.append(("montgomery_mul call %d precondition a*b < R*l" % k, ge(c["av"] * c["bv"], R * L)))
            cc = None
            for x in c["A"] + c["B"]:
                g = ge(x, 1 << S["rb"]); cc = g if cc is None else c_or(cc, g)
            out.append(("montgomery_mul call %d operand limbs < 2^r" % k, cc))
        return out

def mk(rep, cfg, modpath, fn, nargs, in_tops, assume_lt, goal_fn, T, use_contract=True, extra_assume=None, bounds_note=""):
    S = SC[cfg]; lay = S["layout"]; rb = S["rb"]; n = S["n"]
    def build_run(concrete=None, shadow=None):
        holder = {}
        run = Run(module(modpath)); run.concrete = concrete; run.shadow = shadow
        sc = SubContract(run, S)
        if use_contract: run.it.intercept = [(S["sub"], sc)]
        out = run.out("out", lay)
        ops = []
        for k in range(nargs):
            b = [(1 << rb) - 1] * n
            if in_tops[k] is not None: b[n - 1] = in_tops[k] - 1
            p, limbs = run.arg("ab"[k], lay, b); ops.append((p, limbs))
            if assume_lt and concrete is None: run.assume(lt(lay.value(limbs), assume_lt))
        vals = [lay.value(l) for _, l in ops]
        if extra_assume and concrete is None:
            for c in extra_assume(vals): run.assume(c)
        run.call(fn, [out] + [p for p, _ in ops])
        o = run.read(out, lay)
        goals = list(goal_fn(lay.value(o), vals, o))
        if use_contract and concrete is None: goals += sc.obligations()
        if use_contract and concrete is not None:
            for k, c in enumerate(sc.calls): goals.append(("sub call %d precondition -l <= X-Y < l" % k, Cond("const", not c["pre_ok"])))
        return run, goals, o
    run, goals, o = build_run()
    def replay(env, gname):
        r2, g2, o2 = build_run(concrete=env)
        for (n2, c2) in g2:
            if n2 == gname: return eval_concrete(r2, c2), dict(llsym_concrete_outputs=[x.cval() for x in o2])
        return False, "goal not evaluable concretely: " + gname
    return discharge(rep, run, "%s/%s" % (cfg, fn), goals, o, cfg, fn, bounds_note, timeout_s=T, replay=replay, selftest=build_run, nat=(cfg, fn, lay),
                     assumptions=(["calls to Scalar::sub summarised by its contract (established by harness %s/vp_us_sub in this run)" % cfg] if use_contract else []))

def run_config(rep, cfg, tier, tasks, flavour="O3"):
    S = SC[cfg]; lay = S["layout"]; rb = S["rb"]; n = S["n"]
    modpath = build.ir(cfg, flavour)
    T = 120 if tier == "quick" else 600
    R = 1 << (rb * n)
    top256 = 1 << (256 - rb * (n - 1))
    canon = lambda o: [("out < l", ge(o, L))]
    def limbs_ok(ol):
        c = None
        for x in ol:
            g = ge(x, 1 << rb); c = g if c is None else c_or(c, g)
        return [("every out limb < 2^%d" % rb, c)]
    prodlemma = lambda vals: [le(vals[0] * vals[-1], (2**256 - 1) ** 2)]
    note256 = "all limbs < 2^%d, top limb such that value < 2^256; product bound lemma a*b <= (2^256-1)^2 (monotonicity)" % rb
    # the contract of sub itself (no interception)
    tasks.append(lambda: mk(rep, cfg, modpath, "vp_us_sub", 2, [None, None], None,
        lambda o, v, ol: [("out == X - Y (mod l)", modne(o - v[0] + v[1], L))] + canon(o) + limbs_ok(ol), T, use_contract=False,
        extra_assume=lambda v: [ge(v[0] - v[1], -L), lt(v[0] - v[1], L)], bounds_note="limbs < 2^%d; -l <= X-Y < l" % rb))
    tasks.append(lambda: mk(rep, cfg, modpath, "vp_us_add", 2, [None, None], L,
        lambda o, v, ol: [("out == a + b (mod l)", modne(o - v[0] - v[1], L))] + canon(o) + limbs_ok(ol), T, bounds_note="a, b < l"))
    tasks.append(lambda: mk(rep, cfg, modpath, "vp_us_montgomery_mul", 2, [top256, top256], None,
        lambda o, v, ol: [("out*R == a*b (mod l)", modne(o.scale(R) - v[0] * v[1], L))] + canon(o) + limbs_ok(ol), T, extra_assume=prodlemma, bounds_note=note256))
    tasks.append(lambda: mk(rep, cfg, modpath, "vp_us_montgomery_square", 1, [top256], None,
        lambda o, v, ol: [("out*R == a^2 (mod l)", modne(o.scale(R) - v[0] * v[0], L))] + canon(o) + limbs_ok(ol), T, extra_assume=prodlemma, bounds_note=note256))
    tasks.append(lambda: mk(rep, cfg, modpath, "vp_us_mul", 2, [top256, top256], None,
        lambda o, v, ol: [("out == a*b (mod l)", modne(o.scale(R * R) - (v[0] * v[1]).scale((R * R) % L), L))] + canon(o) + limbs_ok(ol), T, extra_assume=prodlemma, bounds_note=note256))
    tasks.append(lambda: mk(rep, cfg, modpath, "vp_us_square", 1, [top256], None,
        lambda o, v, ol: [("out == a^2 (mod l)", modne(o.scale(R * R) - (v[0] * v[0]).scale((R * R) % L), L))] + canon(o) + limbs_ok(ol), T, extra_assume=prodlemma, bounds_note=note256))
    tasks.append(lambda: mk(rep, cfg, modpath, "vp_us_as_montgomery", 1, [top256], None,
        lambda o, v, ol: [("out == a*R (mod l)", modne(o.scale(R) - v[0].scale((R * R) % L), L))] + canon(o) + limbs_ok(ol), T, bounds_note=note256))
    tasks.append(lambda: mk(rep, cfg, modpath, "vp_us_from_montgomery", 1, [top256], None,
        lambda o, v, ol: [("out*R == a (mod l)", modne(o.scale(R) - v[0], L))] + canon(o) + limbs_ok(ol), T, bounds_note=note256))
    tasks.append(lambda: bytes_harnesses(rep, cfg, modpath, T))

def bytes_harnesses(rep, cfg, modpath, T):
    S = SC[cfg]; lay = S["layout"]; rb = S["rb"]; n = S["n"]
    # from_bytes
    def b1(concrete=None, shadow=None):
        run = Run(module(modpath)); run.concrete = concrete; run.shadow = shadow
        out = run.out("out", lay); p, bs = run.arg("b", BYTES32, 255)
        run.call("vp_us_from_bytes", [out, p]); o = run.read(out, lay)
        goals = [("value(limbs) == value(bytes)", ne(lay.value(o), BYTES32.value(bs)))]
        cc = None
        for x in o:
            g = ge(x, 1 << rb); cc = g if cc is None else c_or(cc, g)
        goals.append(("every limb < 2^%d" % rb, cc))
        return run, goals, o
    def rp(bf):
        def replay(env, gname):
            r2, g2, o2 = bf(concrete=env)
            for (n2, c2) in g2:
                if n2 == gname: return eval_concrete(r2, c2), dict(llsym_concrete_outputs=[x.cval() for x in o2])
            return False, "goal not found"
        return replay
    run, goals, o = b1()
    discharge(rep, run, "%s/vp_us_from_bytes" % cfg, goals, o, cfg, "vp_us_from_bytes", "all 2^256 byte strings", timeout_s=T, replay=rp(b1), selftest=b1, nat=(cfg, 'vp_us_from_bytes', lay))
    # as_bytes
    def b2(concrete=None, shadow=None):
        run = Run(module(modpath)); run.concrete = concrete; run.shadow = shadow
        out = run.out("out", BYTES32)
        b = [(1 << rb) - 1] * n; b[n - 1] = (1 << (256 - rb * (n - 1))) - 1
        p, limbs = run.arg("a", lay, b)
        run.call("vp_us_as_bytes", [out, p]); o = run.read(out, BYTES32)
        goals = [("value(bytes) == value(limbs)", ne(BYTES32.value(o), lay.value(limbs)))]
        return run, goals, o
    run, goals, o = b2()
    discharge(rep, run, "%s/vp_us_as_bytes" % cfg, goals, o, cfg, "vp_us_as_bytes", "limbs < 2^%d, value < 2^256" % rb, timeout_s=T, replay=rp(b2), selftest=b2, nat=(cfg, 'vp_us_as_bytes', BYTES32))
    # from_bytes_wide: 512-bit reduction
    def b3(concrete=None, shadow=None):
        run = Run(module(modpath)); run.concrete = concrete; run.shadow = shadow
        sc = SubContract(run, S); mc = MontMulContract(run, S)
        run.it.intercept = [(S["sub"], sc), (S["sub"].replace("3sub|::sub", "14montgomery_mul|::montgomery_mul"), mc)]
        out = run.out("out", lay); p, bs = run.arg("w", BYTES64, 255)
        run.call("vp_us_from_bytes_wide", [out, p]); o = run.read(out, lay)
        ov = lay.value(o)
        goals = [("out == bytes (mod l)", modne(ov - BYTES64.value(bs), L)), ("out < l", ge(ov, L))]
        if concrete is None: goals += sc.obligations() + mc.obligations()
        else:
            for k, c in enumerate(sc.calls): goals.append(("sub call %d precondition -l <= X-Y < l" % k, Cond("const", not c["pre_ok"])))
            for k, c in enumerate(mc.calls): goals.append(("montgomery_mul call %d precondition a*b < R*l" % k, Cond("const", not c["pre_ok"])))
        return run, goals, o
    run, goals, o = b3()
    discharge(rep, run, "%s/vp_us_from_bytes_wide" % cfg, goals, o, cfg, "vp_us_from_bytes_wide", "all 2^512 byte strings", timeout_s=T, replay=rp(b3), selftest=b3, nat=(cfg, 'vp_us_from_bytes_wide', lay),
              assumptions=["calls to Scalar::sub and Scalar::montgomery_mul summarised by their contracts (established by harnesses %s/vp_us_sub, %s/vp_us_montgomery_mul in this run)" % (cfg, cfg)])

def run(tier, seed):
    rep = Report("C02")
    cfgs = ["serial64", "serial32"]
    build.ir_many([dict(config=c, flavour="O3") for c in cfgs])
    for c in cfgs: native.binary(c)
    tasks = []
    for cfg in cfgs: run_config(rep, cfg, tier, tasks)
    from checks import c02s
    build.ir_many([dict(config=c, flavour="O0") for c in cfgs])
    for cfg in cfgs: tasks += c02s.harnesses(rep, cfg, build.ir(cfg, "O0"), tier)
    # inversion chain, batch inversion, products: layer S (scalars as monomials), checks/c02m.py
    from checks import c02m
    for cfg in cfgs: tasks += c02m.harnesses(rep, cfg, build.ir(cfg, "O0"), tier)
    # hash-to-scalar: Scalar::hash_from_bytes / from_hash with SHA-512 uninterpreted (linked ed25519-dalek IR): checks/c08s.py
    from checks import c08s
    tasks += c08s.hashmap_harnesses(rep, tier, "sc")
    run_tasks(tasks, rep)
    return rep
