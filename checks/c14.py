"""C14 - secret material is erased on drop and from freed heap buffers (llsym memory model on the LLVM IR).

(1) drop glue of SigningKey, ExpandedSecretKey, EphemeralSecret, ReusableSecret, StaticSecret, SharedSecret executed on an
    object whose every byte is a distinct symbolic value: afterwards every byte of the secret fields must be the
    literal 0 (O0 IR and optimised IR: volatile stores survive optimisation);
(2) explicit Zeroize::zeroize for Scalar, points, compressed points, Niels points: scalars -> 0, points -> identity;
(3) heap: in the constant-time Straus multiscalar multiplication and in Scalar::batch_invert, at every __rust_dealloc
    no cell of the freed block may still hold a value that depends on the secret scalars."""
import time, re
from vp import build
from vp.lharness import module, Report, run_tasks, Layout, BYTES32
from llsym import ir, lsym, gsym, smt
from llsym.lsym import Cond, c_or, FALSE
from llsym.ir import Unsupported
from llsym.poly import Poly, ZERO
from llsym.lsym import LSym, Ptr, PanicReached, UNDEF
from checks.c01f import find_fn

def linked(paths):
    m = module(paths[0]) if isinstance(paths, list) else module(paths)
    if isinstance(paths, list):
        for p in paths[1:]: m.link(module(p))
    return m

def sym_object(it, name, size):
    p = it.new_region(name, size)
    vs = []
    for k in range(size):
        v = it.ctx.input("%s_%d" % (name, k), 0, 255); it.store(Ptr(p.r, k), v, 1); vs.append(v)
    return p, vs

def byte_at(it, p, k):
    e = it.regions[p.r].b.get(p.o + k)
    if e is None: return None
    v = e[0]
    if isinstance(v, Poly):
        v = it.ctx.resolve(v)
        if e[2] == 1: return v
        return it.ctx.bits(v, 8 * e[1], 8 * e[1] + 8)
    return v

def erased_goals(it, rec, p, ranges, when):
    """one obligation per secret range: no assignment of the symbolic object bytes leaves a non-zero byte in it"""
    ok_all = True
    allcells = {(off, ln): [byte_at(it, p, k) for k in range(off, off + ln)] for (off, ln, what) in ranges}
    pr = smt.Problem(it.ctx)          # after every goal term exists (byte extraction may introduce cuts)
    for (off, ln, what) in ranges:
        cells = allcells[(off, ln)]
        gname = "%s every byte of %s (offset %d, %d bytes) is 0" % (when, what, off, ln)
        if not all(isinstance(b, Poly) for b in cells):
            rec["goals"].append(dict(goal=gname, verdict="sat", solver_s=0.0, cases=1, solver_calls=0, kind="structural: cell holds no integer (never written / undef)")); ok_all = False; continue
        viol = FALSE
        for b in cells: viol = c_or(viol, Cond("cmp", "ne", b, ZERO))
        v, model, dt, info = pr.check(viol, timeout_s=30)
        g = dict(goal=gname, verdict=v, solver_s=round(dt, 3), cases=info["cases"], solver_calls=info["solver_calls"])
        if v == "sat":
            g["model"] = {k: model[k] for k in sorted(model)[:40]}
            env = {v_: model.get(v_, 0) for v_ in it.ctx.bounds}
            left = [off + i for i, b in enumerate(cells) if it.ctx.resolve(b).eval(env) != 0]
            g["surviving_offsets"] = left[:8]; g["reproduced"] = bool(left)
        if v != "unsat": ok_all = False if v == "sat" else ok_all
        if v not in ("sat", "unsat"): rec["undecided"] = True
        rec["goals"].append(g)
    return ok_all

def find_drop(mod, tymangled):
    """the drop glue of a type: core::ptr::drop_in_place::<T> when the compiler emitted it, otherwise <T as Drop>::drop
    (a type whose fields have no glue of their own: the two coincide); None when the type has no drop code at all"""
    glue = [n for n in mod.funcs if re.search(r"drop_in_place\$LT\$" + tymangled + r"\$GT\$", n)]
    if len(glue) == 1: return glue[0], "drop_in_place"
    imp = [n for n in mod.funcs if re.search(r"\$LT\$" + tymangled + r"\$u20\$as\$u20\$core\.\.ops\.\.drop\.\.Drop\$GT\$4drop", n)]
    if len(imp) == 1: return imp[0], "Drop::drop"
    return None, None

def drop_harness(rep, cfg, crate, paths, flavour, tyname, tymangled, wrapper, size, secret_ranges):
    t0 = time.time()
    rec = dict(harness="%s/%s drop(%s)" % (cfg, flavour, tyname), config=cfg, function="core::ptr::drop_in_place::<%s::%s>" % (crate.replace("-", "_"), tyname), goals=[],
               bounds="object of %d bytes, every byte a distinct symbolic value; %s IR of %s linked with the IR of its dependencies" % (size, flavour, crate))
    try:
        mod = linked(paths)
        it = LSym(mod)
        if wrapper is not None:
            fn = mod.aliases.get(wrapper, wrapper); how = "drop_in_place (through the no_mangle hook)"
            if fn not in mod.funcs: raise Unsupported("hook %s not found" % wrapper)
        else:
            fn, how = find_drop(mod, tymangled)
            if fn is None:
                if flavour == "O0":
                    rec["goals"].append(dict(goal="the type has drop code (drop_in_place glue or a Drop impl)", verdict="sat", solver_s=0.0, cases=1, solver_calls=0, kind="structural"))
                    rec["status"] = "violation"; rec["why"] = "%s has no drop glue in the unoptimised IR although a hook drops a value of it: dropping it erases nothing" % tyname
                    rec["wall_s"] = round(time.time() - t0, 3); rep.add(**rec); return
                raise Unsupported("drop glue of %s was inlined away in the optimised IR" % tyname)
        rec["entry"] = fn; rec["entry_kind"] = how
        p, vs = sym_object(it, "obj", size)
        it.call(fn, [p])
        ok_all = erased_goals(it, rec, p, secret_ranges, "after drop")
        rec["status"] = "violation" if not ok_all else ("inconclusive" if rec.get("undecided") else "ok")
        if not ok_all: rec["why"] = "secret bytes survive drop: " + str([g["goal"] for g in rec["goals"] if g["verdict"] == "sat"])
        elif rec.get("undecided"): rec["why"] = "solver did not decide an erasure goal"
        rec["ir_steps"] = it.steps
    except Unsupported as e:
        rec["status"] = "inconclusive"; rec["why"] = "unsupported IR: " + str(e)
    except PanicReached as e:
        rec["status"] = "inconclusive"; rec["why"] = "panic reached: " + str(e)
    rec["wall_s"] = round(time.time() - t0, 3)
    rep.add(**rec); rep.functions.add(rec["function"]); rep.configs.add(cfg)

def layout_of(paths, fn, n):
    mod = linked(paths); it = LSym(mod)
    out = it.new_region("out", 8 * n)
    f = fn if fn in mod.funcs else find_fn(mod, fn)
    it.call(f, [out])
    return [it.P(it.load(Ptr(out.r, 8 * i), 8)).cval() for i in range(n)]

def zeroize_harness(rep, cfg, path, fn, tyname, size, expect):
    """expect(it, p) -> list of (what, ok)"""
    t0 = time.time()
    rec = dict(harness="%s/zeroize(%s)" % (cfg, tyname), config=cfg, function="<%s as Zeroize>::zeroize" % tyname, goals=[], bounds="every byte symbolic")
    try:
        it = LSym(module(path)); p, vs = sym_object(it, "obj", size)
        it.call(fn, [p])
        res = expect(it, p)
        for what, ok in res: rec["goals"].append(dict(goal=what, verdict="unsat" if ok else "sat", solver_s=0.0, cases=1, solver_calls=0, kind="memory cells are constants"))
        rec["status"] = "ok" if all(ok for _, ok in res) else "violation"
        if rec["status"] != "ok": rec["why"] = str([w for w, ok in res if not ok])
    except Unsupported as e:
        rec["status"] = "inconclusive"; rec["why"] = "unsupported IR: " + str(e)
    rec["wall_s"] = round(time.time() - t0, 3)
    rep.add(**rec); rep.functions.add(rec["function"]); rep.configs.add(cfg)

def const_bytes(it, p, off, n):
    out = []
    for k in range(n):
        b = byte_at(it, p, off + k)
        if not (isinstance(b, Poly) and b.is_const()): return None
        out.append(b.cval())
    return out

def fe_value(it, p, off, cell, weights):
    bs = const_bytes(it, p, off, cell * len(weights))
    if bs is None: return None
    return sum(int.from_bytes(bytes(bs[cell * i: cell * i + cell]), "little") << w for i, w in enumerate(weights)) % (2**255 - 19)

def heap_straus(rep, cfg, path, n, backend=None):
    """constant-time Straus: at every dealloc no freed cell may hold a digit of a secret scalar"""
    t0 = time.time()
    rec = dict(harness="%s/heap EdwardsPoint::multiscalar_mul n=%d" % (cfg + ("+" + backend if backend else ""), n), config=cfg, function="EdwardsPoint::multiscalar_mul -> serial::scalar_mul::straus::Straus::multiscalar_mul", goals=[],
               bounds="n = %d points; all digits of %s symbolic" % (n, "all scalars" if n <= 8 else "scalars 0 and 1 (the other scalars are the public constant 0)"))
    try:
        it = gsym.GSym(module(path))
        if backend:
            from checks.c04 import force_backend
            force_backend(it, backend)
        freed = []
        def on_dealloc(p, args):
            R = it.regions[p.r]
            dirty = [o for o, e in R.b.items() if isinstance(e[0], gsym.SDigit) or (isinstance(e[0], Poly) and not it.ctx.resolve(e[0]).is_const())]
            kind = "digits" if any(isinstance(e[0], (gsym.SDigit,)) or (isinstance(e[0], Poly)) for e in R.b.values()) and not any(isinstance(e[0], gsym.G) for e in R.b.values()) else "points"
            freed.append((p.r, R.size, len(dirty), kind))
        it.on_dealloc = on_dealloc
        out = it.new_region("out", 4 * it.fs); sc = it.new_region("scalars", 32 * n); pts = it.new_region("points", 4 * it.fs * n)
        nsym = n if n <= 8 else 2       # large batches: two secret scalars with all digits symbolic, the others public zeros (same code path, same buffers)
        for i in range(n):
            if i < nsym:
                so = gsym.ScalarObj("s%d" % i)
                for k in range(32): it.regions[sc.r].b[32 * i + k] = (so, k, 32)
            else:
                for k in range(32): it.store(Ptr(sc.r, 32 * i + k), Poly.const(0), 1)
            it.put(Ptr(pts.r, 4 * it.fs * i), gsym.G.base("P%d" % i), 4 * it.fs)
        it.call("vp_g_multiscalar_mul", [out, sc, Poly.const(n), pts, Poly.const(n)])
        nd = [f for f in freed if f[3] == "digits"]
        rec["goals"].append(dict(goal="the digit buffer is freed (a heap block that held only scalar digits)", verdict="unsat" if nd else "sat", solver_s=0.0, cases=1, solver_calls=0, kind="structural"))
        for r, size, dirty, kind in freed:
            rec["goals"].append(dict(goal="freed block %s (%s bytes, %s): no cell depends on a secret scalar" % (r, size, kind), verdict="unsat" if dirty == 0 else "sat", solver_s=0.0, cases=1, solver_calls=0,
                                     kind="memory cells are secret-independent", dirty_cells=dirty, nontrivial=True))
        if backend:
            vec = [c for c in it.calls if "vector" in c and "scalar_mul" in c]
            rec["goals"].append(dict(goal="the %s vector copy of Straus was the one executed" % backend, verdict="unsat" if vec else "sat", solver_s=0.0, cases=1, solver_calls=0, kind="structural"))
        bad = [g for g in rec["goals"] if g["verdict"] != "unsat"]
        rec["status"] = "ok" if not bad else "violation"
        if bad: rec["why"] = bad[0]["goal"]
        rec["ir_steps"] = it.steps
    except Unsupported as e:
        rec["status"] = "inconclusive"; rec["why"] = "unsupported IR: " + str(e)
    rec["wall_s"] = round(time.time() - t0, 3)
    rep.add(**rec); rep.functions.add(rec["function"]); rep.configs.add(cfg)

L_ORDER = 2**252 + 27742317777372353535851937790883648493

def heap_batch_invert(rep, cfg, path, n, S):
    """Scalar::batch_invert: the scalar kernels are summarised as 'result = some value depending on the operands'
    (fresh symbolic limbs; exact value when every operand limb is a constant), so every non-constant cell is
    potentially secret-dependent; at every dealloc the freed block must hold constants only.  Data-dependent two-way branches (the
    constant-time code has none; an early exit on a secret-derived test would be one) are explored both ways: with havoc summaries
    both outcomes are taken to be possible (all secret values, zero included, are in the property's domain)."""
    from llsym.lsym import c_not
    t0 = time.time()
    rec = dict(harness="%s/heap Scalar::batch_invert n=%d" % (cfg, n), config=cfg, function="scalar::Scalar::batch_invert", goals=[],
               bounds="n = %d scalars, every byte symbolic (canonical or not, zero or not); every outcome of every data-dependent branch (at most 16 paths)" % n,
               assumptions=["Scalar kernels (mul, square, montgomery_mul, montgomery_square, as_montgomery, from_montgomery, montgomery_invert) havoc their output (fresh limbs) unless all operand limbs are constants: their arithmetic is C02's subject, here only data flow into heap cells matters"])
    try:
        lay = S["layout"]; rb = S["rb"]; nl = S["n"]; R = pow(2, rb * nl, L_ORDER); Ri = pow(R, -1, L_ORDER)
        decisions = []; npaths = 0; steps = 0
        while True:
            npaths += 1
            it = LSym(module(path))
            used = list(decisions); bstate = dict(i=0)
            def brancher(it_, f_, lab, c, ins, used=used, bstate=bstate):
                i = bstate["i"]; bstate["i"] += 1
                if i >= len(used): used.append(0)
                v = used[i]
                it_.ctx.assume.append(c if v else c_not(c))
                return ins[3] if v else ins[4]
            it.allow_symbolic_branch = brancher
            cnt = [0]
            def summar(nops, f, it=it, cnt=cnt):
                def h(it, args, name):
                    ops = []
                    for a in args[1:1 + nops]:
                        ops.append([it.ctx.resolve(it.P(it.load(Ptr(a.r, a.o + lay.cell * i), lay.cell))) for i in range(nl)])
                    if all(x.is_const() for o in ops for x in o):
                        v = f(*[sum(x.cval() << (rb * i) for i, x in enumerate(o)) for o in ops]) % L_ORDER
                        out = [Poly.const((v >> (rb * i)) & ((1 << rb) - 1)) for i in range(nl)]
                    else:
                        cnt[0] += 1
                        out = [it.ctx.input("k%d_%d" % (cnt[0], i), 0, (1 << rb) - 1) for i in range(nl)]
                    for i in range(nl): it.store(Ptr(args[0].r, args[0].o + lay.cell * i), out[i], lay.cell)
                    return None
                return h
            base = S["sub"].split("(")[0]
            it.intercept = [(base + r'(14montgomery_mul|::montgomery_mul)$', summar(2, lambda a, b: a * b * Ri)),
                            (base + r'(17montgomery_square|::montgomery_square)$', summar(1, lambda a: a * a * Ri)),
                            (base + r'(13as_montgomery|::as_montgomery)$', summar(1, lambda a: a * R)),
                            (base + r'(15from_montgomery|::from_montgomery)$', summar(1, lambda a: a * Ri)),
                            (base + r'(3mul|::mul)$', summar(2, lambda a, b: a * b)),
                            (base + r'(6square|::square)$', summar(1, lambda a: a * a)),
                            (r'(17montgomery_invert|::montgomery_invert)$', summar(1, lambda a: pow(a * Ri, -1, L_ORDER) * R if a % L_ORDER else 0))]
            # comparisons of (possibly secret-derived) scalars: exact on constants, otherwise an unknown bit - only the data flow matters here
            def sc_eq(it_, args, name, cnt=cnt):
                bs = [[it_.ctx.resolve(it_.P(it_.load(Ptr(a.r, a.o + k), 1))) for k in range(32)] for a in args[-2:]]
                if all(x.is_const() for b in bs for x in b): return Poly.const(1 if [x.cval() for x in bs[0]] == [x.cval() for x in bs[1]] else 0)
                cnt[0] += 1
                return it_.ctx.input("eq%d" % cnt[0], 0, 1)
            it.intercept += [(r'^<curve25519_dalek::scalar::Scalar as core::cmp::PartialEq>::eq$', sc_eq), (r'^<curve25519_dalek::scalar::Scalar as subtle::ConstantTimeEq>::ct_eq$', sc_eq)]
            freed = []
            def on_dealloc(p, args, it=it, freed=freed):
                Rg = it.regions[p.r]
                dirty = sorted(o for o, e in Rg.b.items() if not (isinstance(e[0], Poly) and it.ctx.resolve(e[0]).is_const()))
                freed.append((p.r, Rg.size, dirty))
            it.on_dealloc = on_dealloc
            out = it.new_region("out", 32); inp = it.new_region("inputs", 32 * n)
            for k in range(32 * n): it.store(Ptr(inp.r, k), it.ctx.input("s%d_%d" % (k // 32, k % 32), 0, 255), 1)
            it.call("vp_sc_batch_invert", [out, inp, Poly.const(n)])
            steps += it.steps
            pd = "" if (npaths == 1 and not used) else "path %s: " % "".join(map(str, used))
            big = [f for f in freed if f[1] >= lay.size() * n]
            rec["goals"].append(dict(goal=pd + "the scratch buffer (>= %d bytes) is freed during the call" % (lay.size() * n), verdict="unsat" if big else "sat", solver_s=0.0, cases=1, solver_calls=0, kind="structural (vacuity guard)"))
            rec["goals"].append(dict(goal=pd + "secret-derived values reached the heap (kernel summaries produced %d symbolic results)" % cnt[0], verdict="unsat" if cnt[0] > 0 else "sat", solver_s=0.0, cases=1, solver_calls=0, kind="structural (vacuity guard)"))
            for r, size, dirty in freed:
                rec["goals"].append(dict(goal=pd + "freed block %s (%s bytes): every cell is a constant (no secret-derived value)" % (r, size), verdict="unsat" if not dirty else "sat", solver_s=0.0, cases=1, solver_calls=0,
                                         kind="memory cells are secret-independent", dirty_offsets=dirty[:8], nontrivial=True))
            d = used[:]
            while d and d[-1] == 1: d.pop()
            if not d or npaths >= 16: break
            d[-1] = 1; decisions = d
        rec["paths"] = npaths
        bad = [g for g in rec["goals"] if g["verdict"] != "unsat"]
        rec["status"] = "ok" if not bad else ("violation" if any("freed block" in g["goal"] for g in bad) else "inconclusive")
        if bad: rec["why"] = ([g for g in bad if "freed block" in g["goal"]] or bad)[0]["goal"]
        rec["ir_steps"] = steps
    except Unsupported as e:
        rec["status"] = "inconclusive"; rec["why"] = "unsupported IR: " + str(e)
    except PanicReached as e:
        rec["status"] = "inconclusive"; rec["why"] = "panic reached: " + str(e)
    rec["wall_s"] = round(time.time() - t0, 3)
    rep.add(**rec); rep.functions.add(rec["function"]); rep.configs.add(cfg)

def run(tier, seed):
    rep = Report("C14")
    cfg = "serial64"
    cell, W = 8, [51 * i for i in range(5)]
    tasks = []
    flavours = ["O0", "O3"] if tier != "quick" else ["O0", "O3"]
    edp = {f: build.ir(cfg, f, crate="ed25519-dalek", features=["hazmat", "digest", "zeroize"], no_default=True, with_deps=True) for f in flavours}
    xp = {f: build.ir(cfg, f, crate="x25519-dalek", features=["static_secrets", "reusable_secrets"], with_deps=True) for f in flavours}
    cp = build.ir(cfg, "O0")
    lsk = layout_of(edp["O0"], "vp_layout_signing_key", 3); lek = layout_of(edp["O0"], "vp_layout_expanded_secret_key", 5)
    for f in flavours:
        tasks.append(lambda f=f: drop_harness(rep, cfg, "ed25519-dalek", edp[f], f, "SigningKey", r"ed25519_dalek\.\.signing\.\.SigningKey", None, lsk[0], [(lsk[1], lsk[2], "secret_key")]))
        tasks.append(lambda f=f: drop_harness(rep, cfg, "ed25519-dalek", edp[f], f, "ExpandedSecretKey", r"ed25519_dalek\.\.hazmat\.\.ExpandedSecretKey", None, lek[0], [(lek[1], lek[2], "scalar"), (lek[3], lek[4], "hash_prefix")]))
        for ty, fn in (("EphemeralSecret", "vp_drop_ephemeral_secret"), ("ReusableSecret", "vp_drop_reusable_secret"), ("StaticSecret", "vp_drop_static_secret"), ("SharedSecret", "vp_drop_shared_secret")):
            tasks.append(lambda f=f, ty=ty, fn=fn: drop_harness(rep, cfg, "x25519-dalek", xp[f], f, ty, None, fn, 32, [(0, 32, "the 32 secret bytes")]))
    zero = lambda n: (lambda it, p: [("all %d bytes are 0" % n, const_bytes(it, p, 0, n) == [0] * n)])
    def ident(nfe, vals):
        def e(it, p):
            got = [fe_value(it, p, i * cell * 5, cell, W) for i in range(nfe)]
            return [("coordinates are the identity %s" % (vals,), got == vals)]
        return e
    tasks.append(lambda: zeroize_harness(rep, cfg, cp, "vp_z_scalar", "Scalar", 32, zero(32)))
    tasks.append(lambda: zeroize_harness(rep, cfg, cp, "vp_ed_zeroize", "EdwardsPoint", 160, ident(4, [0, 1, 1, 0])))
    tasks.append(lambda: zeroize_harness(rep, cfg, cp, "vp_z_ristretto", "RistrettoPoint", 160, ident(4, [0, 1, 1, 0])))
    tasks.append(lambda: zeroize_harness(rep, cfg, cp, "vp_z_compressed_edwards", "CompressedEdwardsY", 32, lambda it, p: [("bytes are the encoding of the identity", const_bytes(it, p, 0, 32) == [1] + [0] * 31)]))
    tasks.append(lambda: zeroize_harness(rep, cfg, cp, "vp_z_compressed_ristretto", "CompressedRistretto", 32, zero(32)))
    tasks.append(lambda: zeroize_harness(rep, cfg, cp, "vp_z_montgomery", "MontgomeryPoint", 32, zero(32)))
    tasks.append(lambda: zeroize_harness(rep, cfg, cp, "vp_z_projective_niels", "ProjectiveNielsPoint (backend-internal cached form: erased, all-zero)", 160, zero(160)))
    tasks.append(lambda: zeroize_harness(rep, cfg, cp, "vp_z_affine_niels", "AffineNielsPoint (backend-internal cached form: erased, all-zero)", 120, zero(120)))
    tasks.append(lambda: zeroize_harness(rep, cfg, cp, "vp_z_fe", "FieldElement", 40, zero(40)))
    for n in ((1, 2, 190) if tier == "quick" else (1, 2, 3, 8, 190, 500, 800)):
        tasks.append(lambda n=n: heap_straus(rep, cfg, cp, n))
    sp = build.ir("simd", "O0")
    for n in ((1, 2) if tier == "quick" else (1, 2, 3, 8, 190)):
        tasks.append(lambda n=n: heap_straus(rep, "simd", sp, n, backend="avx2"))
    from checks.c02 import SC
    for n in ((1, 2, 3, 5) if tier == "quick" else (1, 2, 3, 4, 5, 6, 9)):
        tasks.append(lambda n=n: heap_batch_invert(rep, cfg, cp, n, SC[cfg]))
    run_tasks(tasks, rep)
    rep.level = "model_checking"
    return rep
