"""C16 - serialised forms are the canonical encodings and deserialisation validates (Kani, feature serde).

The real Serialize / Deserialize impls (hand-written visitors and the derived ones) are model-checked against two
model data formats (kani/serde_model.rs): a compact one (tuples are n raw bytes, the input may end early, byte
strings carry an attacker-chosen length) and a self-describing one (sequences of input-controlled length, unconsumed
elements rejected by the format).  For ALL 32-byte values / all inputs up to 40 delivered elements and both formats:
the emitted bytes are exactly the canonical encoding; deserialisation returns Some exactly when the framing is right
and the native decoder accepts, with the native decoder's value."""
from concurrent.futures import ThreadPoolExecutor
from vp.lharness import Report
from vp import kani

STUBS = ["EdwardsPoint::compress, RistrettoPoint::compress, CompressedEdwardsY::decompress, CompressedRistretto::decompress replaced by deterministic bit-mixing model functions shared with the reference (their arithmetic meaning is C03/C06)",
         "Scalar::from_canonical_bytes replaced by the exact predicate bytes < l (bytewise comparison; equivalence with the real function is C02's from_canonical_bytes harness)",
         "SigningKey::from_bytes replaced by a model keeping the seed (SHA-512 + basepoint multiplication are C08's subject)",
         "data formats = kani/serde_model.rs (compact and self-describing models); real bincode / serde_json are external crates"]
B_DE = "all inputs: 72-byte buffer, delivered length 0..=40, both format models"
CURVE = {
 "c16_scalar_serialize_is_canonical_bytes": dict(function="<Scalar as Serialize>::serialize", bounds="all 2^256 byte values", what="emits a 32-tuple equal to as_bytes()"),
 "c16_scalar_deserialize_validates": dict(function="<Scalar as Deserialize>::deserialize", bounds=B_DE, what="Some <=> framing ok and bytes < l; value = bytes"),
 "c16_edwards_serialize_is_compressed_bytes": dict(function="<EdwardsPoint as Serialize>::serialize", bounds="all point representations (model tags)", what="emits a 32-tuple equal to compress()"),
 "c16_edwards_deserialize_validates": dict(function="<EdwardsPoint as Deserialize>::deserialize", bounds=B_DE, what="Some <=> framing ok and decompress() is Some; value = decompress()"),
 "c16_compressed_edwards_roundtrip": dict(function="<CompressedEdwardsY as Serialize/Deserialize>", bounds=B_DE, what="32-tuple of the bytes; accepts exactly 32 elements"),
 "c16_ristretto_serialize_is_compressed_bytes": dict(function="<RistrettoPoint as Serialize>::serialize", bounds="all point representations (model tags)", what="emits a 32-tuple equal to compress()"),
 "c16_ristretto_deserialize_validates": dict(function="<RistrettoPoint as Deserialize>::deserialize", bounds=B_DE, what="Some <=> framing ok and decompress() is Some"),
 "c16_compressed_ristretto_roundtrip": dict(function="<CompressedRistretto as Serialize/Deserialize>", bounds=B_DE, what="32-tuple of the bytes; accepts exactly 32 elements"),
 "c16_montgomery_roundtrip": dict(function="derive(Serialize, Deserialize) for MontgomeryPoint", bounds=B_DE, what="32-tuple of the bytes; accepts exactly 32 elements"),
}
ED = {
 "c16_signing_key_serialize_is_secret_bytes": dict(function="<SigningKey as Serialize>::serialize", bounds="all 2^256 seeds", what="emits a 32-byte string equal to the seed"),
 "c16_signing_key_deserialize_validates": dict(function="<SigningKey as Deserialize>::deserialize (visit_bytes and visit_seq)", bounds=B_DE, what="Some <=> exactly 32 bytes/elements; short and over-long rejected in both formats"),
 "c16_verifying_key_serialize_is_stored_bytes": dict(function="<VerifyingKey as Serialize>::serialize", bounds="all stored encodings x all point representations", what="emits the stored (possibly non-canonical) 32 key bytes, not a re-compression"),
 "c16_verifying_key_deserialize_validates": dict(function="<VerifyingKey as Deserialize>::deserialize (visit_bytes and visit_seq)", bounds=B_DE, what="Some <=> exactly 32 bytes and decompress() is Some; stored bytes = input"),
}
X = {
 "c16_x25519_public_key_roundtrip": dict(function="derive(Serialize, Deserialize) for x25519 PublicKey", bounds=B_DE, what="32-tuple of the bytes; accepts exactly 32 elements"),
 "c16_x25519_static_secret_roundtrip_unclamped": dict(function="derive(Serialize, Deserialize) for x25519 StaticSecret", bounds=B_DE, what="serialises the stored (unclamped) bytes; deserialised secret has exactly the input bytes"),
}
def run(tier, seed):
    rep = Report("C16")
    for d in (CURVE, ED, X):
        for m in d.values(): m["stubs"] = STUBS
    T = 1500 if tier == "quick" else 3600
    jobs = [("curve25519-dalek", CURVE, ["serde", "alloc", "precomputed-tables", "zeroize"]),
            ("ed25519-dalek", ED, ["serde", "hazmat", "digest", "zeroize"]),
            ("x25519-dalek", X, ["serde", "static_secrets", "reusable_secrets", "zeroize"])]
    with ThreadPoolExecutor(3) as ex:
        rs = list(ex.map(lambda j: kani.run(j[0], "serial64", list(j[1]), features=j[2], no_default=True, stubbing=True, timeout_s=T, jobs=5), jobs))
    for (crate, meta, _), res in zip(jobs, rs):
        kani.record(rep, "serial64", res, list(meta), meta)
    return rep
