"""C11 - no limb overflow; checked builds never panic and agree with release builds.
Part 1 (this file, layer L): every field / scalar kernel harness of C01 / C02 is executed on the IR of the
*checked* build (overflow-checks=on, debug-assertions=on): every branch into a panic block (overflow check,
debug_assert!, bounds check) under the kernel's documented limb precondition is an obligation - closed by
interval arithmetic or by the solver - and the functional goals are re-established on that IR, so the
checked build computes the same function as the release build checked by C01/C02."""
from vp import build
from vp import native
from vp.lharness import *
from checks import c01, c02

def run(tier, seed):
    rep = Report("C11")
    cfgs = ["serial64", "serial32"] if tier == "quick" else ["serial64", "serial32", "fiat64", "fiat32"]
    build.ir_many([dict(config=c, flavour="O3chk") for c in cfgs])
    for c in cfgs: native.binary(c)
    tasks = []
    for cfg in cfgs:
        c01.run_config(rep, cfg, tier, tasks, flavour="O3chk")
        if cfg.startswith("serial"): c02.run_config(rep, cfg, tier, tasks, flavour="O3chk")
    # Part 2 (layer G on the checked O0 IR): integer arithmetic on recoded digits in the scalar-multiplication algorithms - the digit
    # negations / index computations of Pippenger for every window width (w = 6, 7, 8 are selected by the number of points),
    # variable-base and Straus; every overflow check and bounds check met with symbolic digits is an obligation
    from checks import c04
    chk = build.ir("serial64", "O0chk")
    heavy = [(2, 2, 6), (800, 1, 8)] if tier == "quick" else [(2, 2, 6), (3, 3, 6), (500, 1, 7), (800, 2, 8)]
    for n, nsym, w in heavy:
        tasks.insert(0, lambda n=n, nsym=nsym, w=w: c04.pippenger_harness(rep, "serial64", chk, "checked build: serial Pippenger n=%d (w=%d), %d symbolic scalar(s)" % (n, w, nsym), "vp_g_pippenger", n, nsym,
                     "%d points, %d with all radix-2^%d digit vectors (all scalars), the others 0; overflow-checks and debug assertions on" % (n, nsym, w)))
    for t in c04.vartime_harnesses(rep, "serial64", chk, "quick"): tasks.append(t)
    # Part 3: the vectorised (AVX2) field code: kernel pre-/post-conditions on coefficient bounds (checks/c01v.py, release IR: vector ops wrap
    # silently, so the bound IS the no-overflow condition) and their re-establishment along the vector point formulas and along arbitrary
    # chains of them (checks/c03v.py: inductive headroom step)
    from checks import c01v, c03v
    tasks += c01v.harnesses(rep, build.ir("simd", "O3"), tier)
    tasks += c03v.harnesses(rep, build.ir("simd", "O0"))
    run_tasks(tasks, rep)
    for it in rep.items: it["harness"] = "chk:" + it["harness"]
    rep.explanation = "panic-edge infeasibility + functional equivalence on the overflow-checked/debug-assert IR"
    return rep
