"""C11 - no limb overflow; checked builds never panic and agree with release builds.
Part 1 (this file, layer L): every field / scalar kernel harness of C01 / C02 is executed on the IR of the
*checked* build (overflow-checks=on, debug-assertions=on): every branch into a panic block (overflow check,
debug_assert!, bounds check) under the kernel's documented limb precondition is an obligation - closed by
interval arithmetic or by the solver - and the functional goals are re-established on that IR, so the
checked build computes the same function as the release build checked by C01/C02."""
from vp import build
from vp import native
from vp.lharness import *
from checks import c01, c02

def run(tier, seed):
    rep = Report("C11")
    cfgs = ["serial64", "serial32"] if tier == "quick" else ["serial64", "serial32", "fiat64", "fiat32"]
    build.ir_many([dict(config=c, flavour="O3chk") for c in cfgs])
    for c in cfgs: native.binary(c)
    tasks = []
    for cfg in cfgs:
        c01.run_config(rep, cfg, tier, tasks, flavour="O3chk")
        if cfg.startswith("serial"): c02.run_config(rep, cfg, tier, tasks, flavour="O3chk")
    run_tasks(tasks, rep)
    for it in rep.items: it["harness"] = "chk:" + it["harness"]
    rep.explanation = "panic-edge infeasibility + functional equivalence on the overflow-checked/debug-assert IR"
    return rep
