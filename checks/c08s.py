"""C08 / C09, signing and verification as whole runs (layer G, SHA-512 uninterpreted) - an independent second decision next to the
Kani harnesses (which use bit-mixing model functions): here the group is the exact model group, scalars are polynomials over symbols.

sign:    SigningKey::from_bytes(seed).sign(M) is executed from the linked O0 IR.  With h0 = H(seed), a = clamp(h0[0..32]), prefix = h0[32..],
         r = H(prefix || M) (reduced), R = r*B, k = H(Enc(R) || Enc(a*B) || M):  the signature is  Enc(r*B) || (k*a + r)  - RFC 8032 5.1.6.
verify:  VerifyingKey::verify(M, sig) with symbolic key point A and signature bytes:  Ok <=> S canonical and Enc(s*B - k*A) equals the R bytes,
         k = H(R bytes || A bytes || M) - RFC 8032 5.1.7 (cofactorless, as documented); verify_strict adds the small-order / decode gates."""
import time, re
from vp import build
from vp.lharness import module, Report
from llsym import gsym, smt
from llsym.ir import Unsupported
from llsym.gsym import GSym, G
from llsym.poly import Poly, ZERO, ONE
from llsym.lsym import Ptr, PanicReached, Cond
from llsym.fsym import Oracle
from checks.c14 import linked, layout_of
from checks.c08k import KSym, SVal, Enc, clamp_poly
from checks.c02 import L

class PSym(KSym):
    """KSym + scalar ring operations, wide reduction, double-base multiplication contract, encoding comparison / decode oracles"""
    def __init__(self, mod, oracle=None):
        super().__init__(mod); self.oracle = oracle or Oracle(); self.wide = []; self.compares = []
        SC = r'curve25519_dalek::scalar::Scalar'
        I = self.intercept
        I.insert(0, (r'^' + SC + r'::from_bytes_mod_order_wide$', self.s_wide))
        I.insert(0, (r'^' + SC + r'::from_canonical_bytes$', self.s_canon))
        I.insert(0, (r'^<&' + SC + r' as core::ops::arith::Mul(<&' + SC + r'>)?>::mul$', lambda it, a, n: self.puts(a[0], self.sval(a[1]) * self.sval(a[2]))))
        I.insert(0, (r'^<&' + SC + r' as core::ops::arith::Add(<&' + SC + r'>)?>::add$', lambda it, a, n: self.puts(a[0], self.sval(a[1]) + self.sval(a[2]))))
        I.insert(0, (r'^curve25519_dalek::edwards::EdwardsPoint::vartime_double_scalar_mul_basepoint$', self.p_dsm))
        I.insert(0, (r'^curve25519_dalek::edwards::CompressedEdwardsY::decompress$', self.p_decompress))
        I.insert(0, (r'^curve25519_dalek::edwards::EdwardsPoint::is_small_order$', self.p_small))
        I.insert(0, (r'^<T as curve25519_dalek::traits::IsIdentity>::is_identity$', self.p_ident))
        I.insert(0, (r'^curve25519_dalek::scalar::Scalar::from_bits$', self.s_from_bits))
        self.branches = []
        def brancher(it_, f_, lab, c, ins):
            from llsym.lsym import c_not
            v = self.oracle.decide(("br", len(self.branches)), "branch %d: %r" % (len(self.branches), c))
            self.branches.append((c, v)); it_.ctx.assume.append(c if v else c_not(c))
            return ins[3] if v else ins[4]
        self.allow_symbolic_branch = brancher
        I.insert(0, (r'^<curve25519_dalek::edwards::CompressedEdwardsY as core::cmp::PartialEq>::eq$', self.c_eq))
        I.insert(0, (r'^<curve25519_dalek::edwards::CompressedEdwardsY as subtle::ConstantTimeEq>::ct_eq$', self.c_eq))
    def sval(self, p):
        e = self.regions[p.r].b.get(p.o)
        if e is not None and isinstance(e[0], SVal) and e[1] == 0: return e[0].p
        return self.ctx.resolve(self.P(self.load(p, 32)))
    def puts(self, p, poly):
        obj = SVal(poly); R = self.regions[p.r]
        for k in range(32): R.b[p.o + k] = (obj, k, 32)
        return None
    def s_wide(self, it, a, name):
        c0 = self.regions[a[1].r].b.get(a[1].o)
        m = re.match(r"h(\d+)_0$", repr(c0[0])) if c0 else None
        if not m: raise Unsupported("from_bytes_mod_order_wide of bytes that are not a SHA-512 output")
        i = int(m.group(1)); self.wide.append(i)
        return self.puts(a[0], self.ctx.input("w%d" % i, 0, L - 1))
    def s_canon(self, it, a, name):
        cells = [self.regions[a[1].r].b.get(a[1].o + k) for k in range(32)]
        ok = self.oracle.decide(("canon",), "S canonical?")
        for k in range(32): self.regions[a[0].r].b[a[0].o + k] = cells[k]
        self.store(Ptr(a[0].r, a[0].o + 32), Poly.const(1 if ok else 0), 1); return None
    def p_dsm(self, it, a, name):
        # vartime_double_scalar_mul_basepoint(a, A, b) = a*A + b*B   (C04)
        return self.put(a[0], self.get(a[2]).scale(self.sval(a[1])) + G.base("B").scale(self.sval(a[3])), 4 * self.fs)
    def p_decompress(self, it, a, name):
        c0 = self.regions[a[1].r].b.get(a[1].o); nm = repr(c0[0]) if c0 else "?"
        ok = self.oracle.decide(("dec", nm), "%s decodes?" % nm)
        self.store(Ptr(a[0].r, a[0].o), Poly.const(1 if ok else 0), 8)
        if ok: self.put(Ptr(a[0].r, a[0].o + 8), G.base("Rdec"), 4 * self.fs)
        return None
    def p_small(self, it, a, name):
        g = self.get(a[0]); v = self.oracle.decide(("small", repr(g)), "%r has small order?" % (g,))
        return Poly.const(1 if v else 0)
    def s_from_bits(self, it, a, name):
        # legacy_compatibility: the 32 signature bytes are taken as they are (top bit masked by from_bits): the integer they denote
        bs = [self.ctx.resolve(self.P(self.load(Ptr(a[1].r, a[1].o + k), 1))) for k in range(32)]
        v = sum((b.scale(1 << (8 * k)) for k, b in enumerate(bs)), ZERO) - self.ctx.bits(bs[31], 7, 8).scale(1 << 255)
        return self.puts(a[0], v)
    def p_ident(self, it, a, name):
        g = self.get(a[0]); v = self.oracle.decide(("ident", repr(g)), "%r is the identity?" % (g,))
        return Poly.const(1 if v else 0)
    def c_eq(self, it, a, name):
        x = self.regions[a[0].r].b.get(a[0].o); y = self.regions[a[1].r].b.get(a[1].o)
        self.compares.append((x[0] if x else None, y[0] if y else None, a[0], a[1]))
        v = self.oracle.decide(("enc_eq", len(self.compares)), "recomputed encoding equals the R bytes?")
        return Poly.const(1 if v else 0)

def _fn(mod, pat): return [f for f in mod.funcs if re.search(pat, f)][0]

def sign_harness(rep, paths):
    t0 = time.time()
    rec = dict(harness="serial64/SigningKey::from_bytes(seed).sign(M) is RFC 8032 5.1.6", config="serial64", function="SigningKey::sign", goals=[],
               bounds="all seeds, all SHA-512 outputs; 3-byte public message",
               assumptions=["SHA-512 uninterpreted", "Scalar ring operations, from_bytes_mod_order(_wide), mul_base, compress per their contracts (C02, C04, C03)"])
    def goal(g, ok, kind="structural"): rec["goals"].append(dict(goal=g, verdict="unsat" if ok else "sat", solver_s=0.0, cases=1, solver_calls=0, kind=kind, nontrivial=True))
    try:
        mod = linked(paths); it = PSym(mod)
        seed = it.new_region("seed", 32); sb = [it.ctx.input("seed%d" % k, 0, 255) for k in range(32)]
        for k in range(32): it.store(Ptr(seed.r, k), sb[k], 1)
        msg = it.new_region("msg", 3); mb = [Poly.const(c) for c in (0x61, 0x62, 0x63)]
        for k in range(3): it.store(Ptr(msg.r, k), mb[k], 1)
        out = it.new_region("sig", 64)
        it.call(_fn(mod, r"2ct10vp_ed_sign17h"), [out, seed, msg, Poly.const(3)])
        same = lambda cs, want: len(cs) == len(want) and all(c is not None and isinstance(c[0], Poly) and c[0].t == w.t for c, w in zip(cs, want))
        H = it.hash_inputs; hb = it.hbytes
        goal("three SHA-512 computations: H(seed), H(prefix || M), H(R || A || M)", len(H) == 3)
        if len(H) == 3:
            goal("H#0 over the seed", same(H[0], sb))
            goal("H#1 over hash_prefix (= H#0[32..64]) || M", same(H[1], hb[0][32:] + mb))
            a = it.ctx.resolve(clamp_poly(it, hb[0])); r = Poly.var("w1"); k = Poly.var("w2")
            encR = H[2][0][0] if H[2] and H[2][0] else None; encA = H[2][32][0] if len(H[2]) > 32 and H[2][32] else None
            okR = isinstance(encR, Enc) and encR.g.eq(G.base("B").scale(r)) and all(c[0] is encR for c in H[2][:32])
            okA = isinstance(encA, Enc) and set(encA.g.c) <= {"B"} and (it.ctx.resolve(encA.g.c.get("B", ZERO)) - a).is_zero() and all(c[0] is encA for c in H[2][32:64])
            goal("H#2 over Enc(r*B) || Enc(a*B) || M with r = H#1 reduced, a = clamp(H#0[0..32])", okR and okA and same(H[2][64:], mb), kind="polynomial identity")
            sig = it.cells(out, 64)
            goal("signature[0..32] == Enc(r*B)", all(c is not None and c[0] is encR for c in sig[:32]))
            sv = sig[32][0] if sig[32] else None
            goal("signature[32..64] == k*a + r  (k = H#2 reduced)", isinstance(sv, SVal) and (it.ctx.resolve(sv.p) - (k * a + r)).is_zero() and all(c[0] is sv for c in sig[32:]), kind="polynomial identity")
            goal("reductions: H#1 and H#2 (and only they) go through from_bytes_mod_order_wide", sorted(it.wide) == [1, 2])
        rec["status"] = "ok" if all(g["verdict"] == "unsat" for g in rec["goals"]) else "violation"
        if rec["status"] != "ok": rec["why"] = [g["goal"] for g in rec["goals"] if g["verdict"] != "unsat"][0]
    except Unsupported as e:
        rec["status"] = "inconclusive"; rec["why"] = "unsupported IR: " + str(e)[:400]
    except PanicReached as e:
        rec["status"] = "violation"; rec["why"] = "panic reached: " + str(e)[:200]
    rec["wall_s"] = round(time.time() - t0, 3)
    rep.add(**rec); rep.functions.add(rec["function"]); rep.configs.add("serial64")

DOM2 = [Poly.const(c) for c in b"SigEd25519 no Ed25519 collisions"]
CTX = [0x63, 0x78]          # a 2-byte public context

def verify_harness(rep, paths, strict, ph=False, legacy=False):
    t0 = time.time()
    nm = ("verify_prehashed_strict" if strict else "verify_prehashed") if ph else ("verify_strict" if strict else "verify")
    rec = dict(harness="serial64%s/VerifyingKey::%s is RFC 8032 5.1.7%s%s" % ("+legacy_compatibility" if legacy else "", nm, " + strict gates" if strict else "", " with only the top three bits of S checked" if legacy else ""), config="serial64", function="VerifyingKey::" + nm, goals=[], paths=0,
               bounds="all key points (formal element A with arbitrary stored encoding), all 2^512 signatures, 3-byte public message; every outcome of the data-dependent decisions",
               assumptions=["SHA-512 uninterpreted", "vartime_double_scalar_mul_basepoint(a, A, b) = a*A + b*B (C04), compress/decompress/is_small_order per contract (C03)"])
    status = "ok"; why = ""
    def goal(g, ok, kind="structural", **kw):
        nonlocal status, why
        rec["goals"].append(dict(dict(goal=g, verdict="unsat" if ok else "sat", solver_s=0.0, cases=1, solver_calls=0, kind=kind, nontrivial=True), **kw))
        if not ok and status == "ok": status = "violation"; why = g
    try:
        mod = linked(paths); lay = layout_of(paths, "vp_layout_verifying_key", 3)
        decisions = []; npaths = 0
        while True:
            npaths += 1
            orc = Oracle(decisions); it = PSym(mod, orc)
            key = it.new_region("key", lay[0]); kb = [it.ctx.input("key%d" % k, 0, 255) for k in range(32)]
            for k in range(32): it.store(Ptr(key.r, lay[1] + k), kb[k], 1)
            it.put(Ptr(key.r, lay[2]), G.base("A"), 4 * it.fs)
            sig = it.new_region("sig", 64); sg = [it.ctx.input("sig%d" % k, 0, 255) for k in range(64)]
            for k in range(64): it.store(Ptr(sig.r, k), sg[k], 1)
            msg = it.new_region("msg", 3); mb = [Poly.const(c) for c in (0x61, 0x62, 0x63)]
            for k in range(3): it.store(Ptr(msg.r, k), mb[k], 1)
            if ph:
                cx = it.new_region("ctx", 2)
                for k in range(2): it.store(Ptr(cx.r, k), Poly.const(CTX[k]), 1)
                hook = "vp_ed_verify_ph_strict" if strict else "vp_ed_verify_ph"
                r = it.P(it.call(_fn(mod, r"2ph%d%s17h" % (len(hook), hook)), [key, sig, msg, Poly.const(3), cx, Poly.const(2)]))
            else:
                r = it.P(it.call(_fn(mod, r"2vf%d%s17h" % (len("vp_ed_" + nm), "vp_ed_" + nm)), [key, sig, msg, Poly.const(3)]))
            got = bool(r.cval() & 1)
            tr = orc.trace; pd = "path %d [%s]" % (npaths, ", ".join("%s=%d" % (d[:28], v) for d, v in tr))
            canon = [v for d, v in tr if d.startswith("S canonical")]
            if legacy:
                # the only scalar check is  S[31] & 0xE0 == 0  (a two-way branch on the signature byte); the canonical decoder must not be consulted
                goal("%s: legacy build never consults the canonical-scalar decoder" % pd, not canon)
                top = [(c, v) for c, v in it.branches]
                okb = len(top) == 1
                if okb:
                    c, v = top[0]
                    # which side of the branch is 'top bits set'?  decide by evaluating the condition's polynomial for sig63 = 0 and sig63 = 0xE0
                    hi3 = it.ctx.bits(sg[63], 5, 8)
                    pr = smt.Problem(it.ctx)
                    va, _, _, _ = pr.check(Cond("cmp", "ne", hi3, ZERO), timeout_s=30, split=False)     # path condition implies top bits clear?
                    vb, _, _, _ = pr.check(Cond("cmp", "eq", hi3, ZERO), timeout_s=30, split=False)     # path condition implies top bits set?
                    clear = va == "unsat"; setb = vb == "unsat"
                    goal("%s: the branch taken is exactly 'S[31] & 0xE0 %s 0'" % (pd, "==" if clear else "!="), clear != setb, kind="QF_LIA", solver_calls=2)
                    canon = [1 if clear else 0]
                else: goal("%s: exactly one data-dependent branch (the top-three-bits test)" % pd, False); canon = [0]
            dec = [v for d, v in tr if "decodes" in d]; small = [v for d, v in tr if "small order" in d]; eqs = [v for d, v in tr if d.startswith("recomputed")]
            want = canon == [1] and eqs == [1] and (not strict or (dec == [1] and not any(small)))
            goal("%s: returns %s" % (pd, "Ok" if want else "Err"), got == want)
            same = lambda cs, wantc: len(cs) == len(wantc) and all(c is not None and isinstance(c[0], Poly) and c[0].t == w.t for c, w in zip(cs, wantc))
            if eqs and strict:
                asked = [d for d, v in tr if "small order" in d]
                goal("%s: before the encoding comparison R was decoded and BOTH the decoded R and A were tested for small order" % pd,
                     dec == [1] and len(asked) == 2 and any("Rdec" in d for d in asked) and any("G(A" in d for d in asked))
            if eqs:
                if not ph:
                    goal("%s: k = H(R bytes || A bytes || M)" % pd, len(it.hash_inputs) == 1 and same(it.hash_inputs[0], sg[:32] + kb + mb))
                else:
                    # Ed25519ph: k = H(dom2(1, ctx) || R || A || PH(M)), PH(M) = H(M)
                    goal("%s: the prehash is H(M); k = H(dom2(1, ctx) || R bytes || A bytes || PH(M))" % pd,
                         len(it.hash_inputs) == 2 and same(it.hash_inputs[0], mb) and
                         same(it.hash_inputs[1], DOM2 + [Poly.const(1), Poly.const(len(CTX))] + [Poly.const(c) for c in CTX] + sg[:32] + kb + it.hbytes[0]))
                x, y, px, py = it.compares[0]
                s = sum((b.scale(1 << (8 * k)) for k, b in enumerate(sg[32:])), ZERO); kk = Poly.var("w1" if ph else "w0")
                if legacy: s = s - it.ctx.bits(sg[63], 7, 8).scale(1 << 255)
                enc = x if isinstance(x, Enc) else (y if isinstance(y, Enc) else None)
                other = py if isinstance(x, Enc) else px
                want_g = G.base("B").scale(s) - G.base("A").scale(kk)
                goal("%s: the compared encoding is Enc(s*B - k*A)" % pd, enc is not None and all(it.ctx.resolve(q).is_zero() for q in (enc.g - want_g).c.values()), kind="polynomial identity")
                goal("%s: it is compared with the 32 R bytes of the signature" % pd, same(it.cells(other, 32), sg[:32]))
            nd = orc.next_decisions(); rec["paths"] = npaths
            if nd is None or status != "ok" or npaths > 64: break
            decisions = nd
        rec["status"] = status
        if why: rec["why"] = why
    except Unsupported as e:
        rec["status"] = "inconclusive"; rec["why"] = "unsupported IR: " + str(e)[:400]
    except PanicReached as e:
        rec["status"] = "violation"; rec["why"] = "panic reached: " + str(e)[:200]
    rec["wall_s"] = round(time.time() - t0, 3)
    rep.add(**rec); rep.functions.add(rec["function"]); rep.configs.add("serial64")

def _paths(): return build.ir("serial64", "O0", crate="ed25519-dalek", features=["batch", "hazmat", "digest", "zeroize"], no_default=True, with_deps=True)
def sign_harnesses(rep, tier):
    p = _paths(); return [lambda: sign_harness(rep, p), lambda: sign_ph_harness(rep, p)]
def _paths_legacy(): return build.ir("serial64", "O0", crate="ed25519-dalek", features=["batch", "hazmat", "digest", "zeroize", "legacy_compatibility"], no_default=True, with_deps=True)
def legacy_harnesses(rep, tier):
    p = _paths_legacy(); return [lambda: verify_harness(rep, p, False, legacy=True), lambda: verify_harness(rep, p, True, legacy=True)]
def verify_harnesses(rep, tier):
    p = _paths(); return [lambda: verify_harness(rep, p, False), lambda: verify_harness(rep, p, True), lambda: verify_harness(rep, p, False, ph=True), lambda: verify_harness(rep, p, True, ph=True)]

def sign_ph_harness(rep, paths):
    """Ed25519ph signing: r = H(dom2 || prefix || PH(M)), k = H(dom2 || Enc(R) || Enc(A) || PH(M))"""
    t0 = time.time()
    rec = dict(harness="serial64/SigningKey::sign_prehashed is RFC 8032 5.1.6 with dom2(1, ctx)", config="serial64", function="SigningKey::sign_prehashed", goals=[],
               bounds="all seeds, all SHA-512 outputs; 3-byte public message, 2-byte public context", assumptions=["SHA-512 uninterpreted", "contracts as for sign"])
    def goal(g, ok, kind="structural"): rec["goals"].append(dict(goal=g, verdict="unsat" if ok else "sat", solver_s=0.0, cases=1, solver_calls=0, kind=kind, nontrivial=True))
    try:
        mod = linked(paths); it = PSym(mod)
        seed = it.new_region("seed", 32); sb = [it.ctx.input("seed%d" % k, 0, 255) for k in range(32)]
        for k in range(32): it.store(Ptr(seed.r, k), sb[k], 1)
        msg = it.new_region("msg", 3); mb = [Poly.const(c) for c in (0x61, 0x62, 0x63)]
        for k in range(3): it.store(Ptr(msg.r, k), mb[k], 1)
        cx = it.new_region("ctx", 2)
        for k in range(2): it.store(Ptr(cx.r, k), Poly.const(CTX[k]), 1)
        out = it.new_region("sig", 64)
        r0 = it.P(it.call(_fn(mod, r"2ph13vp_ed_sign_ph17h"), [seed, msg, Poly.const(3), cx, Poly.const(2), out]))
        same = lambda cs, want: len(cs) == len(want) and all(c is not None and isinstance(c[0], Poly) and c[0].t == w.t for c, w in zip(cs, want))
        dom = DOM2 + [Poly.const(1), Poly.const(len(CTX))] + [Poly.const(c) for c in CTX]
        H = it.hash_inputs; hb = it.hbytes
        goal("returns Ok for a 2-byte context", r0.is_const() and r0.cval() & 1 == 1)
        # order of first occurrence: H(seed) [key derivation], H(M) [prehash], r-hash, k-hash
        goal("four distinct SHA-512 inputs", len(H) == 4)
        if len(H) == 4:
            iseed = [i for i, h in enumerate(H) if same(h, sb)]; iph = [i for i, h in enumerate(H) if same(h, mb)]
            goal("H(seed) and the prehash H(M) are among them", len(iseed) == 1 and len(iph) == 1)
            if iseed and iph:
                ph_out = hb[iph[0]]; h0 = hb[iseed[0]]
                ir = [i for i, h in enumerate(H) if same(h, dom + h0[32:] + ph_out)]
                goal("r = H(dom2(1, ctx) || hash_prefix || PH(M))", len(ir) == 1)
                if ir:
                    a = it.ctx.resolve(clamp_poly(it, h0)); r = Poly.var("w%d" % ir[0])
                    ik = [i for i in range(4) if i not in (iseed[0], iph[0], ir[0])][0]; k = Poly.var("w%d" % ik)
                    hk = H[ik]
                    encR = hk[len(dom)][0] if len(hk) > len(dom) and hk[len(dom)] else None
                    encA = hk[len(dom) + 32][0] if len(hk) > len(dom) + 32 and hk[len(dom) + 32] else None
                    okp = same(hk[:len(dom)], dom) and isinstance(encR, Enc) and encR.g.eq(G.base("B").scale(r)) and isinstance(encA, Enc) and (it.ctx.resolve(encA.g.c.get("B", ZERO)) - a).is_zero() and same(hk[len(dom) + 64:], ph_out)
                    goal("k = H(dom2(1, ctx) || Enc(r*B) || Enc(a*B) || PH(M))", okp, kind="polynomial identity")
                    sig = it.cells(out, 64); sv = sig[32][0] if sig[32] else None
                    goal("signature == Enc(r*B) || (k*a + r)", all(c is not None and c[0] is encR for c in sig[:32]) and isinstance(sv, SVal) and (it.ctx.resolve(sv.p) - (k * a + r)).is_zero(), kind="polynomial identity")
        rec["status"] = "ok" if all(g["verdict"] == "unsat" for g in rec["goals"]) else "violation"
        if rec["status"] != "ok": rec["why"] = [g["goal"] for g in rec["goals"] if g["verdict"] != "unsat"][0]
    except Unsupported as e:
        rec["status"] = "inconclusive"; rec["why"] = "unsupported IR: " + str(e)[:400]
    except PanicReached as e:
        rec["status"] = "violation"; rec["why"] = "panic reached: " + str(e)[:200]
    rec["wall_s"] = round(time.time() - t0, 3)
    rep.add(**rec); rep.functions.add(rec["function"]); rep.configs.add("serial64")

# ---- C08, second sentence: a signature produced by sign is accepted by verify / verify_strict (and the ph variants) under the same key
class RSym(PSym):
    """PSym + the facts that connect signing to verification: scalar-ring results are canonical (C02), Decode(Encode(P)) = P and Encode is
    injective on group elements (C03), c*B has small order iff c = 0 mod l (B has prime order l: C12)"""
    def __init__(self, mod, oracle=None):
        super().__init__(mod, oracle); self.facts = []
    def whole(self, p, cls):
        cs = [self.regions[p.r].b.get(p.o + k) for k in range(32)]
        if cs[0] is not None and isinstance(cs[0][0], cls) and all(c is not None and c[0] is cs[0][0] and c[1] == k for k, c in enumerate(cs)): return cs[0][0]
        return None
    def s_canon(self, it, a, name):
        sv = self.whole(a[1], SVal)
        if sv is None: return super().s_canon(it, a, name)
        self.facts.append("S is a scalar-ring result: canonical")
        for k in range(32): self.regions[a[0].r].b[a[0].o + k] = (sv, k, 32)
        self.store(Ptr(a[0].r, a[0].o + 32), Poly.const(1), 1); return None
    def p_decompress(self, it, a, name):
        e = self.whole(a[1], Enc)
        if e is None: return super().p_decompress(it, a, name)
        self.facts.append("decompress(Enc(P)) = Some(P)")
        self.store(Ptr(a[0].r, a[0].o), Poly.const(1), 8); self.put(Ptr(a[0].r, a[0].o + 8), e.g, 4 * self.fs); return None
    def p_small(self, it, a, name):
        g = self.get(a[0])
        if set(g.c) <= {"B"}:
            c = self.ctx.resolve(g.c.get("B", ZERO))
            v = self.oracle.decide(("zero", repr(c)), "coefficient of B is 0 mod l: %s" % (repr(c)[:60],))
            self.small_q = getattr(self, "small_q", []) + [(c, v)]
            return Poly.const(1 if v else 0)
        return super().p_small(it, a, name)
    def c_eq(self, it, a, name):
        x = self.whole(a[0], Enc); y = self.whole(a[1], Enc)
        if x is None or y is None: return super().c_eq(it, a, name)
        d = x.g - y.g
        self.compares.append((x, y, a[0], a[1]))
        if d.is_zero():
            self.facts.append("the two encodings are of the same group element"); return Poly.const(1)
        # equal iff the difference (a multiple of B) vanishes mod l
        v = self.oracle.decide(("diff0", repr(d)), "difference of the encoded elements is the identity: %s" % (repr(d)[:80],))
        self.diffs = getattr(self, "diffs", []) + [(d, v)]
        return Poly.const(1 if v else 0)

def roundtrip_harness(rep, paths, strict, ph, other=None):
    """other in (None, 'msg', 'ctx'): verify under the same / another message / another context"""
    t0 = time.time()
    nm = ("sign_prehashed -> verify_prehashed" if ph else "sign -> verify") + ("_strict" if strict else "") + ("" if not other else " with another " + other)
    rec = dict(harness="serial64/" + nm, config="serial64", function="SigningKey::sign + VerifyingKey::verify*", goals=[], paths=0,
               bounds="all seeds, all SHA-512 outputs (symbols, equal inputs give equal outputs); 3-byte public messages, 2-byte public contexts; every outcome of the residual decisions",
               assumptions=["SHA-512 uninterpreted: H is a function (same input, same output); different inputs give unrelated symbols", "scalar-ring results are canonical (C02)", "Decode(Encode(P)) = P, Encode injective on group elements (C03)", "c*B has small order iff c = 0 mod l (C12: B has order l)"])
    status = "ok"; why = ""
    def goal(g, ok, kind="structural", **kw):
        nonlocal status, why
        rec["goals"].append(dict(dict(goal=g, verdict="unsat" if ok else "sat", solver_s=0.0, cases=1, solver_calls=0, kind=kind, nontrivial=True), **kw))
        if not ok and status == "ok": status = "violation"; why = g
    try:
        mod = linked(paths); decisions = []; npaths = 0
        while True:
            npaths += 1
            orc = Oracle(decisions); it = RSym(mod, orc)
            seed = it.new_region("seed", 32); sb = [it.ctx.input("seed%d" % k, 0, 255) for k in range(32)]
            for k in range(32): it.store(Ptr(seed.r, k), sb[k], 1)
            def buf(name, bs):
                r_ = it.new_region(name, len(bs))
                for k, c in enumerate(bs): it.store(Ptr(r_.r, k), Poly.const(c), 1)
                return r_
            M = (0x61, 0x62, 0x63); M2 = (0x61, 0x62, 0x64) if other == "msg" else M
            C2 = (0x63, 0x79) if other == "ctx" else tuple(CTX)
            if ph:
                r = it.P(it.call(_fn(mod, r"2rt25vp_ed_sign_then_verify_ph17h"), [seed, buf("m", M), Poly.const(3), buf("c", CTX), Poly.const(2), buf("vm", M2), Poly.const(3), buf("vc", C2), Poly.const(2), Poly.const(1 if strict else 0)]))
            else:
                r = it.P(it.call(_fn(mod, r"2rt22vp_ed_sign_then_verify17h"), [seed, buf("m", M), Poly.const(3), buf("vm", M2), Poly.const(3), Poly.const(1 if strict else 0)]))
            got = bool(r.cval() & 1); tr = orc.trace
            pd = "path %d [%s]" % (npaths, ", ".join("%s=%d" % (d[:60], v) for d, v in tr))
            if tr and any(not d.startswith(("coefficient of B", "difference of")) for d, v in tr):
                goal("%s: no decode / canonicity decision is left open between sign and verify" % pd, False)
            # the decisions that remain are "c = 0 mod l" questions; decide what can be decided
            H = it.hash_inputs; hb = it.hbytes
            a = it.ctx.resolve(clamp_poly(it, hb[0]))
            feasible = True; notes = []
            for c, v in getattr(it, "small_q", []):
                if (c - a).is_zero():
                    # a = clamp(..) in [2^254, 2^255), multiple of 8: never 0 mod l  (solver)
                    kq = it.ctx.input("kq", 0, 8)
                    pr = smt.Problem(it.ctx)
                    vv, model, dt, info = pr.check(Cond("cmp", "eq", a, kq.scale(L)), timeout_s=60, split=False)
                    goal("%s: the clamped secret scalar a is never 0 mod l (so A = a*B never has small order)" % pd, vv == "unsat", kind="QF_LIA", solver_s=round(dt, 3), solver_calls=1)
                    if v: feasible = False
                else:
                    notes.append("r = 0 mod l" if v else "r != 0 mod l")
            for d, v in getattr(it, "diffs", []):
                notes.append("difference %s %s" % (repr(d)[:70], "= O" if v else "!= O"))
            rec["paths"] = npaths
            if feasible:
                r_zero = any(v for c, v in getattr(it, "small_q", []) if not (c - a).is_zero())
                if strict and r_zero:
                    goal("%s: rejected before any comparison (R = r*B is the identity: the documented strict rule; arises only if H(prefix||M) = 0 mod l)" % pd, not got and not it.compares)
                elif other is None:
                    want = True
                    goal("%s: accepted" % pd, got == want)
                    goal("%s: the recomputed element s*B - k*A is identically r*B (k*a + r - k*a = r), no residual comparison" % pd, not getattr(it, "diffs", []) and len(it.compares) == 1, kind="polynomial identity")
                else:
                    # acceptance needs the comparison to succeed although k' is an unrelated symbol
                    dif = getattr(it, "diffs", [])
                    ok_shape = len(dif) == 1 and set(dif[0][0].c) <= {"B"}
                    goal("%s: with another %s the challenge is a different hash value k'; the compared elements differ by (k - k')*a*B" % (pd, other), ok_shape, kind="polynomial identity")
                    if ok_shape:
                        cB = it.ctx.resolve(dif[0][0].c.get("B", ZERO))
                        ws = sorted(v_ for v_ in cB.vars() if v_.startswith("w"))
                        goal("%s: (k - k')*a with two distinct hash symbols %s" % (pd, ws), len(ws) == 2 and not cB.is_zero(), kind="polynomial identity")
                        goal("%s: returns Ok exactly if that difference vanishes (k = k' mod l, a hash collision) %s" % (pd, ""), got == bool(dif[0][1]))
            nd = orc.next_decisions()
            if nd is None or status != "ok" or npaths > 32: break
            decisions = nd
        rec["status"] = status
        if why: rec["why"] = why
    except Unsupported as e:
        rec["status"] = "inconclusive"; rec["why"] = "unsupported IR: " + str(e)[:400]
    except PanicReached as e:
        rec["status"] = "violation"; rec["why"] = "panic reached: " + str(e)[:200]
    rec["wall_s"] = round(time.time() - t0, 3)
    rep.add(**rec); rep.functions.add(rec["function"]); rep.configs.add("serial64")

def roundtrip_harnesses(rep, tier):
    p = _paths(); T = []
    for ph in (False, True):
        for strict in (False, True):
            T.append(lambda ph=ph, strict=strict: roundtrip_harness(rep, p, strict, ph))
        T.append(lambda ph=ph: roundtrip_harness(rep, p, False, ph, "msg"))
    T.append(lambda: roundtrip_harness(rep, p, True, True, "ctx"))
    return T

# ---- C02 / C06: hash-to-scalar and hash-to-group glue (Scalar::hash_from_bytes / from_hash, RistrettoPoint::hash_from_bytes / from_hash)
def hashmap_harness(rep, paths, which, streamed):
    t0 = time.time()
    ty = "Scalar" if which == "sc" else "RistrettoPoint"
    nm = "%s::%s::<Sha512>" % (ty, "from_hash" if streamed else "hash_from_bytes")
    rec = dict(harness="serial64/%s is %s of the digest of the input" % (nm, "from_bytes_mod_order_wide" if which == "sc" else "from_uniform_bytes"), config="serial64", function=nm, goals=[],
               bounds="5 symbolic message bytes (streamed variant: 2 + 3), all SHA-512 outputs (64 symbolic bytes)",
               assumptions=["SHA-512 uninterpreted", "Scalar::from_bytes_mod_order_wide (C02) / RistrettoPoint::from_uniform_bytes (C06) per their own harnesses"])
    def goal(g, ok, kind="structural"): rec["goals"].append(dict(goal=g, verdict="unsat" if ok else "sat", solver_s=0.0, cases=1, solver_calls=0, kind=kind, nontrivial=True))
    try:
        mod = linked(paths); it = PSym(mod); uni = []
        def from_uniform(it_, a, name):
            uni.append(it_.cells(a[1], 64)); return it_.put(a[0], G.base("MAP"), 4 * it_.fs)
        it.intercept.insert(0, (r'^curve25519_dalek::ristretto::RistrettoPoint::from_uniform_bytes$', from_uniform))
        mb = [it.ctx.input("m%d" % k, 0, 255) for k in range(5)]
        def buf(name, bs):
            r_ = it.new_region(name, max(len(bs), 1))
            for k, c in enumerate(bs): it.store(Ptr(r_.r, k), c, 1)
            return r_
        out = it.new_region("out", 32 if which == "sc" else 4 * it.fs)
        hook = {("sc", False): "vp_sc_hash_from_bytes", ("sc", True): "vp_sc_from_hash", ("ris", False): "vp_ris_hash_from_bytes", ("ris", True): "vp_ris_from_hash"}[(which, streamed)]
        fn = _fn(mod, r"8hashmaps%d%s17h" % (len(hook), hook))
        if streamed: it.call(fn, [buf("m1", mb[:2]), Poly.const(2), buf("m2", mb[2:]), Poly.const(3), out])
        else: it.call(fn, [buf("m", mb), Poly.const(5), out])
        same = lambda cs, want: len(cs) == len(want) and all(c is not None and isinstance(c[0], Poly) and c[0].t == w.t for c, w in zip(cs, want))
        goal("SHA-512 is computed once, over exactly the input bytes in order", len(it.hash_inputs) == 1 and same(it.hash_inputs[0], mb))
        if which == "sc":
            sv = it.regions[out.r].b.get(0)
            goal("the result is from_bytes_mod_order_wide of the 64 digest bytes (and of nothing else)", it.wide == [0] and sv is not None and isinstance(sv[0], SVal) and (it.ctx.resolve(sv[0].p) - Poly.var("w0")).is_zero())
        else:
            goal("the result is from_uniform_bytes of the 64 digest bytes", len(uni) == 1 and bool(it.hbytes) and same(uni[0], it.hbytes[0]) and it.get(out).eq(G.base("MAP")))
        rec["status"] = "ok" if all(g["verdict"] == "unsat" for g in rec["goals"]) else "violation"
        if rec["status"] != "ok": rec["why"] = [g["goal"] for g in rec["goals"] if g["verdict"] != "unsat"][0]
    except Unsupported as e:
        rec["status"] = "inconclusive"; rec["why"] = "unsupported IR: " + str(e)[:400]
    except PanicReached as e:
        rec["status"] = "violation"; rec["why"] = "panic reached: " + str(e)[:200]
    rec["wall_s"] = round(time.time() - t0, 3)
    rep.add(**rec); rep.functions.add(nm); rep.configs.add("serial64")

def hashmap_harnesses(rep, tier, which):
    p = _paths(); return [lambda s=s: hashmap_harness(rep, p, which, s) for s in (False, True)]
