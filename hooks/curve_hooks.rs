// Included into curve25519-dalek as `crate::verif_hooks` when built with --cfg curve25519_dalek_verif.
// (a) `vp_*` entry wrappers: stable, unmangled symbols for the LLVM-IR symbolic interpreter (llsym);
// (b) Kani harnesses (cfg(kani)), in kani_curve.rs; (c) replay entry points.
// Nothing here changes the behaviour of the crate.

use crate::field::FieldElement;
use crate::scalar::Scalar;
use subtle::{Choice, ConditionallyNegatable, ConditionallySelectable, ConstantTimeEq};

cfg_if::cfg_if! {
    if #[cfg(curve25519_dalek_backend = "fiat")] {
        #[cfg(curve25519_dalek_bits = "32")]
        pub type US = crate::backend::serial::fiat_u32::scalar::Scalar29;
        #[cfg(curve25519_dalek_bits = "64")]
        pub type US = crate::backend::serial::fiat_u64::scalar::Scalar52;
    } else if #[cfg(curve25519_dalek_bits = "64")] {
        pub type US = crate::backend::serial::u64::scalar::Scalar52;
    } else {
        pub type US = crate::backend::serial::u32::scalar::Scalar29;
    }
}

// ------------------------------------------------------------------ field kernels (layer L)
#[no_mangle] #[inline(never)] pub fn vp_fe_mul(a: &FieldElement, b: &FieldElement) -> FieldElement { a * b }
#[no_mangle] #[inline(never)] pub fn vp_fe_add(a: &FieldElement, b: &FieldElement) -> FieldElement { a + b }
#[no_mangle] #[inline(never)] pub fn vp_fe_sub(a: &FieldElement, b: &FieldElement) -> FieldElement { a - b }
#[no_mangle] #[inline(never)] pub fn vp_fe_neg(a: &FieldElement) -> FieldElement { -a }
#[no_mangle] #[inline(never)] pub fn vp_fe_square(a: &FieldElement) -> FieldElement { a.square() }
#[no_mangle] #[inline(never)] pub fn vp_fe_square2(a: &FieldElement) -> FieldElement { a.square2() }
#[no_mangle] #[inline(never)] pub fn vp_fe_pow2k(a: &FieldElement, k: u32) -> FieldElement { a.pow2k(k) }
#[no_mangle] #[inline(never)] pub fn vp_fe_from_bytes(b: &[u8; 32]) -> FieldElement { FieldElement::from_bytes(b) }
#[no_mangle] #[inline(never)] pub fn vp_fe_as_bytes(a: &FieldElement) -> [u8; 32] { a.as_bytes() }
#[no_mangle] #[inline(never)] pub fn vp_fe_select(a: &FieldElement, b: &FieldElement, c: u8) -> FieldElement {
    FieldElement::conditional_select(a, b, Choice::from(c))
}
#[no_mangle] #[inline(never)] pub fn vp_fe_assign(a: &mut FieldElement, b: &FieldElement, c: u8) {
    a.conditional_assign(b, Choice::from(c))
}
#[no_mangle] #[inline(never)] pub fn vp_fe_swap(a: &mut FieldElement, b: &mut FieldElement, c: u8) {
    FieldElement::conditional_swap(a, b, Choice::from(c))
}
#[no_mangle] #[inline(never)] pub fn vp_fe_cneg(a: &mut FieldElement, c: u8) { a.conditional_negate(Choice::from(c)) }
#[no_mangle] #[inline(never)] pub fn vp_fe_ct_eq(a: &FieldElement, b: &FieldElement) -> u8 { a.ct_eq(b).unwrap_u8() }
#[no_mangle] #[inline(never)] pub fn vp_fe_is_negative(a: &FieldElement) -> u8 { a.is_negative().unwrap_u8() }
#[no_mangle] #[inline(never)] pub fn vp_fe_is_zero(a: &FieldElement) -> u8 { a.is_zero().unwrap_u8() }
#[no_mangle] #[inline(never)] pub fn vp_fe_invert(a: &FieldElement) -> FieldElement { a.invert() }
#[no_mangle] #[inline(never)] pub fn vp_fe_sqrt_ratio_i(u: &FieldElement, v: &FieldElement, out: &mut FieldElement) -> u8 {
    let (c, r) = FieldElement::sqrt_ratio_i(u, v); *out = r; c.unwrap_u8()
}
#[no_mangle] #[inline(never)] pub fn vp_fe_invsqrt(v: &FieldElement, out: &mut FieldElement) -> u8 {
    let (c, r) = v.invsqrt(); *out = r; c.unwrap_u8()
}
#[cfg(feature = "alloc")]
#[no_mangle] #[inline(never)] pub fn vp_fe_batch_invert(a: &mut [FieldElement]) { FieldElement::batch_invert(a) }

// ------------------------------------------------------------------ scalar kernels (layer L)
#[no_mangle] #[inline(never)] pub fn vp_us_from_bytes(b: &[u8; 32]) -> US { US::from_bytes(b) }
#[no_mangle] #[inline(never)] pub fn vp_us_from_bytes_wide(b: &[u8; 64]) -> US { US::from_bytes_wide(b) }
#[no_mangle] #[inline(never)] pub fn vp_us_as_bytes(a: &US) -> [u8; 32] { a.as_bytes() }
#[no_mangle] #[inline(never)] pub fn vp_us_add(a: &US, b: &US) -> US { US::add(a, b) }
#[no_mangle] #[inline(never)] pub fn vp_us_sub(a: &US, b: &US) -> US { US::sub(a, b) }
#[no_mangle] #[inline(never)] pub fn vp_us_mul(a: &US, b: &US) -> US { US::mul(a, b) }
#[no_mangle] #[inline(never)] pub fn vp_us_square(a: &US) -> US { a.square() }
#[no_mangle] #[inline(never)] pub fn vp_us_montgomery_mul(a: &US, b: &US) -> US { US::montgomery_mul(a, b) }
#[no_mangle] #[inline(never)] pub fn vp_us_montgomery_square(a: &US) -> US { a.montgomery_square() }
#[no_mangle] #[inline(never)] pub fn vp_us_as_montgomery(a: &US) -> US { a.as_montgomery() }
#[no_mangle] #[inline(never)] pub fn vp_us_from_montgomery(a: &US) -> US { a.from_montgomery() }


// ------------------------------------------------------------------ point formulas (layer F)
use crate::backend::serial::curve_models::{AffineNielsPoint, CompletedPoint, ProjectiveNielsPoint, ProjectivePoint};
use crate::edwards::{CompressedEdwardsY, EdwardsPoint};
use crate::montgomery::MontgomeryPoint;
use crate::ristretto::{CompressedRistretto, RistrettoPoint};
use crate::traits::{Identity, IsIdentity};

#[no_mangle] #[inline(never)] pub fn vp_ed_add(a: &EdwardsPoint, b: &EdwardsPoint) -> EdwardsPoint { a + b }
#[no_mangle] #[inline(never)] pub fn vp_ed_sub(a: &EdwardsPoint, b: &EdwardsPoint) -> EdwardsPoint { a - b }
#[no_mangle] #[inline(never)] pub fn vp_ed_neg(a: &EdwardsPoint) -> EdwardsPoint { -a }
#[no_mangle] #[inline(never)] pub fn vp_ed_double(a: &EdwardsPoint) -> EdwardsPoint { a.double() }
#[no_mangle] #[inline(never)] pub fn vp_ed_add_pn(a: &EdwardsPoint, b: &ProjectiveNielsPoint) -> CompletedPoint { a + b }
#[no_mangle] #[inline(never)] pub fn vp_ed_sub_pn(a: &EdwardsPoint, b: &ProjectiveNielsPoint) -> CompletedPoint { a - b }
#[no_mangle] #[inline(never)] pub fn vp_ed_add_an(a: &EdwardsPoint, b: &AffineNielsPoint) -> CompletedPoint { a + b }
#[no_mangle] #[inline(never)] pub fn vp_ed_sub_an(a: &EdwardsPoint, b: &AffineNielsPoint) -> CompletedPoint { a - b }
#[no_mangle] #[inline(never)] pub fn vp_ed_as_projective_niels(a: &EdwardsPoint) -> ProjectiveNielsPoint { a.as_projective_niels() }
#[no_mangle] #[inline(never)] pub fn vp_ed_as_affine_niels(a: &EdwardsPoint) -> AffineNielsPoint { a.as_affine_niels() }
#[no_mangle] #[inline(never)] pub fn vp_ed_as_projective(a: &EdwardsPoint) -> ProjectivePoint { a.as_projective() }
#[no_mangle] #[inline(never)] pub fn vp_pn_neg(a: &ProjectiveNielsPoint) -> ProjectiveNielsPoint { -a }
#[no_mangle] #[inline(never)] pub fn vp_an_neg(a: &AffineNielsPoint) -> AffineNielsPoint { -a }
#[no_mangle] #[inline(never)] pub fn vp_cp_as_extended(a: &CompletedPoint) -> EdwardsPoint { a.as_extended() }
#[no_mangle] #[inline(never)] pub fn vp_cp_as_projective(a: &CompletedPoint) -> ProjectivePoint { a.as_projective() }
#[no_mangle] #[inline(never)] pub fn vp_pp_double(a: &ProjectivePoint) -> CompletedPoint { a.double() }
#[no_mangle] #[inline(never)] pub fn vp_pp_as_extended(a: &ProjectivePoint) -> EdwardsPoint { a.as_extended() }
#[no_mangle] #[inline(never)] pub fn vp_ed_identity() -> EdwardsPoint { EdwardsPoint::identity() }
#[no_mangle] #[inline(never)] pub fn vp_ed_is_identity(a: &EdwardsPoint) -> bool { a.is_identity() }
#[no_mangle] #[inline(never)] pub fn vp_ed_ct_eq(a: &EdwardsPoint, b: &EdwardsPoint) -> u8 { a.ct_eq(b).unwrap_u8() }
#[no_mangle] #[inline(never)] pub fn vp_ed_select(a: &EdwardsPoint, b: &EdwardsPoint, c: u8) -> EdwardsPoint { EdwardsPoint::conditional_select(a, b, Choice::from(c)) }
#[no_mangle] #[inline(never)] pub fn vp_ed_compress(a: &EdwardsPoint) -> [u8; 32] { a.compress().to_bytes() }
#[no_mangle] #[inline(never)] pub fn vp_ed_decompress(b: &[u8; 32], out: &mut EdwardsPoint) -> bool {
    match CompressedEdwardsY(*b).decompress() { Some(p) => { *out = p; true } None => false }
}
#[no_mangle] #[inline(never)] pub fn vp_ed_mul_by_cofactor(a: &EdwardsPoint) -> EdwardsPoint { a.mul_by_cofactor() }
#[no_mangle] #[inline(never)] pub fn vp_ed_mul_by_pow_2(a: &EdwardsPoint, k: u32) -> EdwardsPoint { a.mul_by_pow_2(k) }
#[no_mangle] #[inline(never)] pub fn vp_ed_is_small_order(a: &EdwardsPoint) -> bool { a.is_small_order() }
#[no_mangle] #[inline(never)] pub fn vp_ed_is_torsion_free(a: &EdwardsPoint) -> bool { a.is_torsion_free() }
#[no_mangle] #[inline(never)] pub fn vp_ed_to_montgomery(a: &EdwardsPoint) -> [u8; 32] { a.to_montgomery().to_bytes() }
#[cfg(feature = "zeroize")]
#[no_mangle] #[inline(never)] pub fn vp_ed_zeroize(a: &mut EdwardsPoint) { zeroize::Zeroize::zeroize(a) }

// Montgomery
#[no_mangle] #[inline(never)] pub fn vp_mont_to_edwards(u: &[u8; 32], sign: u8, out: &mut EdwardsPoint) -> bool {
    match MontgomeryPoint(*u).to_edwards(sign) { Some(p) => { *out = p; true } None => false }
}
// Hash for MontgomeryPoint: every byte the impl feeds to the hasher, in order (length prefixes included), first 40 bytes + count
pub struct VpRecHasher { pub buf: [u8; 40], pub n: usize }
impl core::hash::Hasher for VpRecHasher {
    fn finish(&self) -> u64 { self.n as u64 }
    fn write(&mut self, bytes: &[u8]) { for b in bytes { if self.n < 40 { self.buf[self.n] = *b; } self.n += 1; } }
}
#[no_mangle] #[inline(never)] pub fn vp_mont_hash(u: &[u8; 32], out: &mut [u8; 40]) -> usize {
    use core::hash::Hash;
    let mut h = VpRecHasher { buf: [0u8; 40], n: 0 };
    MontgomeryPoint(*u).hash(&mut h);
    *out = h.buf; h.n
}
#[no_mangle] #[inline(never)] pub fn vp_mont_ct_eq(a: &[u8; 32], b: &[u8; 32]) -> u8 { MontgomeryPoint(*a).ct_eq(&MontgomeryPoint(*b)).unwrap_u8() }
// C15: the field-level core of EdwardsPoint::nonspec_map_to_curve (everything after the digest): Elligator2, conversion, the `expect`
#[no_mangle] #[inline(never)] pub fn vp_ed_nonspec_core(r: &FieldElement, sign: u8, out: &mut EdwardsPoint) -> bool {
    match crate::montgomery::elligator_encode(r).to_edwards(sign) { Some(p) => { *out = p; true } None => false }
}
#[no_mangle] #[inline(never)] pub fn vp_mont_elligator_encode(r: &FieldElement) -> [u8; 32] { crate::montgomery::elligator_encode(r).to_bytes() }

// Ristretto
#[no_mangle] #[inline(never)] pub fn vp_ris_decompress(b: &[u8; 32], out: &mut EdwardsPoint) -> bool {
    match CompressedRistretto(*b).decompress() { Some(p) => { *out = p.0; true } None => false }
}
#[no_mangle] #[inline(never)] pub fn vp_ris_compress(a: &EdwardsPoint) -> [u8; 32] { RistrettoPoint(*a).compress().to_bytes() }
#[no_mangle] #[inline(never)] pub fn vp_ris_ct_eq(a: &EdwardsPoint, b: &EdwardsPoint) -> u8 { RistrettoPoint(*a).ct_eq(&RistrettoPoint(*b)).unwrap_u8() }
#[no_mangle] #[inline(never)] pub fn vp_ris_elligator(r: &FieldElement) -> EdwardsPoint { RistrettoPoint::elligator_ristretto_flavor(r).0 }
#[no_mangle] #[inline(never)] pub fn vp_ris_from_uniform_bytes(b: &[u8; 64]) -> EdwardsPoint { RistrettoPoint::from_uniform_bytes(b).0 }
#[cfg(feature = "alloc")]
#[no_mangle] #[inline(never)] pub fn vp_ris_double_and_compress_batch_1(a: &EdwardsPoint, out: &mut [u8; 32]) {
    let v = RistrettoPoint::double_and_compress_batch(&[RistrettoPoint(*a)]); *out = v[0].to_bytes();
}
#[cfg(feature = "alloc")]
#[no_mangle] #[inline(never)] pub fn vp_ris_double_and_compress_batch_2(a: &EdwardsPoint, b: &EdwardsPoint, out: &mut [[u8; 32]; 2]) {
    let v = RistrettoPoint::double_and_compress_batch(&[RistrettoPoint(*a), RistrettoPoint(*b)]);
    out[0] = v[0].to_bytes(); out[1] = v[1].to_bytes();
}

// ------------------------------------------------------------------ raw byte-buffer dispatcher (native replay)
// Every `vp_*` wrapper can be called with its arguments given as raw little-endian object images; used by the
// replay binary (/verif/native) to run counterexamples and translator-validation vectors on the real build.
#[cfg(feature = "alloc")]
pub mod raw {
    use super::*;
    use alloc::vec::Vec;
    unsafe fn rd<T: Copy>(b: &[u8]) -> T { assert!(b.len() == core::mem::size_of::<T>(), "argument size"); core::ptr::read_unaligned(b.as_ptr() as *const T) }
    fn wr<T: Copy>(v: &T, out: &mut Vec<u8>) {
        let p = v as *const T as *const u8;
        for i in 0..core::mem::size_of::<T>() { out.push(unsafe { *p.add(i) }); }
    }
    /// returns false if the name is unknown
    pub fn vp_raw_call(name: &str, a: &[&[u8]], out: &mut Vec<u8>) -> bool {
        type FE = FieldElement; type EP = EdwardsPoint; type PN = ProjectiveNielsPoint; type AN = AffineNielsPoint;
        type PP = ProjectivePoint; type CP = CompletedPoint; type B32 = [u8; 32]; type B64 = [u8; 64];
        unsafe {
        match name {
            "vp_fe_mul" => wr(&vp_fe_mul(&rd::<FE>(a[0]), &rd::<FE>(a[1])), out),
            "vp_fe_add" => wr(&vp_fe_add(&rd::<FE>(a[0]), &rd::<FE>(a[1])), out),
            "vp_fe_sub" => wr(&vp_fe_sub(&rd::<FE>(a[0]), &rd::<FE>(a[1])), out),
            "vp_fe_neg" => wr(&vp_fe_neg(&rd::<FE>(a[0])), out),
            "vp_fe_square" => wr(&vp_fe_square(&rd::<FE>(a[0])), out),
            "vp_fe_square2" => wr(&vp_fe_square2(&rd::<FE>(a[0])), out),
            "vp_fe_pow2k" => wr(&vp_fe_pow2k(&rd::<FE>(a[0]), rd::<u32>(a[1])), out),
            "vp_fe_from_bytes" => wr(&vp_fe_from_bytes(&rd::<B32>(a[0])), out),
            "vp_fe_as_bytes" => wr(&vp_fe_as_bytes(&rd::<FE>(a[0])), out),
            "vp_fe_invert" => wr(&vp_fe_invert(&rd::<FE>(a[0])), out),
            "vp_fe_sqrt_ratio_i" => { let mut r = rd::<FE>(a[0]); let c = vp_fe_sqrt_ratio_i(&rd::<FE>(a[0]), &rd::<FE>(a[1]), &mut r); out.push(c); wr(&r, out) }
            "vp_fe_ct_eq" => out.push(vp_fe_ct_eq(&rd::<FE>(a[0]), &rd::<FE>(a[1]))),
            "vp_fe_is_negative" => out.push(vp_fe_is_negative(&rd::<FE>(a[0]))),
            "vp_fe_is_zero" => out.push(vp_fe_is_zero(&rd::<FE>(a[0]))),
            "vp_us_from_bytes" => wr(&vp_us_from_bytes(&rd::<B32>(a[0])), out),
            "vp_us_from_bytes_wide" => wr(&vp_us_from_bytes_wide(&rd::<B64>(a[0])), out),
            "vp_us_as_bytes" => wr(&vp_us_as_bytes(&rd::<US>(a[0])), out),
            "vp_us_add" => wr(&vp_us_add(&rd::<US>(a[0]), &rd::<US>(a[1])), out),
            "vp_us_sub" => wr(&vp_us_sub(&rd::<US>(a[0]), &rd::<US>(a[1])), out),
            "vp_us_mul" => wr(&vp_us_mul(&rd::<US>(a[0]), &rd::<US>(a[1])), out),
            "vp_us_square" => wr(&vp_us_square(&rd::<US>(a[0])), out),
            "vp_us_montgomery_mul" => wr(&vp_us_montgomery_mul(&rd::<US>(a[0]), &rd::<US>(a[1])), out),
            "vp_us_montgomery_square" => wr(&vp_us_montgomery_square(&rd::<US>(a[0])), out),
            "vp_us_as_montgomery" => wr(&vp_us_as_montgomery(&rd::<US>(a[0])), out),
            "vp_us_from_montgomery" => wr(&vp_us_from_montgomery(&rd::<US>(a[0])), out),
            "vp_ed_add" => wr(&vp_ed_add(&rd::<EP>(a[0]), &rd::<EP>(a[1])), out),
            "vp_ed_sub" => wr(&vp_ed_sub(&rd::<EP>(a[0]), &rd::<EP>(a[1])), out),
            "vp_ed_neg" => wr(&vp_ed_neg(&rd::<EP>(a[0])), out),
            "vp_ed_double" => wr(&vp_ed_double(&rd::<EP>(a[0])), out),
            "vp_ed_add_pn" => wr(&vp_ed_add_pn(&rd::<EP>(a[0]), &rd::<PN>(a[1])), out),
            "vp_ed_sub_pn" => wr(&vp_ed_sub_pn(&rd::<EP>(a[0]), &rd::<PN>(a[1])), out),
            "vp_ed_add_an" => wr(&vp_ed_add_an(&rd::<EP>(a[0]), &rd::<AN>(a[1])), out),
            "vp_ed_sub_an" => wr(&vp_ed_sub_an(&rd::<EP>(a[0]), &rd::<AN>(a[1])), out),
            "vp_ed_as_projective_niels" => wr(&vp_ed_as_projective_niels(&rd::<EP>(a[0])), out),
            "vp_ed_as_affine_niels" => wr(&vp_ed_as_affine_niels(&rd::<EP>(a[0])), out),
            "vp_ed_as_projective" => wr(&vp_ed_as_projective(&rd::<EP>(a[0])), out),
            "vp_pn_neg" => wr(&vp_pn_neg(&rd::<PN>(a[0])), out),
            "vp_an_neg" => wr(&vp_an_neg(&rd::<AN>(a[0])), out),
            "vp_cp_as_extended" => wr(&vp_cp_as_extended(&rd::<CP>(a[0])), out),
            "vp_cp_as_projective" => wr(&vp_cp_as_projective(&rd::<CP>(a[0])), out),
            "vp_pp_double" => wr(&vp_pp_double(&rd::<PP>(a[0])), out),
            "vp_pp_as_extended" => wr(&vp_pp_as_extended(&rd::<PP>(a[0])), out),
            "vp_ed_identity" => wr(&vp_ed_identity(), out),
            "vp_ed_is_identity" => out.push(vp_ed_is_identity(&rd::<EP>(a[0])) as u8),
            "vp_ed_ct_eq" => out.push(vp_ed_ct_eq(&rd::<EP>(a[0]), &rd::<EP>(a[1]))),
            "vp_ed_select" => wr(&vp_ed_select(&rd::<EP>(a[0]), &rd::<EP>(a[1]), rd::<u8>(a[2])), out),
            "vp_ed_compress" => wr(&vp_ed_compress(&rd::<EP>(a[0])), out),
            "vp_ed_decompress" => { let mut p = EdwardsPoint::identity(); let ok = vp_ed_decompress(&rd::<B32>(a[0]), &mut p); out.push(ok as u8); wr(&p, out) }
            "vp_ed_mul_by_cofactor" => wr(&vp_ed_mul_by_cofactor(&rd::<EP>(a[0])), out),
            "vp_ed_mul_by_pow_2" => wr(&vp_ed_mul_by_pow_2(&rd::<EP>(a[0]), rd::<u32>(a[1])), out),
            "vp_ed_is_small_order" => out.push(vp_ed_is_small_order(&rd::<EP>(a[0])) as u8),
            "vp_ed_to_montgomery" => wr(&vp_ed_to_montgomery(&rd::<EP>(a[0])), out),
            "vp_mont_to_edwards" => { let mut p = EdwardsPoint::identity(); let ok = vp_mont_to_edwards(&rd::<B32>(a[0]), rd::<u8>(a[1]), &mut p); out.push(ok as u8); wr(&p, out) }
            "vp_mont_ct_eq" => out.push(vp_mont_ct_eq(&rd::<B32>(a[0]), &rd::<B32>(a[1]))),
            "vp_ed_nonspec_core" => { let mut p = EdwardsPoint::identity(); let ok = vp_ed_nonspec_core(&rd::<FE>(a[0]), rd::<u8>(a[1]), &mut p); out.push(ok as u8); wr(&p, out) }
            "vp_mont_elligator_encode" => wr(&vp_mont_elligator_encode(&rd::<FE>(a[0])), out),
            "vp_ris_decompress" => { let mut p = EdwardsPoint::identity(); let ok = vp_ris_decompress(&rd::<B32>(a[0]), &mut p); out.push(ok as u8); wr(&p, out) }
            "vp_ris_compress" => wr(&vp_ris_compress(&rd::<EP>(a[0])), out),
            "vp_ris_ct_eq" => out.push(vp_ris_ct_eq(&rd::<EP>(a[0]), &rd::<EP>(a[1]))),
            "vp_ris_elligator" => wr(&vp_ris_elligator(&rd::<FE>(a[0])), out),
            "vp_ris_from_uniform_bytes" => wr(&vp_ris_from_uniform_bytes(&rd::<B64>(a[0])), out),
            #[cfg(feature = "group")]
            "grp_is_torsion_free" | "grp_into_subgroup_is_some" | "ed_is_torsion_free" => {
                let p = crate::edwards::CompressedEdwardsY(rd::<B32>(a[0])).decompress().expect("replay point decodes");
                out.push(match name { "grp_is_torsion_free" => super::ffg::vp_grp_is_torsion_free(&p), "grp_into_subgroup_is_some" => super::ffg::vp_grp_into_subgroup_is_some(&p), _ => vp_ed_is_torsion_free(&p) as u8 })
            }
            #[cfg(all(curve25519_dalek_backend = "simd", curve25519_dalek_bits = "64"))]
            "vp_v_neg" | "vp_v_reduce" | "vp_v_negate_lazy" | "vp_v_diff_sum" | "vp_v_square_and_negate_d" | "vp_v_mul" | "vp_v_add" | "vp_v_new" => {
                use crate::backend::vector::avx2::field::FieldElement2625x4 as V4;
                use super::vfield as vf;
                #[repr(align(32))] struct Al([u8; 160]);
                let ld = |b: &[u8]| -> V4 { let mut t = Al([0u8; 160]); t.0.copy_from_slice(b); core::ptr::read(t.0.as_ptr() as *const V4) };
                let r: V4 = match name {
                    "vp_v_neg" => vf::vp_v_neg(&ld(a[0])), "vp_v_reduce" => vf::vp_v_reduce(&ld(a[0])), "vp_v_negate_lazy" => vf::vp_v_negate_lazy(&ld(a[0])),
                    "vp_v_diff_sum" => vf::vp_v_diff_sum(&ld(a[0])), "vp_v_square_and_negate_d" => vf::vp_v_square_and_negate_d(&ld(a[0])),
                    "vp_v_mul" => vf::vp_v_mul(&ld(a[0]), &ld(a[1])), "vp_v_add" => vf::vp_v_add(&ld(a[0]), &ld(a[1])),
                    _ => vf::vp_v_new(&rd::<FE>(a[0]), &rd::<FE>(a[1]), &rd::<FE>(a[2]), &rd::<FE>(a[3])),
                };
                wr(&r, out)
            }
            "ed_is_small_order_c" => out.push(vp_ed_is_small_order(&crate::edwards::CompressedEdwardsY(rd::<B32>(a[0])).decompress().expect("replay point decodes")) as u8),
            "g_mont_from_base_clamped" => wr(&vp_g_ed_mul_base_clamped(&rd::<B32>(a[0])).to_montgomery().0, out),
            "sc_naf" => { let d = scalar_raw(rd::<B32>(a[0])).non_adjacent_form(a[1][0] as usize); out.extend(d.iter().map(|x| *x as u8)) }
            "g_ed_mul_clamped" => wr(&vp_g_ed_mul_clamped(&crate::edwards::CompressedEdwardsY(rd::<B32>(a[0])).decompress().expect("replay point decodes"), &rd::<B32>(a[1])).compress().0, out),
            "g_ed_mul_base_clamped" => wr(&vp_g_ed_mul_base_clamped(&rd::<B32>(a[0])).compress().0, out),
            "g_mont_mul" => wr(&vp_g_mont_mul(&MontgomeryPoint(rd::<B32>(a[0])), &scalar_raw(rd::<B32>(a[1]))).0, out),
            "g_mont_mul_clamped" => wr(&vp_g_mont_mul_clamped(&MontgomeryPoint(rd::<B32>(a[0])), &rd::<B32>(a[1])).0, out),
            "g_opt_pippenger" | "g_opt_pippenger_dispatch" | "g_opt_multiscalar" => {
                // args: n*32 scalar bytes, n*32 compressed points, 8-byte little-endian None mask -> 1 byte (1 = Some) followed by the compressed result
                use crate::edwards::CompressedEdwardsY as C;
                let n = a[0].len() / 32;
                let ss: Vec<Scalar> = (0..n).map(|i| scalar_raw(rd::<B32>(&a[0][32 * i..32 * i + 32]))).collect();
                let ps: Vec<EdwardsPoint> = (0..n).map(|i| C(rd::<B32>(&a[1][32 * i..32 * i + 32])).decompress().expect("replay point decodes")).collect();
                let mask = rd::<u64>(a[2]); let mut o = EdwardsPoint::identity();
                let ok = match name { "g_opt_pippenger" => vp_g_pippenger(&ss, &ps, mask, &mut o), "g_opt_pippenger_dispatch" => vp_g_pippenger_dispatch(&ss, &ps, mask, &mut o), _ => vp_g_optional_multiscalar_mul(&ss, &ps, mask, &mut o) };
                out.push(ok as u8); wr(&o.compress().0, out)
            }
            // ---- byte-level group entry points for the replay of layer-G counterexamples: points travel compressed, scalars as raw bytes
            "g_precomputed" => {
                // args: static scalar, static point (compressed), dynamic scalar, dynamic point (compressed)
                let pt = |b: &[u8]| crate::edwards::CompressedEdwardsY(rd::<B32>(b)).decompress().expect("replay point decodes");
                let r = vp_g_precomputed(&[scalar_raw(rd::<B32>(a[0]))], &[pt(a[1])], &[scalar_raw(rd::<B32>(a[2]))], &[pt(a[3])]);
                wr(&r.compress().0, out)
            }
            "g_ed_mul" | "g_mul_base" | "g_vartime_double" | "g_multiscalar" | "g_vartime_multiscalar" => {
                use crate::edwards::CompressedEdwardsY as C; use crate::traits::{MultiscalarMul, VartimeMultiscalarMul};
                let pt = |b: &[u8]| C(rd::<B32>(b)).decompress().expect("replay point decodes");
                let sc = |b: &[u8]| scalar_raw(rd::<B32>(b));
                let r: EdwardsPoint = match name {
                    "g_ed_mul" => &pt(a[0]) * &sc(a[1]),
                    "g_mul_base" => EdwardsPoint::mul_base(&sc(a[0])),
                    "g_vartime_double" => EdwardsPoint::vartime_double_scalar_mul_basepoint(&sc(a[0]), &pt(a[1]), &sc(a[2])),
                    _ => {
                        let n = a[0].len() / 32;
                        let ss: Vec<Scalar> = (0..n).map(|i| sc(&a[0][32 * i..32 * i + 32])).collect();
                        let ps: Vec<EdwardsPoint> = (0..n).map(|i| pt(&a[1][32 * i..32 * i + 32])).collect();
                        if name == "g_multiscalar" { EdwardsPoint::multiscalar_mul(ss.iter(), ps.iter()) } else { EdwardsPoint::vartime_multiscalar_mul(ss.iter(), ps.iter()) }
                    }
                };
                wr(&r.compress().0, out)
            }
            _ => return false,
        }
        }
        true
    }
}

// ------------------------------------------------------------------ scalar multiplication algorithms (layer G)
use crate::backend::serial::scalar_mul as ssm;
use crate::traits::{MultiscalarMul, VartimeMultiscalarMul};
#[no_mangle] #[inline(never)] pub fn vp_g_variable_base(p: &EdwardsPoint, s: &Scalar) -> EdwardsPoint { ssm::variable_base::mul(p, s) }
#[no_mangle] #[inline(never)] pub fn vp_g_vartime_double_base(a: &Scalar, p: &EdwardsPoint, b: &Scalar) -> EdwardsPoint { ssm::vartime_double_base::mul(a, p, b) }
#[no_mangle] #[inline(never)] pub fn vp_g_mul_base(s: &Scalar) -> EdwardsPoint { EdwardsPoint::mul_base(s) }
#[no_mangle] #[inline(never)] pub fn vp_g_ed_mul(p: &EdwardsPoint, s: &Scalar) -> EdwardsPoint { p * s }
#[no_mangle] #[inline(never)] pub fn vp_g_mul_by_pow_2(p: &EdwardsPoint, k: u32) -> EdwardsPoint { p.mul_by_pow_2(k) }
#[no_mangle] #[inline(never)] pub fn vp_g_mul_by_cofactor(p: &EdwardsPoint) -> EdwardsPoint { p.mul_by_cofactor() }
#[no_mangle] #[inline(never)] pub fn vp_g_mont_mul(p: &MontgomeryPoint, s: &Scalar) -> MontgomeryPoint { p * s }
#[no_mangle] #[inline(never)] pub fn vp_g_mont_mul_clamped(p: &MontgomeryPoint, b: &[u8; 32]) -> MontgomeryPoint { p.mul_clamped(*b) }
#[no_mangle] #[inline(never)] pub fn vp_g_ed_mul_clamped(p: &EdwardsPoint, b: &[u8; 32]) -> EdwardsPoint { p.mul_clamped(*b) }
#[no_mangle] #[inline(never)] pub fn vp_g_ed_mul_base_clamped(b: &[u8; 32]) -> EdwardsPoint { EdwardsPoint::mul_base_clamped(*b) }
#[cfg(feature = "alloc")]
#[no_mangle] #[inline(never)] pub fn vp_g_straus_ct_1(s: &[Scalar; 1], p: &[EdwardsPoint; 1]) -> EdwardsPoint { ssm::straus::Straus::multiscalar_mul(s.iter(), p.iter()) }
#[cfg(feature = "alloc")]
#[no_mangle] #[inline(never)] pub fn vp_g_straus_ct_2(s: &[Scalar; 2], p: &[EdwardsPoint; 2]) -> EdwardsPoint { ssm::straus::Straus::multiscalar_mul(s.iter(), p.iter()) }
#[cfg(feature = "alloc")]
#[no_mangle] #[inline(never)] pub fn vp_g_straus_ct_3(s: &[Scalar; 3], p: &[EdwardsPoint; 3]) -> EdwardsPoint { ssm::straus::Straus::multiscalar_mul(s.iter(), p.iter()) }
// public variable-time entry points (dispatching): vartime double-base and vartime multiscalar (Straus below 190 points, Pippenger above)
#[no_mangle] #[inline(never)] pub fn vp_g_vartime_double_pub(a: &Scalar, p: &EdwardsPoint, b: &Scalar) -> EdwardsPoint { EdwardsPoint::vartime_double_scalar_mul_basepoint(a, p, b) }
#[cfg(feature = "alloc")]
#[no_mangle] #[inline(never)] pub fn vp_g_vartime_multiscalar_mul(s: &[Scalar], p: &[EdwardsPoint]) -> EdwardsPoint { use crate::traits::VartimeMultiscalarMul; EdwardsPoint::vartime_multiscalar_mul(s.iter(), p.iter()) }
// Pippenger (serial copy directly; the public API routes to it from 190 points on) and Option-valued points: bit i of none_mask makes point i None
#[cfg(feature = "alloc")]
#[no_mangle] #[inline(never)] pub fn vp_g_pippenger(s: &[Scalar], p: &[EdwardsPoint], none_mask: u64, out: &mut EdwardsPoint) -> bool {
    use crate::traits::VartimeMultiscalarMul;
    match ssm::pippenger::Pippenger::optional_multiscalar_mul(s.iter(), p.iter().enumerate().map(|(i, q)| if (none_mask >> (i & 63)) & 1 == 1 { None } else { Some(*q) })) { Some(r) => { *out = r; true } None => false }
}
#[cfg(feature = "alloc")]
#[no_mangle] #[inline(never)] pub fn vp_g_pippenger_dispatch(s: &[Scalar], p: &[EdwardsPoint], none_mask: u64, out: &mut EdwardsPoint) -> bool {
    match crate::backend::pippenger_optional_multiscalar_mul(s.iter(), p.iter().enumerate().map(|(i, q)| if (none_mask >> (i & 63)) & 1 == 1 { None } else { Some(*q) })) { Some(r) => { *out = r; true } None => false }
}
#[cfg(feature = "alloc")]
#[no_mangle] #[inline(never)] pub fn vp_g_optional_multiscalar_mul(s: &[Scalar], p: &[EdwardsPoint], none_mask: u64, out: &mut EdwardsPoint) -> bool {
    use crate::traits::VartimeMultiscalarMul;
    match EdwardsPoint::optional_multiscalar_mul(s.iter(), p.iter().enumerate().map(|(i, q)| if (none_mask >> (i & 63)) & 1 == 1 { None } else { Some(*q) })) { Some(r) => { *out = r; true } None => false }
}
// precomputed Straus (static points with width-8 NAF tables + dynamic points), through the public dispatching type
#[cfg(feature = "alloc")]
#[no_mangle] #[inline(never)] pub fn vp_g_precomputed(st_s: &[Scalar], st_p: &[EdwardsPoint], dy_s: &[Scalar], dy_p: &[EdwardsPoint]) -> EdwardsPoint {
    use crate::traits::VartimePrecomputedMultiscalarMul;
    let pre = crate::edwards::VartimeEdwardsPrecomputation::new(st_p.iter());
    pre.vartime_mixed_multiscalar_mul(st_s.iter(), dy_s.iter(), dy_p.iter())
}
// the PUBLIC constant-time entry point on slices of any length (dispatch included): C04 / C14
#[cfg(feature = "alloc")]
#[no_mangle] #[inline(never)] pub fn vp_g_multiscalar_mul(s: &[Scalar], p: &[EdwardsPoint]) -> EdwardsPoint { use crate::traits::MultiscalarMul; EdwardsPoint::multiscalar_mul(s.iter(), p.iter()) }
#[cfg(feature = "alloc")]
#[no_mangle] #[inline(never)] pub fn vp_g_ris_multiscalar_mul(s: &[Scalar], p: &[crate::ristretto::RistrettoPoint]) -> crate::ristretto::RistrettoPoint { use crate::traits::MultiscalarMul; crate::ristretto::RistrettoPoint::multiscalar_mul(s.iter(), p.iter()) }
// Ristretto wrappers and Sum (C04: "and the Ristretto wrappers"; C03: summation)
#[no_mangle] #[inline(never)] pub fn vp_g_ris_mul(p: &crate::ristretto::RistrettoPoint, s: &Scalar) -> crate::ristretto::RistrettoPoint { p * s }
#[no_mangle] #[inline(never)] pub fn vp_g_ris_mul_rev(p: &crate::ristretto::RistrettoPoint, s: &Scalar) -> crate::ristretto::RistrettoPoint { s * p }
#[no_mangle] #[inline(never)] pub fn vp_g_ris_mul_base(s: &Scalar) -> crate::ristretto::RistrettoPoint { crate::ristretto::RistrettoPoint::mul_base(s) }
#[no_mangle] #[inline(never)] pub fn vp_g_ris_vartime_double(a: &Scalar, p: &crate::ristretto::RistrettoPoint, b: &Scalar) -> crate::ristretto::RistrettoPoint { crate::ristretto::RistrettoPoint::vartime_double_scalar_mul_basepoint(a, p, b) }
#[cfg(feature = "precomputed-tables")]
#[no_mangle] #[inline(never)] pub fn vp_g_ris_table_mul(s: &Scalar) -> crate::ristretto::RistrettoPoint { crate::constants::RISTRETTO_BASEPOINT_TABLE * s }
#[cfg(feature = "alloc")]
#[no_mangle] #[inline(never)] pub fn vp_g_ris_vartime_multiscalar_mul(s: &[Scalar], p: &[crate::ristretto::RistrettoPoint]) -> crate::ristretto::RistrettoPoint { use crate::traits::VartimeMultiscalarMul; crate::ristretto::RistrettoPoint::vartime_multiscalar_mul(s.iter(), p.iter()) }
#[no_mangle] #[inline(never)] pub fn vp_g_ed_sum(p: &[EdwardsPoint]) -> EdwardsPoint { p.iter().sum() }
#[no_mangle] #[inline(never)] pub fn vp_g_ris_sum(p: &[crate::ristretto::RistrettoPoint]) -> crate::ristretto::RistrettoPoint { p.iter().sum() }
#[cfg(feature = "alloc")]
#[no_mangle] #[inline(never)] pub fn vp_g_straus_ct_0() -> EdwardsPoint { let s: [Scalar; 0] = []; let p: [EdwardsPoint; 0] = []; ssm::straus::Straus::multiscalar_mul(s.iter(), p.iter()) }
#[cfg(feature = "alloc")]
#[no_mangle] #[inline(never)] pub fn vp_g_straus_vt_2(s: &[Scalar; 2], p: &[EdwardsPoint; 2], out: &mut EdwardsPoint) -> bool {
    match ssm::straus::Straus::optional_multiscalar_mul(s.iter(), p.iter().map(|x| Some(*x))) { Some(r) => { *out = r; true } None => false }
}
macro_rules! vp_table { ($name:ident, $t:ty) => {
    #[no_mangle] #[inline(never)] pub fn $name(p: &EdwardsPoint, s: &Scalar, base_out: &mut EdwardsPoint) -> EdwardsPoint {
        use crate::traits::BasepointTable;
        let t = <$t>::create(p); *base_out = t.basepoint(); t.mul_base(s)
    } } }
#[cfg(feature = "precomputed-tables")]
vp_table!(vp_g_table_r16, crate::edwards::EdwardsBasepointTableRadix16);
#[cfg(feature = "precomputed-tables")]
vp_table!(vp_g_table_r32, crate::edwards::EdwardsBasepointTableRadix32);
#[cfg(feature = "precomputed-tables")]
vp_table!(vp_g_table_r64, crate::edwards::EdwardsBasepointTableRadix64);
#[cfg(feature = "precomputed-tables")]
vp_table!(vp_g_table_r128, crate::edwards::EdwardsBasepointTableRadix128);
#[cfg(feature = "precomputed-tables")]
vp_table!(vp_g_table_r256, crate::edwards::EdwardsBasepointTableRadix256);
include!(concat!(env!("VERIF_HOOK_DIR"), "/../kani/curve_kani.rs"));

// ------------------------------------------------------------------ constant accessors (C12)
pub mod consts {
    use super::*;
    use crate::constants as k;
    macro_rules! acc { ($name:ident, $t:ty, $e:expr) => { #[no_mangle] #[inline(never)] pub fn $name() -> &'static $t { &$e } } }
    acc!(vp_c_minus_one, FieldElement, k::MINUS_ONE);
    acc!(vp_c_fe_minus_one, FieldElement, FieldElement::MINUS_ONE);
    acc!(vp_c_fe_one, FieldElement, FieldElement::ONE);
    acc!(vp_c_fe_zero, FieldElement, FieldElement::ZERO);
    acc!(vp_c_edwards_d, FieldElement, k::EDWARDS_D);
    acc!(vp_c_edwards_d2, FieldElement, k::EDWARDS_D2);
    acc!(vp_c_one_minus_d_sq, FieldElement, k::ONE_MINUS_EDWARDS_D_SQUARED);
    acc!(vp_c_d_minus_one_sq, FieldElement, k::EDWARDS_D_MINUS_ONE_SQUARED);
    acc!(vp_c_sqrt_ad_minus_one, FieldElement, k::SQRT_AD_MINUS_ONE);
    acc!(vp_c_invsqrt_a_minus_d, FieldElement, k::INVSQRT_A_MINUS_D);
    acc!(vp_c_sqrt_m1, FieldElement, k::SQRT_M1);
    acc!(vp_c_aplus2_over_four, FieldElement, k::APLUS2_OVER_FOUR);
    acc!(vp_c_montgomery_a, FieldElement, k::MONTGOMERY_A);
    acc!(vp_c_montgomery_a_neg, FieldElement, k::MONTGOMERY_A_NEG);
    acc!(vp_c_l, US, k::L);
    acc!(vp_c_r, US, k::R);
    acc!(vp_c_rr, US, k::RR);
    #[cfg(curve25519_dalek_bits = "64")]
    #[no_mangle] #[inline(never)] pub fn vp_c_lfactor() -> u64 { k::LFACTOR }
    #[cfg(curve25519_dalek_bits = "32")]
    #[no_mangle] #[inline(never)] pub fn vp_c_lfactor() -> u64 { k::LFACTOR as u64 }
    acc!(vp_c_basepoint_order, Scalar, k::BASEPOINT_ORDER);
    acc!(vp_c_basepoint, EdwardsPoint, k::ED25519_BASEPOINT_POINT);
    acc!(vp_c_eight_torsion, [EdwardsPoint; 8], k::EIGHT_TORSION);
    acc!(vp_c_basepoint_compressed, CompressedEdwardsY, k::ED25519_BASEPOINT_COMPRESSED);
    acc!(vp_c_x25519_basepoint, MontgomeryPoint, k::X25519_BASEPOINT);
    acc!(vp_c_ristretto_basepoint_compressed, CompressedRistretto, k::RISTRETTO_BASEPOINT_COMPRESSED);
    acc!(vp_c_ristretto_basepoint, RistrettoPoint, k::RISTRETTO_BASEPOINT_POINT);
    #[cfg(feature = "precomputed-tables")]
    #[no_mangle] #[inline(never)] pub fn vp_c_basepoint_table() -> &'static crate::edwards::EdwardsBasepointTable { k::ED25519_BASEPOINT_TABLE }
    #[cfg(feature = "precomputed-tables")]
    #[no_mangle] #[inline(never)] pub fn vp_c_ristretto_basepoint_table() -> &'static crate::ristretto::RistrettoBasepointTable { k::RISTRETTO_BASEPOINT_TABLE }
    #[cfg(feature = "precomputed-tables")]
    acc!(vp_c_affine_odd_multiples, crate::window::NafLookupTable8<AffineNielsPoint>, k::AFFINE_ODD_MULTIPLES_OF_BASEPOINT);
    #[cfg(all(curve25519_dalek_backend = "simd", feature = "precomputed-tables"))]
    #[no_mangle] #[inline(never)] pub fn vp_c_avx2_odd_table() -> *const u8 { &crate::backend::vector::avx2::constants::BASEPOINT_ODD_LOOKUP_TABLE as *const _ as *const u8 }
    #[cfg(all(curve25519_dalek_backend = "unstable_avx512", nightly, feature = "precomputed-tables"))]
    #[no_mangle] #[inline(never)] pub fn vp_c_ifma_odd_table() -> *const u8 { &crate::backend::vector::ifma::constants::BASEPOINT_ODD_LOOKUP_TABLE as *const _ as *const u8 }
    #[cfg(curve25519_dalek_backend = "simd")]
    #[no_mangle] #[inline(never)] pub fn vp_c_avx2_misc(i: u32) -> *const u8 {
        use crate::backend::vector::avx2::constants as a;
        match i { 0 => &a::EXTENDEDPOINT_IDENTITY as *const _ as *const u8, 1 => &a::CACHEDPOINT_IDENTITY as *const _ as *const u8,
                  2 => &a::P_TIMES_2_LO as *const _ as *const u8, 3 => &a::P_TIMES_2_HI as *const _ as *const u8,
                  4 => &a::P_TIMES_16_LO as *const _ as *const u8, _ => &a::P_TIMES_16_HI as *const _ as *const u8 }
    }
}

// ------------------------------------------------------------------ helpers for harnesses in the dependent crates
pub fn point_from_tags(a: u64, b: u64) -> crate::edwards::EdwardsPoint {
    let mut p = crate::edwards::EdwardsPoint::default();
    #[cfg(curve25519_dalek_bits = "64")] { p.X.0[0] = a; p.X.0[1] = b; }
    #[cfg(curve25519_dalek_bits = "32")] { p.X.0[0] = a as u32; p.X.0[1] = (a >> 32) as u32; p.X.0[2] = b as u32; p.X.0[3] = (b >> 32) as u32; }
    p
}
pub fn point_tags(p: &crate::edwards::EdwardsPoint) -> (u64, u64) {
    #[cfg(curve25519_dalek_bits = "64")] { (p.X.0[0], p.X.0[1]) }
    #[cfg(curve25519_dalek_bits = "32")] { ((p.X.0[0] as u64) | ((p.X.0[1] as u64) << 32), (p.X.0[2] as u64) | ((p.X.0[3] as u64) << 32)) }
}
pub fn scalar_raw(bytes: [u8; 32]) -> crate::scalar::Scalar { crate::scalar::Scalar { bytes } }
/// an all-zero value of a plain-data type of another crate (used by Kani stubs of constructors whose types have private fields;
/// ed25519-dalek forbids unsafe code, so the helper lives here).  Only instantiated for types for which all-zero bytes are valid.
#[cfg(kani)]
pub fn zeroed_plain<T>() -> T { unsafe { core::mem::zeroed() } }

// ------------------------------------------------------------------ AVX2 vector field kernels (C01 / C11 for the vector backend; simd build only)
#[cfg(all(curve25519_dalek_backend = "simd", curve25519_dalek_bits = "64"))]
pub mod vfield {
    use crate::backend::serial::u64::field::FieldElement51 as F51;
    use crate::backend::vector::avx2::field::{FieldElement2625x4 as V4, Lanes, Shuffle};
    #[no_mangle] #[inline(never)] pub fn vp_v_new(a: &F51, b: &F51, c: &F51, d: &F51) -> V4 { V4::new(a, b, c, d) }
    #[no_mangle] #[inline(never)] pub fn vp_v_split(v: &V4) -> [F51; 4] { v.split() }
    #[no_mangle] #[inline(never)] pub fn vp_v_mul(a: &V4, b: &V4) -> V4 { a * b }
    #[no_mangle] #[inline(never)] pub fn vp_v_square_and_negate_d(a: &V4) -> V4 { a.square_and_negate_D() }
    #[no_mangle] #[inline(never)] pub fn vp_v_reduce(a: &V4) -> V4 { a.reduce() }
    #[no_mangle] #[inline(never)] pub fn vp_v_negate_lazy(a: &V4) -> V4 { a.negate_lazy() }
    #[no_mangle] #[inline(never)] pub fn vp_v_diff_sum(a: &V4) -> V4 { a.diff_sum() }
    #[no_mangle] #[inline(never)] pub fn vp_v_add(a: &V4, b: &V4) -> V4 { *a + *b }
    #[no_mangle] #[inline(never)] pub fn vp_v_neg(a: &V4) -> V4 { -*a }
    #[no_mangle] #[inline(never)] pub fn vp_v_mul_small(a: &V4, s0: u32, s1: u32, s2: u32, s3: u32) -> V4 { *a * (s0, s1, s2, s3) }
    #[no_mangle] #[inline(never)] pub fn vp_v_shuffle_badc(a: &V4) -> V4 { a.shuffle(Shuffle::BADC) }
    #[no_mangle] #[inline(never)] pub fn vp_v_shuffle_abdc(a: &V4) -> V4 { a.shuffle(Shuffle::ABDC) }
    #[no_mangle] #[inline(never)] pub fn vp_v_blend_ab(a: &V4, b: &V4) -> V4 { a.blend(*b, Lanes::AB) }
    #[no_mangle] #[inline(never)] pub fn vp_v_blend_d(a: &V4, b: &V4) -> V4 { a.blend(*b, Lanes::D) }
    // point formulas of the AVX2 backend through serial-coordinate inputs/outputs (C03 for the vector backend)
    use crate::backend::vector::avx2::edwards::{CachedPoint, ExtendedPoint};
    use crate::edwards::EdwardsPoint;
    use crate::traits::Identity;
    #[no_mangle] #[inline(never)] pub fn vp_vec_add(p: &EdwardsPoint, q: &EdwardsPoint) -> EdwardsPoint { (&ExtendedPoint::from(*p) + &CachedPoint::from(ExtendedPoint::from(*q))).into() }
    #[no_mangle] #[inline(never)] pub fn vp_vec_sub(p: &EdwardsPoint, q: &EdwardsPoint) -> EdwardsPoint { (&ExtendedPoint::from(*p) - &CachedPoint::from(ExtendedPoint::from(*q))).into() }
    #[no_mangle] #[inline(never)] pub fn vp_vec_double(p: &EdwardsPoint) -> EdwardsPoint { ExtendedPoint::from(*p).double().into() }
    #[no_mangle] #[inline(never)] pub fn vp_vec_roundtrip(p: &EdwardsPoint) -> EdwardsPoint { ExtendedPoint::from(*p).into() }
    #[no_mangle] #[inline(never)] pub fn vp_vec_identity() -> EdwardsPoint { ExtendedPoint::identity().into() }
    // the same operations on the vector types themselves (inputs carry the bounds the operations themselves produce): headroom along chains
    #[no_mangle] #[inline(never)] pub fn vp_vec_raw_add(p: &ExtendedPoint, q: &CachedPoint) -> ExtendedPoint { p + q }
    #[no_mangle] #[inline(never)] pub fn vp_vec_raw_sub(p: &ExtendedPoint, q: &CachedPoint) -> ExtendedPoint { p - q }
    #[no_mangle] #[inline(never)] pub fn vp_vec_raw_double(p: &ExtendedPoint) -> ExtendedPoint { p.double() }
    #[no_mangle] #[inline(never)] pub fn vp_vec_raw_cache(p: &ExtendedPoint) -> CachedPoint { CachedPoint::from(*p) }
    #[no_mangle] #[inline(never)] pub fn vp_vec_raw_neg_cached(q: &CachedPoint) -> CachedPoint { -q }
    #[no_mangle] #[inline(never)] pub fn vp_vec_add_cached_identity(p: &EdwardsPoint) -> EdwardsPoint { (&ExtendedPoint::from(*p) + &CachedPoint::identity()).into() }
}

// ------------------------------------------------------------------ AVX-512 IFMA vector field kernels (unstable_avx512 build, nightly)
#[cfg(all(curve25519_dalek_backend = "unstable_avx512", curve25519_dalek_bits = "64", nightly))]
pub mod ifield {
    use crate::backend::serial::u64::field::FieldElement51 as F51;
    use crate::backend::vector::ifma::field::{F51x4Reduced as R4, F51x4Unreduced as U4};
    #[no_mangle] #[inline(never)] pub fn vp_i_new(a: &F51, b: &F51, c: &F51, d: &F51) -> U4 { U4::new(a, b, c, d) }
    #[no_mangle] #[inline(never)] pub fn vp_i_split(v: &U4) -> [F51; 4] { v.split() }
    #[no_mangle] #[inline(never)] pub fn vp_i_reduce(v: &U4) -> R4 { R4::from(*v) }
    #[no_mangle] #[inline(never)] pub fn vp_i_mul(a: &R4, b: &R4) -> U4 { a * b }
    #[no_mangle] #[inline(never)] pub fn vp_i_square(a: &R4) -> U4 { a.square() }
    #[no_mangle] #[inline(never)] pub fn vp_i_negate_lazy(a: &U4) -> U4 { a.negate_lazy() }
    #[no_mangle] #[inline(never)] pub fn vp_i_diff_sum(a: &U4) -> U4 { a.diff_sum() }
    #[no_mangle] #[inline(never)] pub fn vp_i_neg(a: &R4) -> R4 { -*a }
    #[no_mangle] #[inline(never)] pub fn vp_i_add(a: &U4, b: &U4) -> U4 { *a + *b }
    #[no_mangle] #[inline(never)] pub fn vp_i_mul_small(a: &R4, s0: u32, s1: u32, s2: u32, s3: u32) -> U4 { a * (s0, s1, s2, s3) }
    use crate::backend::vector::ifma::edwards::{CachedPoint, ExtendedPoint};
    use crate::edwards::EdwardsPoint;
    use crate::traits::Identity;
    #[no_mangle] #[inline(never)] pub fn vp_ivec_add(p: &EdwardsPoint, q: &EdwardsPoint) -> EdwardsPoint { (&ExtendedPoint::from(*p) + &CachedPoint::from(ExtendedPoint::from(*q))).into() }
    #[no_mangle] #[inline(never)] pub fn vp_ivec_sub(p: &EdwardsPoint, q: &EdwardsPoint) -> EdwardsPoint { (&ExtendedPoint::from(*p) - &CachedPoint::from(ExtendedPoint::from(*q))).into() }
    #[no_mangle] #[inline(never)] pub fn vp_ivec_double(p: &EdwardsPoint) -> EdwardsPoint { ExtendedPoint::from(*p).double().into() }
    #[no_mangle] #[inline(never)] pub fn vp_ivec_roundtrip(p: &EdwardsPoint) -> EdwardsPoint { ExtendedPoint::from(*p).into() }
    #[no_mangle] #[inline(never)] pub fn vp_ivec_identity() -> EdwardsPoint { ExtendedPoint::identity().into() }
    #[no_mangle] #[inline(never)] pub fn vp_ivec_add_cached_identity(p: &EdwardsPoint) -> EdwardsPoint { (&ExtendedPoint::from(*p) + &CachedPoint::identity()).into() }
}

// ------------------------------------------------------------------ Scalar-level glue (C02, layer F for scalars)
#[no_mangle] #[inline(never)] pub fn vp_sc_add(a: &Scalar, b: &Scalar) -> Scalar { a + b }
#[no_mangle] #[inline(never)] pub fn vp_sc_sub(a: &Scalar, b: &Scalar) -> Scalar { a - b }
#[no_mangle] #[inline(never)] pub fn vp_sc_mul(a: &Scalar, b: &Scalar) -> Scalar { a * b }
#[no_mangle] #[inline(never)] pub fn vp_sc_neg(a: &Scalar) -> Scalar { -a }
#[no_mangle] #[inline(never)] pub fn vp_sc_from_bytes_mod_order(b: &[u8; 32]) -> Scalar { Scalar::from_bytes_mod_order(*b) }
#[no_mangle] #[inline(never)] pub fn vp_sc_from_bytes_mod_order_wide(b: &[u8; 64]) -> Scalar { Scalar::from_bytes_mod_order_wide(b) }
#[no_mangle] #[inline(never)] pub fn vp_sc_from_canonical_bytes(b: &[u8; 32], out: &mut Scalar) -> u8 {
    let r = Scalar::from_canonical_bytes(*b); let ok = r.is_some().unwrap_u8();
    *out = r.unwrap_or(Scalar::ZERO); ok
}
#[no_mangle] #[inline(never)] pub fn vp_sc_invert(a: &Scalar) -> Scalar { a.invert() }
#[no_mangle] #[inline(never)] pub fn vp_sc_from_u64(x: u64) -> Scalar { Scalar::from(x) }
#[no_mangle] #[inline(never)] pub fn vp_sc_from_u128(x: u128) -> Scalar { Scalar::from(x) }
#[no_mangle] #[inline(never)] pub fn vp_sc_from_u8(x: u8) -> Scalar { Scalar::from(x) }
#[no_mangle] #[inline(never)] pub fn vp_sc_from_u16(x: u16) -> Scalar { Scalar::from(x) }
#[no_mangle] #[inline(never)] pub fn vp_sc_from_u32(x: u32) -> Scalar { Scalar::from(x) }
#[no_mangle] #[inline(never)] pub fn vp_sc_ct_eq(a: &Scalar, b: &Scalar) -> u8 { a.ct_eq(b).unwrap_u8() }
#[cfg(feature = "alloc")]
#[no_mangle] #[inline(never)] pub fn vp_sc_batch_invert(a: &mut [Scalar]) -> Scalar { Scalar::batch_invert(a) }
#[no_mangle] #[inline(never)] pub fn vp_sc_sum3(a: &[Scalar; 3]) -> Scalar { a.iter().sum() }
#[no_mangle] #[inline(never)] pub fn vp_sc_product3(a: &[Scalar; 3]) -> Scalar { a.iter().product() }

// ------------------------------------------------------------------ ff / group trait glue (C17, feature "group")
#[cfg(feature = "group")]
pub mod ffg {
    use super::*;
    use group::ff::{Field, PrimeField, FromUniformBytes};
    use group::{Group, GroupEncoding, cofactor::CofactorGroup};
    macro_rules! sc_const { ($name:ident, $e:expr) => { #[no_mangle] #[inline(never)] pub fn $name() -> &'static Scalar { &$e } } }
    sc_const!(vp_ff_two_inv, <Scalar as PrimeField>::TWO_INV);
    sc_const!(vp_ff_mult_gen, <Scalar as PrimeField>::MULTIPLICATIVE_GENERATOR);
    sc_const!(vp_ff_root_of_unity, <Scalar as PrimeField>::ROOT_OF_UNITY);
    sc_const!(vp_ff_root_of_unity_inv, <Scalar as PrimeField>::ROOT_OF_UNITY_INV);
    sc_const!(vp_ff_delta, <Scalar as PrimeField>::DELTA);
    sc_const!(vp_ff_zero, <Scalar as Field>::ZERO);
    sc_const!(vp_ff_one, <Scalar as Field>::ONE);
    #[no_mangle] #[inline(never)] pub fn vp_grp_is_torsion_free(a: &EdwardsPoint) -> u8 { <EdwardsPoint as CofactorGroup>::is_torsion_free(a).unwrap_u8() }
    #[no_mangle] #[inline(never)] pub fn vp_grp_into_subgroup_is_some(a: &EdwardsPoint) -> u8 { <EdwardsPoint as CofactorGroup>::into_subgroup(*a).is_some().unwrap_u8() }
    #[no_mangle] #[inline(never)] pub fn vp_ff_s() -> u32 { <Scalar as PrimeField>::S }
    #[no_mangle] #[inline(never)] pub fn vp_ff_num_bits() -> u32 { <Scalar as PrimeField>::NUM_BITS }
    #[no_mangle] #[inline(never)] pub fn vp_ff_capacity() -> u32 { <Scalar as PrimeField>::CAPACITY }
    #[no_mangle] #[inline(never)] pub fn vp_ff_modulus(out: &mut [u8; 80]) -> usize { let m = <Scalar as PrimeField>::MODULUS.as_bytes(); let mut i = 0; while i < m.len() && i < 80 { out[i] = m[i]; i += 1; } m.len() }
    #[no_mangle] #[inline(never)] pub fn vp_ff_sqrt(a: &Scalar, out: &mut Scalar) -> u8 { let r = <Scalar as Field>::sqrt(a); let ok = r.is_some().unwrap_u8(); *out = r.unwrap_or(Scalar::ZERO); ok }
    #[no_mangle] #[inline(never)] pub fn vp_ff_from_repr(b: &[u8; 32], out: &mut Scalar) -> u8 { let r = <Scalar as PrimeField>::from_repr(*b); let ok = r.is_some().unwrap_u8(); *out = r.unwrap_or(Scalar::ZERO); ok }
    #[no_mangle] #[inline(never)] pub fn vp_ff_from_repr_vartime(b: &[u8; 32], out: &mut Scalar) -> u8 { match <Scalar as PrimeField>::from_repr_vartime(*b) { Some(s) => { *out = s; 1 } None => 0 } }
    #[no_mangle] #[inline(never)] pub fn vp_ff_to_repr(a: &Scalar) -> [u8; 32] { <Scalar as PrimeField>::to_repr(a) }
    #[no_mangle] #[inline(never)] pub fn vp_ff_is_odd(a: &Scalar) -> u8 { <Scalar as PrimeField>::is_odd(a).unwrap_u8() }
    #[no_mangle] #[inline(never)] pub fn vp_ff_invert_flag(a: &Scalar) -> u8 { <Scalar as Field>::invert(a).is_some().unwrap_u8() }
    #[no_mangle] #[inline(never)] pub fn vp_ff_square(a: &Scalar) -> Scalar { <Scalar as Field>::square(a) }
    #[no_mangle] #[inline(never)] pub fn vp_ff_double(a: &Scalar) -> Scalar { <Scalar as Field>::double(a) }
    #[no_mangle] #[inline(never)] pub fn vp_ff_from_uniform_bytes(b: &[u8; 64]) -> Scalar { <Scalar as FromUniformBytes<64>>::from_uniform_bytes(b) }
    #[no_mangle] #[inline(never)] pub fn vp_grp_ed_from_bytes(b: &[u8; 32], out: &mut EdwardsPoint) -> bool { let r = <EdwardsPoint as GroupEncoding>::from_bytes(b); let ok: bool = r.is_some().into(); *out = r.unwrap_or(<EdwardsPoint as crate::traits::Identity>::identity()); ok }
    #[no_mangle] #[inline(never)] pub fn vp_grp_ed_to_bytes(a: &EdwardsPoint) -> [u8; 32] { <EdwardsPoint as GroupEncoding>::to_bytes(a) }
    #[no_mangle] #[inline(never)] pub fn vp_grp_ris_from_bytes(b: &[u8; 32], out: &mut EdwardsPoint) -> bool { let r = <RistrettoPoint as GroupEncoding>::from_bytes(b); let ok: bool = r.is_some().into(); *out = r.unwrap_or(<RistrettoPoint as crate::traits::Identity>::identity()).0; ok }
    #[no_mangle] #[inline(never)] pub fn vp_grp_ris_to_bytes(a: &EdwardsPoint) -> [u8; 32] { <RistrettoPoint as GroupEncoding>::to_bytes(&RistrettoPoint(*a)) }
    #[no_mangle] #[inline(never)] pub fn vp_grp_clear_cofactor(a: &EdwardsPoint) -> EdwardsPoint { let s = <EdwardsPoint as CofactorGroup>::clear_cofactor(a); s.into() }
    #[no_mangle] #[inline(never)] pub fn vp_grp_ed_double(a: &EdwardsPoint) -> EdwardsPoint { <EdwardsPoint as Group>::double(a) }
    #[no_mangle] #[inline(never)] pub fn vp_grp_ed_is_identity(a: &EdwardsPoint) -> u8 { <EdwardsPoint as Group>::is_identity(a).unwrap_u8() }
    #[no_mangle] #[inline(never)] pub fn vp_grp_ed_generator() -> EdwardsPoint { <EdwardsPoint as Group>::generator() }
    #[no_mangle] #[inline(never)] pub fn vp_grp_ed_identity() -> EdwardsPoint { <EdwardsPoint as Group>::identity() }
}

// ------------------------------------------------------------------ explicit zeroisation (C14)
#[cfg(feature = "zeroize")]
pub mod zz {
    use super::*;
    use zeroize::Zeroize;
    #[no_mangle] #[inline(never)] pub fn vp_z_scalar(a: &mut Scalar) { a.zeroize() }
    #[no_mangle] #[inline(never)] pub fn vp_z_ristretto(a: &mut RistrettoPoint) { a.zeroize() }
    #[no_mangle] #[inline(never)] pub fn vp_z_compressed_edwards(a: &mut CompressedEdwardsY) { a.zeroize() }
    #[no_mangle] #[inline(never)] pub fn vp_z_compressed_ristretto(a: &mut CompressedRistretto) { a.zeroize() }
    #[no_mangle] #[inline(never)] pub fn vp_z_montgomery(a: &mut MontgomeryPoint) { a.zeroize() }
    #[no_mangle] #[inline(never)] pub fn vp_z_projective_niels(a: &mut ProjectiveNielsPoint) { a.zeroize() }
    #[no_mangle] #[inline(never)] pub fn vp_z_affine_niels(a: &mut AffineNielsPoint) { a.zeroize() }
    #[no_mangle] #[inline(never)] pub fn vp_z_fe(a: &mut FieldElement) { a.zeroize() }
}
