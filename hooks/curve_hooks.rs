// Included into curve25519-dalek as `crate::verif_hooks` when built with --cfg curve25519_dalek_verif.
// (a) `vp_*` entry wrappers: stable, unmangled symbols for the LLVM-IR symbolic interpreter (llsym);
// (b) Kani harnesses (cfg(kani)), in kani_curve.rs; (c) replay entry points.
// Nothing here changes the behaviour of the crate.

use crate::field::FieldElement;
use crate::scalar::Scalar;
use subtle::{Choice, ConditionallyNegatable, ConditionallySelectable, ConstantTimeEq};

cfg_if::cfg_if! {
    if #[cfg(curve25519_dalek_backend = "fiat")] {
        #[cfg(curve25519_dalek_bits = "32")]
        pub type US = crate::backend::serial::fiat_u32::scalar::Scalar29;
        #[cfg(curve25519_dalek_bits = "64")]
        pub type US = crate::backend::serial::fiat_u64::scalar::Scalar52;
    } else if #[cfg(curve25519_dalek_bits = "64")] {
        pub type US = crate::backend::serial::u64::scalar::Scalar52;
    } else {
        pub type US = crate::backend::serial::u32::scalar::Scalar29;
    }
}

// ------------------------------------------------------------------ field kernels (layer L)
#[no_mangle] #[inline(never)] pub fn vp_fe_mul(a: &FieldElement, b: &FieldElement) -> FieldElement { a * b }
#[no_mangle] #[inline(never)] pub fn vp_fe_add(a: &FieldElement, b: &FieldElement) -> FieldElement { a + b }
#[no_mangle] #[inline(never)] pub fn vp_fe_sub(a: &FieldElement, b: &FieldElement) -> FieldElement { a - b }
#[no_mangle] #[inline(never)] pub fn vp_fe_neg(a: &FieldElement) -> FieldElement { -a }
#[no_mangle] #[inline(never)] pub fn vp_fe_square(a: &FieldElement) -> FieldElement { a.square() }
#[no_mangle] #[inline(never)] pub fn vp_fe_square2(a: &FieldElement) -> FieldElement { a.square2() }
#[no_mangle] #[inline(never)] pub fn vp_fe_pow2k(a: &FieldElement, k: u32) -> FieldElement { a.pow2k(k) }
#[no_mangle] #[inline(never)] pub fn vp_fe_from_bytes(b: &[u8; 32]) -> FieldElement { FieldElement::from_bytes(b) }
#[no_mangle] #[inline(never)] pub fn vp_fe_as_bytes(a: &FieldElement) -> [u8; 32] { a.as_bytes() }
#[no_mangle] #[inline(never)] pub fn vp_fe_select(a: &FieldElement, b: &FieldElement, c: u8) -> FieldElement {
    FieldElement::conditional_select(a, b, Choice::from(c))
}
#[no_mangle] #[inline(never)] pub fn vp_fe_assign(a: &mut FieldElement, b: &FieldElement, c: u8) {
    a.conditional_assign(b, Choice::from(c))
}
#[no_mangle] #[inline(never)] pub fn vp_fe_swap(a: &mut FieldElement, b: &mut FieldElement, c: u8) {
    FieldElement::conditional_swap(a, b, Choice::from(c))
}
#[no_mangle] #[inline(never)] pub fn vp_fe_cneg(a: &mut FieldElement, c: u8) { a.conditional_negate(Choice::from(c)) }
#[no_mangle] #[inline(never)] pub fn vp_fe_ct_eq(a: &FieldElement, b: &FieldElement) -> u8 { a.ct_eq(b).unwrap_u8() }
#[no_mangle] #[inline(never)] pub fn vp_fe_is_negative(a: &FieldElement) -> u8 { a.is_negative().unwrap_u8() }
#[no_mangle] #[inline(never)] pub fn vp_fe_is_zero(a: &FieldElement) -> u8 { a.is_zero().unwrap_u8() }
#[no_mangle] #[inline(never)] pub fn vp_fe_invert(a: &FieldElement) -> FieldElement { a.invert() }
#[no_mangle] #[inline(never)] pub fn vp_fe_sqrt_ratio_i(u: &FieldElement, v: &FieldElement, out: &mut FieldElement) -> u8 {
    let (c, r) = FieldElement::sqrt_ratio_i(u, v); *out = r; c.unwrap_u8()
}
#[no_mangle] #[inline(never)] pub fn vp_fe_invsqrt(v: &FieldElement, out: &mut FieldElement) -> u8 {
    let (c, r) = v.invsqrt(); *out = r; c.unwrap_u8()
}
#[cfg(feature = "alloc")]
#[no_mangle] #[inline(never)] pub fn vp_fe_batch_invert(a: &mut [FieldElement]) { FieldElement::batch_invert(a) }

// ------------------------------------------------------------------ scalar kernels (layer L)
#[no_mangle] #[inline(never)] pub fn vp_us_from_bytes(b: &[u8; 32]) -> US { US::from_bytes(b) }
#[no_mangle] #[inline(never)] pub fn vp_us_from_bytes_wide(b: &[u8; 64]) -> US { US::from_bytes_wide(b) }
#[no_mangle] #[inline(never)] pub fn vp_us_as_bytes(a: &US) -> [u8; 32] { a.as_bytes() }
#[no_mangle] #[inline(never)] pub fn vp_us_add(a: &US, b: &US) -> US { US::add(a, b) }
#[no_mangle] #[inline(never)] pub fn vp_us_sub(a: &US, b: &US) -> US { US::sub(a, b) }
#[no_mangle] #[inline(never)] pub fn vp_us_mul(a: &US, b: &US) -> US { US::mul(a, b) }
#[no_mangle] #[inline(never)] pub fn vp_us_square(a: &US) -> US { a.square() }
#[no_mangle] #[inline(never)] pub fn vp_us_montgomery_mul(a: &US, b: &US) -> US { US::montgomery_mul(a, b) }
#[no_mangle] #[inline(never)] pub fn vp_us_montgomery_square(a: &US) -> US { a.montgomery_square() }
#[no_mangle] #[inline(never)] pub fn vp_us_as_montgomery(a: &US) -> US { a.as_montgomery() }
#[no_mangle] #[inline(never)] pub fn vp_us_from_montgomery(a: &US) -> US { a.from_montgomery() }

