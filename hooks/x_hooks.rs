// Included into x25519-dalek as `crate::verif_hooks` when built with --cfg curve25519_dalek_verif.
#[cfg(feature = "zeroize")]
pub mod drops {
    use crate::x25519::*;
    #[no_mangle] #[inline(never)] pub unsafe fn vp_drop_ephemeral_secret(p: *mut EphemeralSecret) { core::ptr::drop_in_place(p) }
    #[no_mangle] #[inline(never)] pub unsafe fn vp_drop_shared_secret(p: *mut SharedSecret) { core::ptr::drop_in_place(p) }
    #[cfg(feature = "reusable_secrets")]
    #[no_mangle] #[inline(never)] pub unsafe fn vp_drop_reusable_secret(p: *mut ReusableSecret) { core::ptr::drop_in_place(p) }
    #[cfg(feature = "static_secrets")]
    #[no_mangle] #[inline(never)] pub unsafe fn vp_drop_static_secret(p: *mut StaticSecret) { core::ptr::drop_in_place(p) }
}
// C07: the Diffie-Hellman entry points of every secret type against the byte-level function
pub mod dh {
    use crate::x25519::*;
    #[no_mangle] #[inline(never)] pub fn vp_x25519(k: &[u8; 32], u: &[u8; 32]) -> [u8; 32] { x25519(*k, *u) }
    #[no_mangle] #[inline(never)] pub fn vp_x_public_from_ephemeral(s: &EphemeralSecret) -> [u8; 32] { PublicKey::from(s).to_bytes() }
    #[no_mangle] #[inline(never)] pub fn vp_x_ephemeral_dh(s: &[u8; 32], p: &[u8; 32]) -> [u8; 32] { EphemeralSecret(*s).diffie_hellman(&PublicKey::from(*p)).to_bytes() }
    #[cfg(feature = "reusable_secrets")]
    #[no_mangle] #[inline(never)] pub fn vp_x_reusable_dh(s: &[u8; 32], p: &[u8; 32]) -> [u8; 32] { ReusableSecret(*s).diffie_hellman(&PublicKey::from(*p)).to_bytes() }
    #[cfg(feature = "static_secrets")]
    #[no_mangle] #[inline(never)] pub fn vp_x_static_dh(s: &[u8; 32], p: &[u8; 32]) -> [u8; 32] { StaticSecret::from(*s).diffie_hellman(&PublicKey::from(*p)).to_bytes() }
    #[cfg(feature = "static_secrets")]
    #[no_mangle] #[inline(never)] pub fn vp_x_public_from_static(s: &[u8; 32]) -> [u8; 32] { PublicKey::from(&StaticSecret::from(*s)).to_bytes() }
    #[cfg(feature = "reusable_secrets")]
    #[no_mangle] #[inline(never)] pub fn vp_x_public_from_reusable(s: &[u8; 32]) -> [u8; 32] { PublicKey::from(&ReusableSecret(*s)).to_bytes() }
    #[no_mangle] #[inline(never)] pub fn vp_x_public_from_ephemeral_bytes(s: &[u8; 32]) -> [u8; 32] { PublicKey::from(&EphemeralSecret(*s)).to_bytes() }
    #[no_mangle] #[inline(never)] pub fn vp_x_was_contributory(s: &[u8; 32]) -> bool { SharedSecret(curve25519_dalek::montgomery::MontgomeryPoint(*s)).was_contributory() }
}

// C16 (Kani, feature serde): PublicKey and StaticSecret derive their serde impls; StaticSecret must round-trip UNCLAMPED
#[cfg(all(kani, feature = "serde"))]
include!(concat!(env!("VERIF_HOOK_DIR"), "/../kani/serde_model.rs"));
#[cfg(all(kani, feature = "serde"))]
mod kani_c16 {
    use super::serde_model::*;
    use crate::x25519::*;
    fn first32(d: &[u8; CAP]) -> [u8; 32] { let mut o = [0u8; 32]; let mut i = 0; while i < 32 { o[i] = d[i]; i += 1; } o }
    fn is_tuple32(b: &Buf, want: &[u8; 32]) -> bool {
        if !(b.shape == SHAPE_TUPLE && b.declared == 32 && b.n == 32 && !b.in_tuple) { return false; }
        let mut i = 0; while i < 32 { if b.b[i] != want[i] { return false; } i += 1; }
        true
    }
    fn input() -> ([u8; CAP], usize, bool) {
        let data: [u8; CAP] = kani::any(); let len: usize = kani::any(); kani::assume(len <= 40);
        (data, len, kani::any())
    }
    #[kani::proof] #[kani::unwind(42)]
    fn c16_x25519_public_key_roundtrip() {
        let bytes: [u8; 32] = kani::any();
        let b = ser(&PublicKey::from(bytes));
        assert!(b.is_some()); assert!(is_tuple32(&b.unwrap(), &bytes));
        let (data, len, compact) = input();
        let got: Option<PublicKey> = de(&data, len, compact);
        assert!(got.is_some() == framing_ok(len, 32, compact, false));
        if let Some(c) = got { assert!(c.to_bytes() == first32(&data)); }
    }
    #[cfg(feature = "static_secrets")]
    #[kani::proof] #[kani::unwind(42)]
    fn c16_x25519_static_secret_roundtrip_unclamped() {
        let bytes: [u8; 32] = kani::any();
        let s = StaticSecret::from(bytes);
        let b = ser(&s);
        assert!(b.is_some()); assert!(is_tuple32(&b.unwrap(), &bytes));     // the stored bytes, not the clamped scalar
        core::mem::forget(s);
        let (data, len, compact) = input();
        let got: Option<StaticSecret> = de(&data, len, compact);
        assert!(got.is_some() == framing_ok(len, 32, compact, false));
        if let Some(c) = got { assert!(c.to_bytes() == first32(&data)); core::mem::forget(c); }
    }
}
