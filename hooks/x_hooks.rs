// Included into x25519-dalek as `crate::verif_hooks` when built with --cfg curve25519_dalek_verif.
#[cfg(feature = "zeroize")]
pub mod drops {
    use crate::x25519::*;
    #[no_mangle] #[inline(never)] pub unsafe fn vp_drop_ephemeral_secret(p: *mut EphemeralSecret) { core::ptr::drop_in_place(p) }
    #[no_mangle] #[inline(never)] pub unsafe fn vp_drop_shared_secret(p: *mut SharedSecret) { core::ptr::drop_in_place(p) }
    #[cfg(feature = "reusable_secrets")]
    #[no_mangle] #[inline(never)] pub unsafe fn vp_drop_reusable_secret(p: *mut ReusableSecret) { core::ptr::drop_in_place(p) }
    #[cfg(feature = "static_secrets")]
    #[no_mangle] #[inline(never)] pub unsafe fn vp_drop_static_secret(p: *mut StaticSecret) { core::ptr::drop_in_place(p) }
}
// C07: the Diffie-Hellman entry points of every secret type against the byte-level function
pub mod dh {
    use crate::x25519::*;
    #[no_mangle] #[inline(never)] pub fn vp_x25519(k: &[u8; 32], u: &[u8; 32]) -> [u8; 32] { x25519(*k, *u) }
    #[no_mangle] #[inline(never)] pub fn vp_x_public_from_ephemeral(s: &EphemeralSecret) -> [u8; 32] { PublicKey::from(s).to_bytes() }
    #[no_mangle] #[inline(never)] pub fn vp_x_ephemeral_dh(s: &[u8; 32], p: &[u8; 32]) -> [u8; 32] { EphemeralSecret(*s).diffie_hellman(&PublicKey::from(*p)).to_bytes() }
    #[cfg(feature = "reusable_secrets")]
    #[no_mangle] #[inline(never)] pub fn vp_x_reusable_dh(s: &[u8; 32], p: &[u8; 32]) -> [u8; 32] { ReusableSecret(*s).diffie_hellman(&PublicKey::from(*p)).to_bytes() }
    #[cfg(feature = "static_secrets")]
    #[no_mangle] #[inline(never)] pub fn vp_x_static_dh(s: &[u8; 32], p: &[u8; 32]) -> [u8; 32] { StaticSecret::from(*s).diffie_hellman(&PublicKey::from(*p)).to_bytes() }
    #[cfg(feature = "static_secrets")]
    #[no_mangle] #[inline(never)] pub fn vp_x_public_from_static(s: &[u8; 32]) -> [u8; 32] { PublicKey::from(&StaticSecret::from(*s)).to_bytes() }
    #[no_mangle] #[inline(never)] pub fn vp_x_was_contributory(s: &[u8; 32]) -> bool { SharedSecret(curve25519_dalek::montgomery::MontgomeryPoint(*s)).was_contributory() }
}
