// Included into ed25519-dalek as `crate::verif_hooks` when built with --cfg curve25519_dalek_verif.
include!(concat!(env!("VERIF_HOOK_DIR"), "/../kani/ed_kani.rs"));
