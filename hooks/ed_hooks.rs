// Included into ed25519-dalek as `crate::verif_hooks` when built with --cfg curve25519_dalek_verif.
include!(concat!(env!("VERIF_HOOK_DIR"), "/../kani/ed_kani.rs"));

// ---- C14: drop glue of the secret-holding types and the offsets of their secret fields (llsym memory model).
// ed25519-dalek forbids unsafe code (which includes #[no_mangle]): the wrappers are ordinary functions, located in
// the IR by their name inside the mangled symbol.
#[cfg(feature = "zeroize")]
pub mod drops {
    use crate::SigningKey;
    use crate::hazmat::ExpandedSecretKey;
    #[inline(never)] pub fn vp_drop_signing_key(k: SigningKey) { drop(k) }
    #[inline(never)] pub fn vp_drop_expanded_secret_key(k: ExpandedSecretKey) { drop(k) }
    #[inline(never)] pub fn vp_layout_signing_key(out: &mut [usize; 3]) {
        out[0] = core::mem::size_of::<SigningKey>(); out[1] = core::mem::offset_of!(SigningKey, secret_key); out[2] = 32;
    }
    #[inline(never)] pub fn vp_layout_expanded_secret_key(out: &mut [usize; 5]) {
        out[0] = core::mem::size_of::<ExpandedSecretKey>(); out[1] = core::mem::offset_of!(ExpandedSecretKey, scalar); out[2] = 32;
        out[3] = core::mem::offset_of!(ExpandedSecretKey, hash_prefix); out[4] = 32;
    }
}

#[cfg(all(kani, feature = "serde"))]
include!(concat!(env!("VERIF_HOOK_DIR"), "/../kani/serde_model.rs"));

// ---- C10: key derivation and signing entry points (located by name; no #[no_mangle] in this crate)
pub mod ct {
    use crate::{Signer, SigningKey};
    #[inline(never)] pub fn vp_ed_keygen(seed: &[u8; 32]) -> [u8; 32] { let k = SigningKey::from_bytes(seed); let v = k.verifying_key().to_bytes(); core::mem::forget(k); v }
    #[inline(never)] pub fn vp_ed_sign(seed: &[u8; 32], msg: &[u8]) -> [u8; 64] { let k = SigningKey::from_bytes(seed); let s = k.sign(msg).to_bytes(); core::mem::forget(k); s }
}

// ---- C13: verify_batch entry point for the group-level engine (messages all equal to `msg`, nm of them)
#[cfg(feature = "batch")]
pub mod batchhook {
    use crate::{Signature, VerifyingKey};
    use alloc::vec::Vec;
    #[inline(never)] pub fn vp_verify_batch(msg: &[u8], sigs: &[[u8; 64]], keys: &[VerifyingKey], nm: usize) -> bool {
        let ms: Vec<&[u8]> = (0..nm).map(|_| msg).collect();
        let ss: Vec<Signature> = sigs.iter().map(Signature::from_bytes).collect();
        crate::verify_batch(&ms, &ss, keys).is_ok()
    }
    #[inline(never)] pub fn vp_layout_verifying_key(out: &mut [usize; 3]) {
        out[0] = core::mem::size_of::<VerifyingKey>(); out[1] = core::mem::offset_of!(VerifyingKey, compressed); out[2] = core::mem::offset_of!(VerifyingKey, point);
    }
}

// ---- C08: key derivation as one run (layer G with uninterpreted SHA-512): SigningKey::from_bytes and ExpandedSecretKey::from
pub mod keygen {
    use crate::hazmat::ExpandedSecretKey;
    use crate::SigningKey;
    #[inline(never)] pub fn vp_ed_from_bytes(seed: &[u8; 32], out: &mut SigningKey) { core::mem::forget(core::mem::replace(out, SigningKey::from_bytes(seed))); }
    #[inline(never)] pub fn vp_ed_expand(seed: &[u8; 32], out: &mut ExpandedSecretKey) { core::mem::forget(core::mem::replace(out, ExpandedSecretKey::from(seed))); }
    #[inline(never)] pub fn vp_layout_keys(out: &mut [usize; 8]) {
        out[0] = core::mem::size_of::<SigningKey>(); out[1] = core::mem::offset_of!(SigningKey, secret_key); out[2] = core::mem::offset_of!(SigningKey, verifying_key);
        out[3] = core::mem::offset_of!(crate::VerifyingKey, compressed); out[4] = core::mem::offset_of!(crate::VerifyingKey, point);
        out[5] = core::mem::size_of::<ExpandedSecretKey>(); out[6] = core::mem::offset_of!(ExpandedSecretKey, scalar); out[7] = core::mem::offset_of!(ExpandedSecretKey, hash_prefix);
    }
}

// ---- C09: verification entry points for the group-level engine
pub mod vf {
    use crate::{Signature, Verifier, VerifyingKey};
    #[inline(never)] pub fn vp_ed_verify(k: &VerifyingKey, sig: &[u8; 64], msg: &[u8]) -> bool { k.verify(msg, &Signature::from_bytes(sig)).is_ok() }
    #[inline(never)] pub fn vp_ed_verify_strict(k: &VerifyingKey, sig: &[u8; 64], msg: &[u8]) -> bool { k.verify_strict(msg, &Signature::from_bytes(sig)).is_ok() }
}

// ---- C08 / C09: Ed25519ph entry points (feature digest) for the group-level engine; the prehash is SHA-512 of `msg`
#[cfg(feature = "digest")]
pub mod ph {
    use crate::{Signature, SigningKey, VerifyingKey};
    use sha2::{Digest, Sha512};
    #[inline(never)] pub fn vp_ed_sign_ph(seed: &[u8; 32], msg: &[u8], ctx: &[u8], out: &mut [u8; 64]) -> bool {
        let k = SigningKey::from_bytes(seed);
        let mut h = Sha512::new(); h.update(msg);
        let r = k.sign_prehashed(h, Some(ctx));
        core::mem::forget(k);
        match r { Ok(s) => { *out = s.to_bytes(); true } Err(_) => false }
    }
    #[inline(never)] pub fn vp_ed_verify_ph(k: &VerifyingKey, sig: &[u8; 64], msg: &[u8], ctx: &[u8]) -> bool {
        let mut h = Sha512::new(); h.update(msg);
        k.verify_prehashed(h, Some(ctx), &Signature::from_bytes(sig)).is_ok()
    }
    #[inline(never)] pub fn vp_ed_verify_ph_strict(k: &VerifyingKey, sig: &[u8; 64], msg: &[u8], ctx: &[u8]) -> bool {
        let mut h = Sha512::new(); h.update(msg);
        k.verify_prehashed_strict(h, Some(ctx), &Signature::from_bytes(sig)).is_ok()
    }
}

// ---- C08 (second sentence): sign, then verify under the same key (msg/ctx for verification passed separately)
pub mod rt {
    use crate::{Signer, SigningKey, Verifier};
    #[inline(never)] pub fn vp_ed_sign_then_verify(seed: &[u8; 32], msg: &[u8], vmsg: &[u8], strict: bool) -> bool {
        let k = SigningKey::from_bytes(seed);
        let sig = k.sign(msg);
        let vk = k.verifying_key();
        let r = if strict { vk.verify_strict(vmsg, &sig).is_ok() } else { vk.verify(vmsg, &sig).is_ok() };
        core::mem::forget(k); r
    }
    #[cfg(feature = "digest")]
    #[inline(never)] pub fn vp_ed_sign_then_verify_ph(seed: &[u8; 32], msg: &[u8], ctx: &[u8], vmsg: &[u8], vctx: &[u8], strict: bool) -> bool {
        use sha2::{Digest, Sha512};
        let k = SigningKey::from_bytes(seed);
        let mut h = Sha512::new(); h.update(msg);
        let sig = match k.sign_prehashed(h, Some(ctx)) { Ok(s) => s, Err(_) => { core::mem::forget(k); return false } };
        let vk = k.verifying_key();
        let mut h2 = Sha512::new(); h2.update(vmsg);
        let r = if strict { vk.verify_prehashed_strict(h2, Some(vctx), &sig).is_ok() } else { vk.verify_prehashed(h2, Some(vctx), &sig).is_ok() };
        core::mem::forget(k); r
    }
}

// ---- C07: Ed25519 -> X25519 key conversions
pub mod conv {
    use crate::SigningKey;
    use curve25519_dalek::scalar::Scalar;
    #[inline(never)] pub fn vp_ed_to_x25519(seed: &[u8; 32], scalar_bytes: &mut [u8; 32], scalar: &mut Scalar, mont: &mut [u8; 32]) {
        let k = SigningKey::from_bytes(seed);
        *scalar_bytes = k.to_scalar_bytes(); *scalar = k.to_scalar(); *mont = k.verifying_key().to_montgomery().to_bytes();
        core::mem::forget(k);
    }
}

// ---- C02 / C06: the hash-to-scalar and hash-to-group maps with a concrete 64-byte digest (curve25519-dalek feature `digest`)
#[cfg(feature = "digest")]
pub mod hashmaps {
    use curve25519_dalek::{ristretto::RistrettoPoint, scalar::Scalar};
    use sha2::{Digest, Sha512};
    #[inline(never)] pub fn vp_sc_hash_from_bytes(m: &[u8], out: &mut Scalar) { *out = Scalar::hash_from_bytes::<Sha512>(m) }
    #[inline(never)] pub fn vp_sc_from_hash(m1: &[u8], m2: &[u8], out: &mut Scalar) { let mut h = Sha512::new(); h.update(m1); h.update(m2); *out = Scalar::from_hash(h) }
    #[inline(never)] pub fn vp_ris_hash_from_bytes(m: &[u8], out: &mut RistrettoPoint) { *out = RistrettoPoint::hash_from_bytes::<Sha512>(m) }
    #[inline(never)] pub fn vp_ris_from_hash(m1: &[u8], m2: &[u8], out: &mut RistrettoPoint) { let mut h = Sha512::new(); h.update(m1); h.update(m2); *out = RistrettoPoint::from_hash(h) }
}
