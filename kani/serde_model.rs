// Model serde data formats for the C16 Kani harnesses (included into each crate's harness module).
//
// Two format models, selected by `compact`:
//   compact (bincode-like): a tuple of n elements is n consecutive bytes with no length on the wire - the input may
//       end early (EOF error from next_element) but a tuple never delivers more than n elements; byte strings carry
//       an attacker-controlled length prefix, i.e. visit_bytes receives a slice of arbitrary length;
//   self-describing (JSON-like): sequences have an arbitrary, input-controlled number of elements; a sequence that
//       the visitor did not consume completely is rejected by the format (serde_json's end_seq); byte strings are
//       delivered as sequences of numbers.
// Only what the crates' impls use is supported; everything else is an error.
pub mod serde_model {
    use serde::de::{self, DeserializeSeed, Deserializer, SeqAccess, Visitor};
    use serde::ser::{self, Impossible, Serialize, Serializer};
    use core::fmt;

    pub const CAP: usize = 72;
    #[derive(Debug)]
    pub struct MErr;
    impl fmt::Display for MErr { fn fmt(&self, _f: &mut fmt::Formatter<'_>) -> fmt::Result { Ok(()) } }
    impl ser::StdError for MErr {}
    impl ser::Error for MErr { fn custom<T: fmt::Display>(_m: T) -> Self { MErr } }
    impl de::Error for MErr { fn custom<T: fmt::Display>(_m: T) -> Self { MErr } }

    // ---------------------------------------------------------------- serialisation
    pub const SHAPE_NONE: u8 = 0; pub const SHAPE_TUPLE: u8 = 1; pub const SHAPE_BYTES: u8 = 2; pub const SHAPE_BAD: u8 = 9;
    pub struct Buf { pub b: [u8; CAP], pub n: usize, pub shape: u8, pub declared: usize, pub in_tuple: bool }
    impl Buf { pub fn new() -> Buf { Buf { b: [0u8; CAP], n: 0, shape: SHAPE_NONE, declared: 0, in_tuple: false } } }

    impl<'a> Serializer for &'a mut Buf {
        type Ok = (); type Error = MErr;
        type SerializeSeq = Impossible<(), MErr>; type SerializeTuple = &'a mut Buf; type SerializeTupleStruct = Impossible<(), MErr>;
        type SerializeTupleVariant = Impossible<(), MErr>; type SerializeMap = Impossible<(), MErr>;
        type SerializeStruct = Impossible<(), MErr>; type SerializeStructVariant = Impossible<(), MErr>;
        fn serialize_u8(self, v: u8) -> Result<(), MErr> {
            if !self.in_tuple { self.shape = SHAPE_BAD; return Err(MErr); }
            if self.n >= CAP { return Err(MErr); }
            self.b[self.n] = v; self.n += 1; Ok(())
        }
        fn serialize_bytes(self, v: &[u8]) -> Result<(), MErr> {
            if self.shape != SHAPE_NONE || v.len() > CAP { self.shape = SHAPE_BAD; return Err(MErr); }
            self.shape = SHAPE_BYTES; self.declared = v.len();
            let mut i = 0; while i < v.len() { self.b[i] = v[i]; i += 1; }
            self.n = v.len(); Ok(())
        }
        fn serialize_tuple(self, len: usize) -> Result<&'a mut Buf, MErr> {
            if self.shape != SHAPE_NONE { self.shape = SHAPE_BAD; return Err(MErr); }
            self.shape = SHAPE_TUPLE; self.declared = len; self.in_tuple = true; Ok(self)
        }
        fn serialize_newtype_struct<T: ?Sized + Serialize>(self, _name: &'static str, value: &T) -> Result<(), MErr> { value.serialize(self) }
        fn serialize_bool(self, _v: bool) -> Result<(), MErr> { Err(MErr) }
        fn serialize_i8(self, _v: i8) -> Result<(), MErr> { Err(MErr) }
        fn serialize_i16(self, _v: i16) -> Result<(), MErr> { Err(MErr) }
        fn serialize_i32(self, _v: i32) -> Result<(), MErr> { Err(MErr) }
        fn serialize_i64(self, _v: i64) -> Result<(), MErr> { Err(MErr) }
        fn serialize_u16(self, _v: u16) -> Result<(), MErr> { Err(MErr) }
        fn serialize_u32(self, _v: u32) -> Result<(), MErr> { Err(MErr) }
        fn serialize_u64(self, _v: u64) -> Result<(), MErr> { Err(MErr) }
        fn serialize_f32(self, _v: f32) -> Result<(), MErr> { Err(MErr) }
        fn serialize_f64(self, _v: f64) -> Result<(), MErr> { Err(MErr) }
        fn serialize_char(self, _v: char) -> Result<(), MErr> { Err(MErr) }
        fn serialize_str(self, _v: &str) -> Result<(), MErr> { Err(MErr) }
        fn serialize_none(self) -> Result<(), MErr> { Err(MErr) }
        fn serialize_some<T: ?Sized + Serialize>(self, _v: &T) -> Result<(), MErr> { Err(MErr) }
        fn serialize_unit(self) -> Result<(), MErr> { Err(MErr) }
        fn serialize_unit_struct(self, _n: &'static str) -> Result<(), MErr> { Err(MErr) }
        fn serialize_unit_variant(self, _n: &'static str, _i: u32, _v: &'static str) -> Result<(), MErr> { Err(MErr) }
        fn serialize_newtype_variant<T: ?Sized + Serialize>(self, _n: &'static str, _i: u32, _v: &'static str, _x: &T) -> Result<(), MErr> { Err(MErr) }
        fn serialize_seq(self, _l: Option<usize>) -> Result<Self::SerializeSeq, MErr> { Err(MErr) }
        fn serialize_tuple_struct(self, _n: &'static str, _l: usize) -> Result<Self::SerializeTupleStruct, MErr> { Err(MErr) }
        fn serialize_tuple_variant(self, _n: &'static str, _i: u32, _v: &'static str, _l: usize) -> Result<Self::SerializeTupleVariant, MErr> { Err(MErr) }
        fn serialize_map(self, _l: Option<usize>) -> Result<Self::SerializeMap, MErr> { Err(MErr) }
        fn serialize_struct(self, _n: &'static str, _l: usize) -> Result<Self::SerializeStruct, MErr> { Err(MErr) }
        fn serialize_struct_variant(self, _n: &'static str, _i: u32, _v: &'static str, _l: usize) -> Result<Self::SerializeStructVariant, MErr> { Err(MErr) }
        fn collect_str<T: ?Sized + fmt::Display>(self, _v: &T) -> Result<(), MErr> { Err(MErr) }
        fn is_human_readable(&self) -> bool { false }
    }
    impl<'a> ser::SerializeTuple for &'a mut Buf {
        type Ok = (); type Error = MErr;
        fn serialize_element<T: ?Sized + Serialize>(&mut self, value: &T) -> Result<(), MErr> { value.serialize(&mut **self) }
        fn end(self) -> Result<(), MErr> { self.in_tuple = false; Ok(()) }
    }
    /// serialise `v`; returns (shape, declared length, bytes written, buffer) or None on a serialisation error
    pub fn ser<T: Serialize>(v: &T) -> Option<Buf> {
        let mut b = Buf::new();
        match v.serialize(&mut b) { Ok(()) => Some(b), Err(_) => None }
    }

    // ---------------------------------------------------------------- deserialisation
    pub struct MDe<'a> { pub data: &'a [u8; CAP], pub len: usize, pub compact: bool }
    struct MSeq<'a, 'p> { data: &'a [u8; CAP], pos: &'p mut usize, avail: usize, limit: usize }
    struct Elem(u8);
    impl<'de> Deserializer<'de> for Elem {
        type Error = MErr;
        fn deserialize_any<V: Visitor<'de>>(self, v: V) -> Result<V::Value, MErr> { v.visit_u8(self.0) }
        fn deserialize_u8<V: Visitor<'de>>(self, v: V) -> Result<V::Value, MErr> { v.visit_u8(self.0) }
        serde::forward_to_deserialize_any! { bool i8 i16 i32 i64 i128 u16 u32 u64 u128 f32 f64 char str string bytes byte_buf option unit
            unit_struct newtype_struct seq tuple tuple_struct map struct enum identifier ignored_any }
    }
    impl<'de, 'a, 'p> SeqAccess<'de> for MSeq<'a, 'p> {
        type Error = MErr;
        fn next_element_seed<T: DeserializeSeed<'de>>(&mut self, seed: T) -> Result<Option<T::Value>, MErr> {
            if *self.pos >= self.limit { return Ok(None); }
            if *self.pos >= self.avail { return Err(MErr); }      // compact format: input ended inside the tuple
            let b = self.data[*self.pos]; *self.pos += 1;
            seed.deserialize(Elem(b)).map(Some)
        }
    }
    impl<'a> MDe<'a> {
        fn seq<'de, V: Visitor<'de>>(self, v: V, want: Option<usize>) -> Result<V::Value, MErr> {
            let mut pos = 0usize;
            let r = if self.compact {
                let n = match want { Some(n) => n, None => return Err(MErr) };
                v.visit_seq(MSeq { data: self.data, pos: &mut pos, avail: self.len, limit: n })?
            } else {
                let r = v.visit_seq(MSeq { data: self.data, pos: &mut pos, avail: self.len, limit: self.len })?;
                if pos != self.len { return Err(MErr); }          // trailing elements: rejected by the format (end_seq)
                r
            };
            Ok(r)
        }
    }
    impl<'de, 'a> Deserializer<'de> for MDe<'a> {
        type Error = MErr;
        fn deserialize_any<V: Visitor<'de>>(self, _v: V) -> Result<V::Value, MErr> { Err(MErr) }
        fn deserialize_tuple<V: Visitor<'de>>(self, n: usize, v: V) -> Result<V::Value, MErr> { self.seq(v, Some(n)) }
        fn deserialize_bytes<V: Visitor<'de>>(self, v: V) -> Result<V::Value, MErr> {
            if self.compact { v.visit_bytes(&self.data[..self.len]) } else { self.seq(v, None) }
        }
        fn deserialize_newtype_struct<V: Visitor<'de>>(self, _name: &'static str, v: V) -> Result<V::Value, MErr> { v.visit_newtype_struct(self) }
        fn is_human_readable(&self) -> bool { !self.compact }
        serde::forward_to_deserialize_any! { bool i8 i16 i32 i64 i128 u8 u16 u32 u64 u128 f32 f64 char str string byte_buf option unit
            unit_struct seq tuple_struct map struct enum identifier ignored_any }
    }
    pub fn de<'a, T: de::Deserialize<'a>>(data: &'a [u8; CAP], len: usize, compact: bool) -> Option<T> {
        match T::deserialize(MDe { data, len, compact }) { Ok(v) => Some(v), Err(_) => None }
    }
    /// which inputs a 32-byte (or n-byte) fixed-size value must accept as far as framing is concerned
    pub fn framing_ok(len: usize, n: usize, compact: bool, via_bytes: bool) -> bool {
        if compact && !via_bytes { len >= n } else { len == n }
    }
}
