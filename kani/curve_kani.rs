// Kani proof harnesses compiled inside curve25519-dalek (through the cfg-guarded include hook).
// Every harness ends in a reachability witness kani::cover!(true) (vacuity guard) and carries an unwind bound
// derived from the code (loop trip counts) with Kani's unwinding assertions left on.

#[cfg(all(kani, feature = "alloc", feature = "precomputed-tables"))]
mod kani_harnesses {
    use super::*;
    use crate::scalar::Scalar;
    use crate::traits::Identity;
    use crate::window::*;
    use subtle::{Choice, ConditionallyNegatable, ConditionallySelectable};

    fn any_scalar_255() -> Scalar {
        let bytes: [u8; 32] = kani::any();
        kani::assume(bytes[31] <= 127);            // Scalar invariant #1 (value < 2^255)
        Scalar { bytes }
    }
    fn nibble(b: &[u8; 32], i: usize) -> i16 { ((b[i / 2] >> (4 * (i % 2))) & 15) as i16 }
    fn bit(b: &[u8; 32], i: usize) -> i16 { if i >= 256 { 0 } else { ((b[i / 8] >> (i % 8)) & 1) as i16 } }
    fn window(b: &[u8; 32], i: usize, w: usize) -> i32 {
        let mut v = 0i32; let mut k = 0;
        while k < w { v |= (bit(b, i * w + k) as i32) << k; k += 1; }
        v
    }

    // C04: as_radix_16 - digit ranges and the carry certificate  n_i + c_i = d_i + 16 c_{i+1}, c in {0,1},
    // d_63 = n_63 + c_63, which telescopes to  sum d_i 16^i = s  for every s < 2^255
    #[kani::proof]
    #[kani::unwind(65)]
    fn c04_as_radix_16_certificate() {
        let s = any_scalar_255();
        let d = s.as_radix_16();
        let mut c: i16 = 0;
        let mut i = 0;
        while i < 63 {
            assert!(d[i] >= -8 && d[i] < 8);
            let t = nibble(&s.bytes, i) + c - d[i] as i16;
            assert!(t == 0 || t == 16);
            c = t >> 4;
            i += 1;
        }
        assert!(d[63] as i16 == nibble(&s.bytes, 63) + c);
        assert!(d[63] >= -8 && d[63] <= 8);
        kani::cover!(true);
    }

    fn radix_2w_certificate(w: usize) {
        let s = any_scalar_255();
        let d = s.as_radix_2w(w);
        let n = (256 + w - 1) / w;                 // digits_count in the code
        let half = 1i32 << (w - 1);
        let mut c: i32 = 0;
        let mut i = 0;
        while i < n {
            let t = window(&s.bytes, i, w) + c - d[i] as i32;
            if i + 1 < n || w == 8 {
                assert!((d[i] as i32) >= -half && (d[i] as i32) < half);
                assert!(t == 0 || t == (1i32 << w));
                c = t >> w;
            } else {
                // last digit of 4 < w < 8 absorbs the final carry: exact equality, digit <= 2^(w-1) (value < 2^255)
                assert!(t == 0);
                assert!((d[i] as i32) >= -half && (d[i] as i32) <= half);
                c = 0;
            }
            i += 1;
        }
        if w == 8 { assert!(d[n] as i32 == c); assert!(c == 0 || c == 1); } else { assert!(c == 0); }
        let mut j = if w == 8 { n + 1 } else { n };
        while j < 64 { assert!(d[j] == 0); j += 1; }
        kani::cover!(true);
    }
    #[kani::proof] #[kani::unwind(66)] fn c04_as_radix_2w_5_certificate() { radix_2w_certificate(5) }
    #[kani::proof] #[kani::unwind(66)] fn c04_as_radix_2w_6_certificate() { radix_2w_certificate(6) }
    #[kani::proof] #[kani::unwind(66)] fn c04_as_radix_2w_7_certificate() { radix_2w_certificate(7) }
    #[kani::proof] #[kani::unwind(66)] fn c04_as_radix_2w_8_certificate() { radix_2w_certificate(8) }

    // C04: non_adjacent_form(w): digits zero or odd with |d| < 2^(w-1), non-adjacency, and the running certificate
    // bit_i + c_i = d_i + 2 c_{i+1} with c_256 = 0  (=> sum d_i 2^i = s)
    fn naf_certificate(w: usize) {
        let s = any_scalar_255();
        let d = s.non_adjacent_form(w);
        let m = 1i32 << (w - 1);
        let mut c: i32 = 0;
        let mut last_nz: i32 = -1000;
        let mut i = 0;
        while i < 256 {
            let di = d[i] as i32;
            assert!(di == 0 || (di & 1) == 1);
            assert!(di > -m && di < m);
            if di != 0 { assert!(i as i32 - last_nz >= w as i32); last_nz = i as i32; }
            let t = bit(&s.bytes, i) as i32 + c - di;
            assert!(t & 1 == 0);
            c = t >> 1;
            assert!(c >= -128 && c <= 128);
            i += 1;
        }
        assert!(c == 0);
        kani::cover!(true);
    }
    #[kani::proof] #[kani::unwind(258)] fn c04_naf_5_certificate() { naf_certificate(5) }
    #[kani::proof] #[kani::unwind(258)] fn c04_naf_8_certificate() { naf_certificate(8) }

    // C04: generic LookupTable*::select instantiated with a one-byte model point type M(v): the table is
    // [M(1), .., M(n)]; select(x) must be M(x) for every x in [-n, n] (constant-time scan + conditional negate).
    #[derive(Copy, Clone, PartialEq, Eq, Default)]
    pub struct M(pub i16);
    impl Identity for M { fn identity() -> M { M(0) } }
    impl ConditionallySelectable for M {
        fn conditional_select(a: &M, b: &M, c: Choice) -> M { M(i16::conditional_select(&a.0, &b.0, c)) }
    }
    impl<'a> core::ops::Neg for &'a M { type Output = M; fn neg(self) -> M { M(-self.0) } }
    macro_rules! select_harness { ($name:ident, $t:ident, $n:expr, $u:expr) => {
        #[kani::proof] #[kani::unwind($u)]
        fn $name() {
            let mut tab = [M(0); $n];
            let mut j = 0; while j < $n { tab[j] = M(j as i16 + 1); j += 1; }
            let t = $t::<M>(tab);
            let x: i8 = kani::any();
            kani::assume((x as i16) >= -($n as i16) && (x as i16) <= $n as i16);
            if $n == 128 { kani::assume(x != -128 || true); }
            let r = t.select(x);
            assert!(r.0 == x as i16);
            kani::cover!(x as i16 == -($n as i16));
            kani::cover!(true);
        } } }
    select_harness!(c04_select_radix16, LookupTable, 8, 10);
    select_harness!(c04_select_radix32, LookupTableRadix32, 16, 18);
    select_harness!(c04_select_radix64, LookupTableRadix64, 32, 34);
    select_harness!(c04_select_radix128, LookupTableRadix128, 64, 66);
    select_harness!(c04_select_radix256, LookupTableRadix256, 128, 130);

    // NAF tables: select(x) = T[x/2] for odd x
    #[kani::proof] #[kani::unwind(10)]
    fn c04_naf_select_5() {
        let mut tab = [M(0); 8];
        let mut j = 0; while j < 8 { tab[j] = M(2 * j as i16 + 1); j += 1; }
        let t = NafLookupTable5::<M>(tab);
        let x: usize = kani::any();
        kani::assume(x & 1 == 1 && x < 16);
        assert!(t.select(x).0 == x as i16);
        kani::cover!(true);
    }
    #[kani::proof] #[kani::unwind(66)]
    fn c04_naf_select_8() {
        let mut tab = [M(0); 64];
        let mut j = 0; while j < 64 { tab[j] = M(2 * j as i16 + 1); j += 1; }
        let t = NafLookupTable8::<M>(tab);
        let x: usize = kani::any();
        kani::assume(x & 1 == 1 && x < 128);
        assert!(t.select(x).0 == x as i16);
        kani::cover!(true);
    }

    // C07: clamp_integer mask facts for all 2^256 inputs; C04/C07: bits_le is the little-endian bit string
    #[kani::proof] #[kani::unwind(33)]
    fn c07_clamp_integer() {
        let b: [u8; 32] = kani::any();
        let c = crate::scalar::clamp_integer(b);
        assert!(c[0] == b[0] & 248);
        assert!(c[31] == (b[31] & 127) | 64);
        let mut i = 1; while i < 31 { assert!(c[i] == b[i]); i += 1; }
        kani::cover!(true);
    }
    #[kani::proof] #[kani::unwind(258)]
    fn c04_bits_le() {
        let s = Scalar { bytes: kani::any() };
        let mut i = 0usize;
        for bt in s.bits_le() {
            assert!(bt == (bit(&s.bytes, i) == 1));
            i += 1;
        }
        assert!(i == 256);
        kani::cover!(true);
    }
}

// C15: slice decoders of the curve crate are total (any length 0..=65): Err for every length != 32, never a panic
#[cfg(kani)]
mod kani_c15 {
    use crate::edwards::CompressedEdwardsY;
    use crate::ristretto::CompressedRistretto;
    use crate::montgomery::MontgomeryPoint;
    #[kani::proof] #[kani::unwind(68)]
    fn c15_compressed_edwards_from_slice_total() {
        let buf: [u8; 66] = kani::any(); let len: usize = kani::any(); kani::assume(len <= 66);
        let r = CompressedEdwardsY::from_slice(&buf[..len]);
        assert!(r.is_ok() == (len == 32));
        if let Ok(c) = r { let mut i = 0; while i < 32 { assert!(c.0[i] == buf[i]); i += 1; } }
        let r2 = CompressedEdwardsY::try_from(&buf[..len]);
        assert!(r2.is_ok() == (len == 32));
        kani::cover!(len == 32); kani::cover!(len == 33);
    }
    #[kani::proof] #[kani::unwind(68)]
    fn c15_compressed_ristretto_from_slice_total() {
        let buf: [u8; 66] = kani::any(); let len: usize = kani::any(); kani::assume(len <= 66);
        let r = CompressedRistretto::from_slice(&buf[..len]);
        assert!(r.is_ok() == (len == 32));
        if let Ok(c) = r { let mut i = 0; while i < 32 { assert!(c.0[i] == buf[i]); i += 1; } }
        let r2 = CompressedRistretto::try_from(&buf[..len]);
        assert!(r2.is_ok() == (len == 32));
        kani::cover!(len == 32); kani::cover!(len == 0);
    }
}

// C16: serde impls of the curve crate against the model formats of serde_model.rs.  Field arithmetic behind
// compress / decompress / from_canonical_bytes is replaced (stubs) by model functions shared with the reference, so
// what is decided - for ALL byte inputs, all delivered lengths and both format models - is: which bytes are emitted
// (exactly the canonical encoding, as a 32-tuple), and that deserialisation accepts exactly when the framing is
// right AND the native decoder accepts, returning the native decoder's value.
#[cfg(all(kani, feature = "serde"))]
include!(concat!(env!("VERIF_HOOK_DIR"), "/../kani/serde_model.rs"));
#[cfg(all(kani, feature = "serde"))]
mod kani_c16 {
    use super::serde_model::*;
    use super::{point_from_tags, point_tags, scalar_raw};
    use crate::edwards::{CompressedEdwardsY, EdwardsPoint};
    use crate::ristretto::{CompressedRistretto, RistrettoPoint};
    use crate::montgomery::MontgomeryPoint;
    use crate::scalar::Scalar;
    use subtle::CtOption;

    fn w(b: &[u8; 32]) -> u64 { u64::from_le_bytes([b[0], b[1], b[2], b[3], b[4], b[5], b[6], b[7]]) }
    // exact reference for canonicity: bytes (little endian) < l, by bytewise comparison from the top
    const L_BYTES: [u8; 32] = [0xed, 0xd3, 0xf5, 0x5c, 0x1a, 0x63, 0x12, 0x58, 0xd6, 0x9c, 0xf7, 0xa2, 0xde, 0xf9, 0xde, 0x14,
                               0, 0, 0, 0, 0, 0, 0, 0, 0, 0, 0, 0, 0, 0, 0, 0x10];
    fn below_l(b: &[u8; 32]) -> bool {
        let mut i = 32;
        while i > 0 { i -= 1; if b[i] < L_BYTES[i] { return true; } if b[i] > L_BYTES[i] { return false; } }
        false
    }
    fn m_canon(bytes: [u8; 32]) -> CtOption<Scalar> { CtOption::new(scalar_raw(bytes), (below_l(&bytes) as u8).into()) }
    fn m_decompress(c: &CompressedEdwardsY) -> Option<EdwardsPoint> {
        if c.0[0] & 1 == 1 { None } else { Some(point_from_tags(w(&c.0), c.0[31] as u64)) }
    }
    fn m_compress(p: &EdwardsPoint) -> CompressedEdwardsY {
        let mut o = [0u8; 32]; let t = point_tags(p); let a = t.0.to_le_bytes(); let b = t.1.to_le_bytes();
        let mut i = 0; while i < 8 { o[i] = a[i]; o[8 + i] = b[i] ^ 0x5a; i += 1; }
        CompressedEdwardsY(o)
    }
    fn m_rdecompress(c: &CompressedRistretto) -> Option<RistrettoPoint> {
        if c.0[1] & 2 == 2 { None } else { Some(RistrettoPoint(point_from_tags(w(&c.0).rotate_left(9), c.0[30] as u64))) }
    }
    fn m_rcompress(p: &RistrettoPoint) -> CompressedRistretto {
        let mut o = [0u8; 32]; let t = point_tags(&p.0); let a = t.0.to_le_bytes(); let b = t.1.to_le_bytes();
        let mut i = 0; while i < 8 { o[i] = a[i] ^ 0x33; o[16 + i] = b[i]; i += 1; }
        CompressedRistretto(o)
    }
    fn input() -> ([u8; CAP], usize, bool) {
        let data: [u8; CAP] = kani::any(); let len: usize = kani::any(); kani::assume(len <= 40);
        (data, len, kani::any())
    }
    fn first32(d: &[u8; CAP]) -> [u8; 32] { let mut o = [0u8; 32]; let mut i = 0; while i < 32 { o[i] = d[i]; i += 1; } o }
    fn is_tuple32(b: &Buf, want: &[u8; 32]) -> bool {
        if !(b.shape == SHAPE_TUPLE && b.declared == 32 && b.n == 32 && !b.in_tuple) { return false; }
        let mut i = 0; while i < 32 { if b.b[i] != want[i] { return false; } i += 1; }
        true
    }

    #[kani::proof] #[kani::unwind(42)]
    fn c16_scalar_serialize_is_canonical_bytes() {
        let bytes: [u8; 32] = kani::any(); let s = scalar_raw(bytes);
        let b = ser(&s);
        assert!(b.is_some()); assert!(is_tuple32(&b.unwrap(), &bytes));
    }
    // any other scalar constructor a visitor might use instead of from_canonical_bytes must not make the harness unaffordable:
    // reduction mod l is replaced by a model (clear the top four bits)
    fn m_reduce(s: &Scalar) -> Scalar { let mut b = s.bytes; b[31] &= 0x0f; scalar_raw(b) }
    fn m_mod_order(bytes: [u8; 32]) -> Scalar { let mut b = bytes; b[31] &= 0x0f; scalar_raw(b) }
    #[kani::proof] #[kani::unwind(42)]
    #[kani::stub(Scalar::from_canonical_bytes, m_canon)]
    #[kani::stub(Scalar::reduce, m_reduce)]
    #[kani::stub(Scalar::from_bytes_mod_order, m_mod_order)]
    fn c16_scalar_deserialize_validates() {
        let (data, len, compact) = input();
        let got: Option<Scalar> = de(&data, len, compact);
        let b = first32(&data);
        let want = framing_ok(len, 32, compact, false) && below_l(&b);
        assert!(got.is_some() == want);
        if let Some(s) = got { assert!(s.bytes == b); }
        kani::cover!(got.is_some()); kani::cover!((len == 32) & got.is_none()); kani::cover!(len == 33); kani::cover!(len == 31);
    }
    #[kani::proof] #[kani::unwind(42)]
    #[kani::stub(EdwardsPoint::compress, m_compress)]
    fn c16_edwards_serialize_is_compressed_bytes() {
        let p = point_from_tags(kani::any(), kani::any());
        let b = ser(&p);
        assert!(b.is_some()); assert!(is_tuple32(&b.unwrap(), &m_compress(&p).0));
    }
    #[kani::proof] #[kani::unwind(42)]
    #[kani::stub(CompressedEdwardsY::decompress, m_decompress)]
    fn c16_edwards_deserialize_validates() {
        let (data, len, compact) = input();
        let got: Option<EdwardsPoint> = de(&data, len, compact);
        let b = first32(&data);
        let nat = m_decompress(&CompressedEdwardsY(b));
        assert!(got.is_some() == (framing_ok(len, 32, compact, false) && nat.is_some()));
        if let (Some(p), Some(q)) = (got, nat) { assert!(point_tags(&p) == point_tags(&q)); }
        kani::cover!(got.is_some()); kani::cover!((len == 32) & got.is_none());
    }
    #[kani::proof] #[kani::unwind(42)]
    fn c16_compressed_edwards_roundtrip() {
        let bytes: [u8; 32] = kani::any();
        let b = ser(&CompressedEdwardsY(bytes));
        assert!(b.is_some()); assert!(is_tuple32(&b.unwrap(), &bytes));
        let (data, len, compact) = input();
        let got: Option<CompressedEdwardsY> = de(&data, len, compact);
        assert!(got.is_some() == framing_ok(len, 32, compact, false));
        if let Some(c) = got { assert!(c.0 == first32(&data)); }
    }
    #[kani::proof] #[kani::unwind(42)]
    #[kani::stub(RistrettoPoint::compress, m_rcompress)]
    fn c16_ristretto_serialize_is_compressed_bytes() {
        let p = RistrettoPoint(point_from_tags(kani::any(), kani::any()));
        let b = ser(&p);
        assert!(b.is_some()); assert!(is_tuple32(&b.unwrap(), &m_rcompress(&p).0));
    }
    #[kani::proof] #[kani::unwind(42)]
    #[kani::stub(CompressedRistretto::decompress, m_rdecompress)]
    fn c16_ristretto_deserialize_validates() {
        let (data, len, compact) = input();
        let got: Option<RistrettoPoint> = de(&data, len, compact);
        let b = first32(&data);
        let nat = m_rdecompress(&CompressedRistretto(b));
        assert!(got.is_some() == (framing_ok(len, 32, compact, false) && nat.is_some()));
        if let (Some(p), Some(q)) = (got, nat) { assert!(point_tags(&p.0) == point_tags(&q.0)); }
        kani::cover!(got.is_some()); kani::cover!((len == 32) & got.is_none());
    }
    #[kani::proof] #[kani::unwind(42)]
    fn c16_compressed_ristretto_roundtrip() {
        let bytes: [u8; 32] = kani::any();
        let b = ser(&CompressedRistretto(bytes));
        assert!(b.is_some()); assert!(is_tuple32(&b.unwrap(), &bytes));
        let (data, len, compact) = input();
        let got: Option<CompressedRistretto> = de(&data, len, compact);
        assert!(got.is_some() == framing_ok(len, 32, compact, false));
        if let Some(c) = got { assert!(c.0 == first32(&data)); }
    }
    #[kani::proof] #[kani::unwind(42)]
    fn c16_montgomery_roundtrip() {
        let bytes: [u8; 32] = kani::any();
        let b = ser(&MontgomeryPoint(bytes));
        assert!(b.is_some()); assert!(is_tuple32(&b.unwrap(), &bytes));
        let (data, len, compact) = input();
        let got: Option<MontgomeryPoint> = de(&data, len, compact);
        assert!(got.is_some() == framing_ok(len, 32, compact, false));
        if let Some(c) = got { assert!(c.0 == first32(&data)); }
    }
}
