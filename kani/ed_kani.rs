// Kani harnesses for ed25519-dalek (C08, C09, C13, C15): the protocol glue is executed for ALL key / signature
// bits; SHA-512 and the group arithmetic are replaced by deterministic bit-mixing *model functions* shared by the
// implementation under test (through #[kani::stub]) and by the RFC 8032-shaped reference in the harness, so what
// is decided is which values flow where and which tests gate acceptance.  The arithmetic meaning of the stubbed
// calls is C02/C03/C04.
#[cfg(kani)]
mod k {
    use crate::{Signature, SigningKey, VerifyingKey};
    use curve25519_dalek::digest::{generic_array::{typenum::U64, GenericArray}, FixedOutput, HashMarker, OutputSizeUser, Update, Reset, FixedOutputReset};
    use curve25519_dalek::edwards::{CompressedEdwardsY, EdwardsPoint};
    use curve25519_dalek::scalar::Scalar;
    use curve25519_dalek::verif_hooks as vh;
    use subtle::CtOption;

    // ---- model digest: order- and length-sensitive rolling state (xor/rotate only), 64-byte output
    #[derive(Clone, Default)]
    pub struct MD { h: u64, n: u64 }
    impl HashMarker for MD {}
    impl OutputSizeUser for MD { type OutputSize = U64; }
    impl Update for MD {
        fn update(&mut self, data: &[u8]) {
            let mut i = 0;
            while i < data.len() { self.h = self.h.rotate_left(5) ^ (data[i] as u64) ^ 0x9e3779b97f4a7c15; self.n += 1; i += 1; }
        }
    }
    impl FixedOutput for MD {
        fn finalize_into(self, out: &mut GenericArray<u8, U64>) {
            let a = self.h.to_le_bytes(); let b = self.n.to_le_bytes();
            let mut i = 0;
            while i < 64 { out[i] = if i < 8 { a[i] } else if i < 16 { b[i - 8] } else { 0 }; i += 1; }
        }
    }
    impl Reset for MD { fn reset(&mut self) { self.h = 0; self.n = 0; } }
    impl FixedOutputReset for MD { fn finalize_into_reset(&mut self, out: &mut GenericArray<u8, U64>) { let c = self.clone(); c.finalize_into(out); self.h = 0; self.n = 0; } }
    fn md(parts: &[&[u8]]) -> [u8; 64] {
        let mut h = MD::default();
        let mut j = 0; while j < parts.len() { h.update(parts[j]); j += 1; }
        let mut o = GenericArray::<u8, U64>::default(); h.finalize_into(&mut o);
        let mut ob = [0u8; 64]; let mut i = 0; while i < 64 { ob[i] = o[i]; i += 1; }
        ob
    }

    // ---- model curve / scalar API
    fn w(b: &[u8; 32]) -> u64 { u64::from_le_bytes([b[0], b[1], b[2], b[3], b[4], b[5], b[6], b[7]]) }
    fn m_decompress(c: &CompressedEdwardsY) -> Option<EdwardsPoint> {
        if c.0[0] & 1 == 1 { None } else { Some(vh::point_from_tags(w(&c.0), c.0[31] as u64)) }
    }
    fn m_neg(p: EdwardsPoint) -> EdwardsPoint { let (a, b) = vh::point_tags(&p); vh::point_from_tags(!a, b) }
    fn m_dsm(a: &Scalar, A: &EdwardsPoint, b: &Scalar) -> EdwardsPoint {
        vh::point_from_tags(vh::point_tags(A).0.rotate_left(7) ^ w(a.as_bytes()), w(b.as_bytes()).rotate_left(3) ^ vh::point_tags(A).1)
    }
    fn m_compress(p: &EdwardsPoint) -> CompressedEdwardsY {
        let mut o = [0u8; 32]; let t = vh::point_tags(p); let a = t.0.to_le_bytes(); let b = t.1.to_le_bytes();
        let mut i = 0; while i < 8 { o[i] = a[i]; o[8 + i] = b[i]; i += 1; }
        CompressedEdwardsY(o)
    }
    fn m_small_order(p: &EdwardsPoint) -> bool { vh::point_tags(p).0 & 2 == 2 }
    fn m_mul_base(s: &Scalar) -> EdwardsPoint { vh::point_from_tags(w(s.as_bytes()) ^ 0x5555, 7) }
    fn m_wide(input: &[u8; 64]) -> Scalar { let mut b = [0u8; 32]; let mut i = 0; while i < 32 { b[i] = input[i] ^ input[32 + i].rotate_left(1); i += 1; } b[31] &= 0x0f; vh::scalar_raw(b) }
    fn m_canon(bytes: [u8; 32]) -> CtOption<Scalar> { CtOption::new(vh::scalar_raw(bytes), ((bytes[31] & 0xf0 == 0) as u8).into()) }
    fn m_mod_order(bytes: [u8; 32]) -> Scalar { let mut b = bytes; b[31] &= 0x0f; b[0] ^= 0x33; vh::scalar_raw(b) }
    // the scalar-ring models are SYMMETRIC in their operands (the ring is commutative: code may legitimately swap operands), byte-wise and mixing
    fn m_smul<'a: 'a, 'b: 'b>(a: &'a Scalar, b: &'b Scalar) -> Scalar { let mut o = [0u8; 32]; let mut i = 0; while i < 32 { let (x, y) = (a.as_bytes()[i], b.as_bytes()[i]); o[i] = x.wrapping_mul(y).wrapping_add((x ^ y).rotate_left(3)); i += 1; } vh::scalar_raw(o) }
    fn m_sadd<'a: 'a, 'b: 'b>(a: &'a Scalar, b: &'b Scalar) -> Scalar { let mut o = [0u8; 32]; let mut i = 0; while i < 32 { o[i] = a.as_bytes()[i].wrapping_add(b.as_bytes()[i]) ^ 0x11; i += 1; } vh::scalar_raw(o) }

    fn split(sb: &[u8; 64]) -> ([u8; 32], [u8; 32]) { let mut r = [0u8; 32]; let mut s = [0u8; 32]; let mut i = 0; while i < 32 { r[i] = sb[i]; s[i] = sb[32 + i]; i += 1; } (r, s) }
    const DOM: &[u8] = b"SigEd25519 no Ed25519 collisions";

    // RFC 8032 5.1.7 over the model functions. strict: additionally R decodes and neither R nor A has small order
    fn spec_verify(kb: &[u8; 32], sb: &[u8; 64], msg: &[u8], ctx: Option<&[u8]>, strict: bool) -> Option<bool> {
        let a = m_decompress(&CompressedEdwardsY(*kb));
        let A = match a { None => return None, Some(p) => p };
        let (r, s) = split(sb);
        let sc: Option<Scalar> = m_canon(s).into();
        let S = match sc { None => return Some(false), Some(x) => x };
        if strict {
            match m_decompress(&CompressedEdwardsY(r)) { None => return Some(false), Some(Rp) => { if m_small_order(&Rp) || m_small_order(&A) { return Some(false); } } }
        }
        let hb = match ctx {
            None => md(&[&r, kb, msg]),
            Some(c) => md(&[DOM, &[1u8], &[c.len() as u8], c, &r, kb, msg]),
        };
        let k = m_wide(&hb);
        let rr = m_compress(&m_dsm(&k, &m_neg(A), &S));
        Some(rr.0 == r)
    }

    // ------------------------------------------------------------------ C09
    #[kani::proof]
    #[kani::unwind(70)]
    #[kani::stub(CompressedEdwardsY::decompress, m_decompress)]
    #[kani::stub(EdwardsPoint::vartime_double_scalar_mul_basepoint, m_dsm)]
    #[kani::stub(EdwardsPoint::compress, m_compress)]
    #[kani::stub(Scalar::from_bytes_mod_order_wide, m_wide)]
    #[kani::stub(Scalar::from_canonical_bytes, m_canon)]
    #[kani::stub(<EdwardsPoint as core::ops::Neg>::neg, m_neg)]
    fn c09_raw_verify_matches_rfc8032() {
        let kb: [u8; 32] = kani::any(); let sb: [u8; 64] = kani::any();
        let msg: [u8; 2] = kani::any(); let mlen: usize = kani::any(); kani::assume(mlen <= 2);
        let vk = VerifyingKey::from_bytes(&kb);
        let sig = Signature::from_bytes(&sb);
        let got = match &vk { Ok(vk) => Some(crate::hazmat::raw_verify::<MD>(vk, &msg[..mlen], &sig).is_ok()), Err(_) => None };
        assert!(got == spec_verify(&kb, &sb, &msg[..mlen], None, false));
        kani::cover!(got == Some(true));
    }

    #[cfg(feature = "digest")]
    #[kani::proof]
    #[kani::unwind(70)]
    #[kani::stub(CompressedEdwardsY::decompress, m_decompress)]
    #[kani::stub(EdwardsPoint::vartime_double_scalar_mul_basepoint, m_dsm)]
    #[kani::stub(EdwardsPoint::compress, m_compress)]
    #[kani::stub(Scalar::from_bytes_mod_order_wide, m_wide)]
    #[kani::stub(Scalar::from_canonical_bytes, m_canon)]
    #[kani::stub(<EdwardsPoint as core::ops::Neg>::neg, m_neg)]
    fn c09_raw_verify_prehashed_matches_rfc8032_dom2() {
        let kb: [u8; 32] = kani::any(); let sb: [u8; 64] = kani::any();
        let ph: [u8; 1] = kani::any(); let plen: usize = kani::any(); kani::assume(plen <= 1);
        let cx: [u8; 1] = kani::any(); let clen: usize = kani::any(); kani::assume(clen <= 1);
        let has_ctx: bool = kani::any();
        let vk = VerifyingKey::from_bytes(&kb);
        let sig = Signature::from_bytes(&sb);
        let mut pre = MD::default(); pre.update(&ph[..plen]);
        let digest = md(&[&ph[..plen]]);
        let ctx = if has_ctx { Some(&cx[..clen]) } else { None };
        let got = match &vk { Ok(vk) => Some(crate::hazmat::raw_verify_prehashed::<MD, MD>(vk, pre, ctx, &sig).is_ok()), Err(_) => None };
        // RFC 8032: context defaults to the empty string, dom2 prefix is always present for Ed25519ph
        let empty: [u8; 0] = [];
        let c: &[u8] = if has_ctx { &cx[..clen] } else { &empty };
        assert!(got == spec_verify(&kb, &sb, &digest, Some(c), false));
        kani::cover!(got == Some(true));
    }

    // the non-hazmat entry points hash with SHA-512: the private helper that computes H(dom2 || R || A || M) is
    // replaced by the same model transcript hash the reference uses (SHA-512 itself is trusted, M5)
    fn m_challenge<D>(context: Option<&[u8]>, R: &CompressedEdwardsY, A: &CompressedEdwardsY, M: &[u8]) -> Scalar
    where D: curve25519_dalek::digest::Digest<OutputSize = U64> {
        let hb = match context { None => md(&[&R.0, &A.0, M]), Some(c) => md(&[DOM, &[1u8], &[c.len() as u8], c, &R.0, &A.0, M]) };
        m_wide(&hb)
    }
    macro_rules! verify_stubs { ($($item:item)*) => { $(
        #[kani::proof]
        #[kani::unwind(70)]
        #[kani::stub(CompressedEdwardsY::decompress, m_decompress)]
        #[kani::stub(EdwardsPoint::vartime_double_scalar_mul_basepoint, m_dsm)]
        #[kani::stub(EdwardsPoint::compress, m_compress)]
        #[kani::stub(EdwardsPoint::is_small_order, m_small_order)]
        #[kani::stub(Scalar::from_canonical_bytes, m_canon)]
        #[kani::stub(<EdwardsPoint as core::ops::Neg>::neg, m_neg)]
        #[kani::stub(crate::verifying::VerifyingKey::compute_challenge, m_challenge)]
        $item )* } }
    verify_stubs! {
    fn c09_verify_strict_matches_spec() {
        let kb: [u8; 32] = kani::any(); let sb: [u8; 64] = kani::any();
        let msg: [u8; 2] = kani::any(); let mlen: usize = kani::any(); kani::assume(mlen <= 2);
        let vk = VerifyingKey::from_bytes(&kb); let sig = Signature::from_bytes(&sb);
        let got = match &vk { Ok(vk) => Some(vk.verify_strict(&msg[..mlen], &sig).is_ok()), Err(_) => None };
        assert!(got == spec_verify(&kb, &sb, &msg[..mlen], None, true));
        kani::cover!(got == Some(true));
    }
    fn c09_verify_matches_spec() {
        use crate::Verifier;
        let kb: [u8; 32] = kani::any(); let sb: [u8; 64] = kani::any();
        let msg: [u8; 2] = kani::any(); let mlen: usize = kani::any(); kani::assume(mlen <= 2);
        let vk = VerifyingKey::from_bytes(&kb); let sig = Signature::from_bytes(&sb);
        let got = match &vk { Ok(vk) => Some(vk.verify(&msg[..mlen], &sig).is_ok()), Err(_) => None };
        assert!(got == spec_verify(&kb, &sb, &msg[..mlen], None, false));
        kani::cover!(got == Some(true));
    }
    }
    #[cfg(feature = "digest")]
    verify_stubs! {
    fn c09_verify_prehashed_strict_matches_spec() {
        let kb: [u8; 32] = kani::any(); let sb: [u8; 64] = kani::any();
        let ph: [u8; 1] = kani::any(); let plen: usize = kani::any(); kani::assume(plen <= 1);
        let cx: [u8; 1] = kani::any(); let clen: usize = kani::any(); kani::assume(clen <= 1);
        let has_ctx: bool = kani::any();
        let vk = VerifyingKey::from_bytes(&kb); let sig = Signature::from_bytes(&sb);
        let mut pre = MD::default(); pre.update(&ph[..plen]);
        let digest = md(&[&ph[..plen]]);
        let ctx = if has_ctx { Some(&cx[..clen]) } else { None };
        let got = match &vk { Ok(vk) => Some(vk.verify_prehashed_strict(pre, ctx, &sig).is_ok()), Err(_) => None };
        let empty: [u8; 0] = [];
        let c: &[u8] = if has_ctx { &cx[..clen] } else { &empty };
        assert!(got == spec_verify(&kb, &sb, &digest, Some(c), true));
        kani::cover!(got == Some(true));
    }
    fn c09_verify_prehashed_matches_spec() {
        let kb: [u8; 32] = kani::any(); let sb: [u8; 64] = kani::any();
        let ph: [u8; 1] = kani::any(); let plen: usize = kani::any(); kani::assume(plen <= 1);
        let cx: [u8; 1] = kani::any(); let clen: usize = kani::any(); kani::assume(clen <= 1);
        let has_ctx: bool = kani::any();
        let vk = VerifyingKey::from_bytes(&kb); let sig = Signature::from_bytes(&sb);
        let mut pre = MD::default(); pre.update(&ph[..plen]);
        let digest = md(&[&ph[..plen]]);
        let ctx = if has_ctx { Some(&cx[..clen]) } else { None };
        let got = match &vk { Ok(vk) => Some(vk.verify_prehashed(pre, ctx, &sig).is_ok()), Err(_) => None };
        let empty: [u8; 0] = [];
        let c: &[u8] = if has_ctx { &cx[..clen] } else { &empty };
        assert!(got == spec_verify(&kb, &sb, &digest, Some(c), false));
        kani::cover!(got == Some(true));
    }
    }

    // legacy_compatibility: only the range check on S is relaxed to its top three bits
    #[cfg(feature = "legacy_compatibility")]
    #[kani::proof]
    #[kani::unwind(70)]
    fn c09_legacy_check_scalar_top_three_bits() {
        let sb: [u8; 64] = kani::any();
        let r = crate::signature::InternalSignature::from_bytes(&sb);
        assert!(r.is_ok() == (sb[63] & 0b1110_0000 == 0));
        if let Ok(s) = r { let (_r, sbytes) = split(&sb); let mut m = sbytes; m[31] &= 127; assert!(*s.s.as_bytes() == m); }
        kani::cover!(r.is_ok()); kani::cover!(sb[63] == 0x20);
    }

    // ------------------------------------------------------------------ C08
    fn spec_sign(prefix: &[u8; 32], a: &Scalar, akey: &[u8; 32], msg: &[u8], ctx: Option<&[u8]>) -> [u8; 64] {
        let hb = match ctx { None => md(&[prefix, msg]), Some(c) => md(&[DOM, &[1u8], &[c.len() as u8], c, prefix, msg]) };
        let r = m_wide(&hb);
        let R = m_compress(&m_mul_base(&r));
        let hb2 = match ctx { None => md(&[&R.0, akey, msg]), Some(c) => md(&[DOM, &[1u8], &[c.len() as u8], c, &R.0, akey, msg]) };
        let k = m_wide(&hb2);
        let s = m_sadd(&m_smul(&k, a), &r);
        let mut o = [0u8; 64]; let mut i = 0; while i < 32 { o[i] = R.0[i]; o[32 + i] = s.as_bytes()[i]; i += 1; }
        o
    }
    fn any_vk_stubbed(kb: &[u8; 32]) -> VerifyingKey { VerifyingKey::from_bytes(kb).unwrap() }

    #[kani::proof]
    #[kani::unwind(70)]
    #[kani::stub(CompressedEdwardsY::decompress, m_decompress)]
    #[kani::stub(EdwardsPoint::mul_base, m_mul_base)]
    #[kani::stub(EdwardsPoint::compress, m_compress)]
    #[kani::stub(Scalar::from_bytes_mod_order_wide, m_wide)]
    #[kani::stub(Scalar::from_bytes_mod_order, m_mod_order)]
    #[kani::stub(<&Scalar as core::ops::Mul<&Scalar>>::mul, m_smul)]
    #[kani::stub(<&Scalar as core::ops::Add<&Scalar>>::add, m_sadd)]
    fn c08_raw_sign_matches_rfc8032() {
        let eb: [u8; 64] = kani::any();
        let kb: [u8; 32] = kani::any(); kani::assume(kb[0] & 1 == 0);
        let msg: [u8; 2] = kani::any(); let mlen: usize = kani::any(); kani::assume(mlen <= 2);
        let esk = crate::hazmat::ExpandedSecretKey::from_bytes(&eb);
        // key expansion (RFC 8032 5.1.5 after hashing): clamp the lower half, keep the upper half as prefix
        let (lo, hi) = split(&eb);
        assert!(esk.hash_prefix == hi);
        assert!(*esk.scalar.as_bytes() == *m_mod_order(curve25519_dalek::scalar::clamp_integer(lo)).as_bytes());
        let vk = any_vk_stubbed(&kb);
        let sig = crate::hazmat::raw_sign::<MD>(&esk, &msg[..mlen], &vk);
        let want = spec_sign(&hi, &esk.scalar, &kb, &msg[..mlen], None);
        assert!(sig.to_bytes() == want);
        core::mem::forget(esk);
        kani::cover!(true);
    }

    #[cfg(feature = "digest")]
    #[kani::proof]
    #[kani::unwind(70)]
    #[kani::stub(CompressedEdwardsY::decompress, m_decompress)]
    #[kani::stub(EdwardsPoint::mul_base, m_mul_base)]
    #[kani::stub(EdwardsPoint::compress, m_compress)]
    #[kani::stub(Scalar::from_bytes_mod_order_wide, m_wide)]
    #[kani::stub(Scalar::from_bytes_mod_order, m_mod_order)]
    #[kani::stub(<&Scalar as core::ops::Mul<&Scalar>>::mul, m_smul)]
    #[kani::stub(<&Scalar as core::ops::Add<&Scalar>>::add, m_sadd)]
    fn c08_raw_sign_prehashed_matches_rfc8032_dom2() {
        let eb: [u8; 64] = kani::any();
        let kb: [u8; 32] = kani::any(); kani::assume(kb[0] & 1 == 0);
        let ph: [u8; 1] = kani::any(); let plen: usize = kani::any(); kani::assume(plen <= 1);
        let cx: [u8; 1] = kani::any(); let clen: usize = kani::any(); kani::assume(clen <= 1);
        let has_ctx: bool = kani::any();
        let esk = crate::hazmat::ExpandedSecretKey::from_bytes(&eb);
        let (_lo, hi) = split(&eb);
        let vk = any_vk_stubbed(&kb);
        let mut pre = MD::default(); pre.update(&ph[..plen]);
        let digest = md(&[&ph[..plen]]);
        let ctx = if has_ctx { Some(&cx[..clen]) } else { None };
        let got = crate::hazmat::raw_sign_prehashed::<MD, MD>(&esk, pre, &vk, ctx);
        let empty: [u8; 0] = [];
        let c: &[u8] = if has_ctx { &cx[..clen] } else { &empty };
        let want = spec_sign(&hi, &esk.scalar, &kb, &digest, Some(c));
        assert!(got.is_ok());
        assert!(got.unwrap().to_bytes() == want);
        core::mem::forget(esk);
        kani::cover!(true);
    }

    // context length limit: every context longer than 255 bytes is refused, 255 is accepted (length symbolic 0..=300)
    #[cfg(feature = "digest")]
    #[kani::proof]
    #[kani::unwind(310)]
    #[kani::stub(CompressedEdwardsY::decompress, m_decompress)]
    #[kani::stub(EdwardsPoint::mul_base, m_mul_base)]
    #[kani::stub(EdwardsPoint::compress, m_compress)]
    #[kani::stub(Scalar::from_bytes_mod_order_wide, m_wide)]
    #[kani::stub(Scalar::from_bytes_mod_order, m_mod_order)]
    #[kani::stub(<&Scalar as core::ops::Mul<&Scalar>>::mul, m_smul)]
    #[kani::stub(<&Scalar as core::ops::Add<&Scalar>>::add, m_sadd)]
    fn c08_prehashed_context_length_limit() {
        let eb: [u8; 64] = kani::any();
        let kb: [u8; 32] = kani::any(); kani::assume(kb[0] & 1 == 0);
        let cx = [0u8; 300]; let clen: usize = kani::any(); kani::assume(clen <= 300);
        let esk = crate::hazmat::ExpandedSecretKey::from_bytes(&eb);
        let vk = any_vk_stubbed(&kb);
        let got = crate::hazmat::raw_sign_prehashed::<MD, MD>(&esk, MD::default(), &vk, Some(&cx[..clen]));
        assert!(got.is_err() == (clen > 255));
        core::mem::forget(esk);
        kani::cover!(clen == 255); kani::cover!(clen == 256);
    }

    // ------------------------------------------------------------------ C15: slice decoders are total
    fn model_decompress_any(_c: &CompressedEdwardsY) -> Option<EdwardsPoint> { if kani::any() { Some(EdwardsPoint::default()) } else { None } }
    #[kani::proof]
    #[kani::unwind(68)]
    #[kani::stub(CompressedEdwardsY::decompress, model_decompress_any)]
    fn c15_verifying_key_try_from_slice_total() {
        let buf: [u8; 66] = kani::any(); let len: usize = kani::any(); kani::assume(len <= 66);
        let r = VerifyingKey::try_from(&buf[..len]);
        if len != 32 { assert!(r.is_err()); }
        kani::cover!(r.is_ok()); kani::cover!(len == 33);
    }
    #[kani::proof]
    #[kani::unwind(68)]
    fn c15_signature_from_slice_total() {
        let buf: [u8; 66] = kani::any(); let len: usize = kani::any(); kani::assume(len <= 66);
        let r = Signature::from_slice(&buf[..len]);
        assert!(r.is_ok() == (len == 64));
        kani::cover!(r.is_ok());
    }
    #[kani::proof]
    #[kani::unwind(68)]
    #[kani::stub(Scalar::from_canonical_bytes, m_canon)]
    fn c15_internal_signature_rejects_noncanonical_s() {
        let sb: [u8; 64] = kani::any();
        let r = crate::signature::InternalSignature::from_bytes(&sb);
        assert!(r.is_ok() == (sb[63] & 0xf0 == 0));   // exactly the contract of the (stubbed) canonical decoder
        kani::cover!(r.is_ok()); kani::cover!(r.is_err());
    }
    #[kani::proof]
    #[kani::unwind(70)]
    fn c15_expanded_secret_key_from_slice_total() {
        let buf: [u8; 66] = kani::any(); let len: usize = kani::any(); kani::assume(len <= 66);
        let r = crate::hazmat::ExpandedSecretKey::from_slice(&buf[..len]);
        assert!(r.is_ok() == (len == 64));
        if let Ok(e) = r { core::mem::forget(e); }
        kani::cover!(len == 64);
    }

    // ------------------------------------------------------------------ C16 (feature serde)
    #[cfg(feature = "serde")]
    mod c16 {
        use super::*;
        use crate::verif_hooks::serde_model::*;
        fn first32(d: &[u8; CAP]) -> [u8; 32] { let mut o = [0u8; 32]; let mut i = 0; while i < 32 { o[i] = d[i]; i += 1; } o }
        fn is_bytes32(b: &Buf, want: &[u8; 32]) -> bool {
            if !(b.shape == SHAPE_BYTES && b.declared == 32 && b.n == 32) { return false; }
            let mut i = 0; while i < 32 { if b.b[i] != want[i] { return false; } i += 1; }
            true
        }
        fn input() -> ([u8; CAP], usize, bool) {
            let data: [u8; CAP] = kani::any(); let len: usize = kani::any(); kani::assume(len <= 40);
            (data, len, kani::any())
        }
        // SigningKey::from_bytes hashes the seed (SHA-512) and multiplies the basepoint: replaced by a model that keeps
        // the seed and derives a tag-only verifying key
        fn m_sk_from_bytes(b: &[u8; 32]) -> SigningKey {
            SigningKey { secret_key: *b, verifying_key: VerifyingKey { compressed: CompressedEdwardsY(*b), point: vh::point_from_tags(w(b), 3) } }
        }
        #[kani::proof] #[kani::unwind(42)]
        fn c16_signing_key_serialize_is_secret_bytes() {
            let b: [u8; 32] = kani::any();
            let sk = m_sk_from_bytes(&b);
            let out = ser(&sk);
            assert!(out.is_some()); assert!(is_bytes32(&out.unwrap(), &b));
            core::mem::forget(sk);
        }
        #[kani::proof] #[kani::unwind(42)]
        #[kani::stub(crate::signing::SigningKey::from_bytes, m_sk_from_bytes)]
        fn c16_signing_key_deserialize_validates() {
            let (data, len, compact) = input();
            let got: Option<SigningKey> = de(&data, len, compact);
            assert!(got.is_some() == (len == 32));
            if let Some(k) = got { assert!(k.secret_key == first32(&data)); core::mem::forget(k); }
            kani::cover!(len == 32); kani::cover!((len == 33) & compact); kani::cover!((len == 33) & !compact); kani::cover!(len == 31);
        }
        #[kani::proof] #[kani::unwind(42)]
        #[kani::stub(EdwardsPoint::compress, m_compress)]
        fn c16_verifying_key_serialize_is_stored_bytes() {
            let b: [u8; 32] = kani::any();
            let vk = VerifyingKey { compressed: CompressedEdwardsY(b), point: vh::point_from_tags(kani::any(), kani::any()) };
            let out = ser(&vk);
            assert!(out.is_some()); assert!(is_bytes32(&out.unwrap(), &b));
        }
        #[kani::proof] #[kani::unwind(42)]
        #[kani::stub(CompressedEdwardsY::decompress, m_decompress)]
        fn c16_verifying_key_deserialize_validates() {
            let (data, len, compact) = input();
            let got: Option<VerifyingKey> = de(&data, len, compact);
            let b = first32(&data);
            let nat = m_decompress(&CompressedEdwardsY(b));
            assert!(got.is_some() == (len == 32 && nat.is_some()));
            if let (Some(k), Some(q)) = (got, nat) { assert!(k.compressed.0 == b); assert!(vh::point_tags(&k.point) == vh::point_tags(&q)); }
            kani::cover!(got.is_some()); kani::cover!((len == 32) & got.is_none()); kani::cover!(len == 33);
        }
    }

    // ------------------------------------------------------------------ C08: keypair import (SigningKey::from_keypair_bytes)
    // accepted exactly when the public half decodes and is BYTE-identical to the verifying key derived from the secret half
    // (SigningKey::from_bytes = SHA-512 + clamp + basepoint multiplication is replaced by a model derivation; the birational map to
    //  Montgomery form, should an implementation compare through it, is modelled as what it is: not injective - it forgets the sign of x)
    fn m_derive(b: &[u8; 32]) -> SigningKey {
        let mut c = [0u8; 32]; let mut i = 0; while i < 32 { c[i] = b[i].rotate_left(3) ^ 0x5c; i += 1; }
        SigningKey { secret_key: *b, verifying_key: VerifyingKey { compressed: CompressedEdwardsY(c), point: vh::point_from_tags(w(&c), c[31] as u64) } }
    }
    fn m_dec_any(c: &CompressedEdwardsY) -> Option<EdwardsPoint> { if c.0[1] & 1 == 1 { None } else { Some(vh::point_from_tags(w(&c.0), c.0[31] as u64)) } }
    fn m_to_mont(p: &EdwardsPoint) -> curve25519_dalek::montgomery::MontgomeryPoint {
        let t = vh::point_tags(p); let mut o = [0u8; 32]; let a = t.0.to_le_bytes(); let mut i = 0; while i < 8 { o[i] = a[i]; i += 1; }
        o[8] = (t.1 as u8) & 0x7f;      // the sign bit (bit 7 of the last encoding byte) does not survive the map
        curve25519_dalek::montgomery::MontgomeryPoint(o)
    }
    fn m_nodrop(_k: &mut SigningKey) {}      // a rejected key is dropped, i.e. zeroized through zeroize's inline-asm barrier, which Kani cannot model; erasure is C14's subject
    #[kani::proof]
    #[kani::unwind(70)]
    #[kani::stub(crate::signing::SigningKey::from_bytes, m_derive)]
    #[kani::stub(CompressedEdwardsY::decompress, m_dec_any)]
    #[kani::stub(EdwardsPoint::to_montgomery, m_to_mont)]
    #[kani::stub(<SigningKey as core::ops::Drop>::drop, m_nodrop)]
    fn c08_from_keypair_bytes_accepts_exactly_matching_halves() {
        let kp: [u8; 64] = kani::any();
        let (sec, pubh) = split(&kp);
        let r = SigningKey::from_keypair_bytes(&kp);
        let derived = m_derive(&sec);
        let want = m_dec_any(&CompressedEdwardsY(pubh)).is_some() && derived.verifying_key.compressed.0 == pubh;
        assert!(r.is_ok() == want);
        if let Ok(k) = r { assert!(k.secret_key == sec); assert!(k.verifying_key.compressed.0 == pubh); core::mem::forget(k); }
        kani::cover!(want); kani::cover!(!want);
        core::mem::forget(derived);
    }
}
