#!/usr/bin/env python3
"""Print the markdown table of seeded changes (id, one-line description from notes.md, checks that report / miss it) from seeded/*/meta.json."""
import json, os, re
S = "/verif/seeded"
print("| seed | change (from the seed's notes) | reported by | not reported by |"); print("|---|---|---|---|")
for sid in sorted(os.listdir(S)):
    mp = os.path.join(S, sid, "meta.json")
    if not os.path.exists(mp): continue
    m = json.load(open(mp))
    notes = open(os.path.join(S, sid, "notes.md")).read() if os.path.exists(os.path.join(S, sid, "notes.md")) else m.get("needs", "")
    lines = [l.strip() for l in notes.splitlines() if l.strip() and not l.startswith("#")]
    desc = re.sub(r"[`|*]", "", " ".join(lines[:2]))[:170]
    print("| %s | %s | %s | %s |" % (sid, desc, ", ".join(m.get("detected_by") or []) or "-", ", ".join((m.get("missed_by") or []) + ["(%s inconclusive)" % c for c in m.get("inconclusive_in") or []]) or "-"))
