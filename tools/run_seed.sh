#!/bin/bash
# usage: run_seed.sh <seed-id> <PROP> [<PROP>...]  : apply seeded patch to /repo, run the quick checks, undo the patch.
ID=$1; shift
cd /repo || exit 3
if ! git diff --quiet; then echo "/repo has local changes; refusing"; exit 3; fi
git apply /verif/seeded/$ID/patch.diff || { echo "patch does not apply"; exit 3; }
trap 'git -C /repo checkout -- .' EXIT
cd /verif
for P in "$@"; do
  out=$(bin/vp check $P --tier ${TIER:-quick} 2>&1); rc=$?
  echo "SEED $ID check $P -> exit $rc"
  echo "$out" | grep -E "VIOLATION|INCONCLUSIVE|violation|KNOWN" | head -8
done
