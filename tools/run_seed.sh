#!/bin/bash
# usage: run_seed.sh <seed-id> <PROP> [<PROP>...]
# Applies the seeded patch in a scratch worktree of /repo (never in /repo itself), runs the quick checks against it
# (VERIF_REPO), removes the worktree.  Evidence/replay files of these runs go to a scratch dir, not /verif/evidence.
ID=$1; shift
WT=/tmp/seedrepo-$ID
git -C /repo worktree remove --force $WT 2>/dev/null
git -C /repo worktree add -q --detach $WT HEAD || exit 3
trap 'git -C /repo worktree remove --force '$WT' 2>/dev/null' EXIT
( cd $WT && git apply /verif/seeded/$ID/patch.diff ) || { echo "patch does not apply"; exit 3; }
cd /verif
for P in "$@"; do
  out=$(VERIF_REPO=$WT VERIF_EVIDENCE_DIR=/tmp/seed-evidence bin/vp check $P --tier ${TIER:-quick} 2>&1); rc=$?
  echo "SEED $ID check $P -> exit $rc"
  echo "$out" | grep -E "VIOLATION|INCONCLUSIVE|violation|KNOWN" | head -6
done
