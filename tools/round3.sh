#!/bin/bash
# usage: round3.sh <PROP> [extra check ids...]  - confirm the round-3 agent output for <PROP> as seed <PROP>-m6, then run the quick checks against it.
P=$1; shift
ID=$P-m6
bash /verif/tools/confirm_seed.sh $P /tmp/mut3-$P-out $ID
grep -E "^RESULT|^KEPT" /tmp/confirm-$ID.log
[ -d /verif/seeded/$ID ] || exit 1
cd /verif && SWEEP_RESULTS=/verif/seeded/results.json python3-vt tools/sweep_seeds.py "^$ID\$"
