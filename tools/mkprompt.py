#!/usr/bin/env python3
"""Print the prompt for a mutation sub-agent for property ID (only the property text + worktree path)."""
import json, sys
pid = sys.argv[1]; wt = sys.argv[2]; n = sys.argv[3] if len(sys.argv) > 3 else "3"
for l in open('/verif/properties.jsonl'):
    p = json.loads(l)
    if p['id'] == pid: break
rec = {k: p[k] for k in ('id', 'title', 'statement', 'quantifier', 'why_tests_cant', 'anchors')}
print(f"""You are helping to test a verification effort by playing the role of a developer who introduces a subtle regression.

Work ONLY inside the scratch git worktree {wt} (a checkout of the Rust workspace dalek-cryptography/curve25519-dalek: crates curve25519-dalek, ed25519-dalek, x25519-dalek, curve25519-dalek-derive). Never read or write /repo or /verif. The sandbox is offline (use `cargo --offline`; no crates can be fetched; everything needed by the workspace and its optional features is in the cargo cache).

Here is one semantic property that the code base is supposed to satisfy (JSON record):

{json.dumps(rec, indent=1)}

Your task: produce {n} DIFFERENT, independent source changes (each a separate patch against the clean checkout) to the workspace's non-test source code, each of which
  (a) BREAKS this property (for some input / configuration / feature set the property quantifies over),
  (b) still COMPILES, and
  (c) still PASSES the existing test-suite, i.e. this command run in {wt} still reports all 138 tests passing:
        cargo nextest run --workspace --no-fail-fast --offline --test-threads 8
      (equivalently `cargo test --workspace --no-fail-fast --offline`).
Prefer changes that need something specific to manifest - an unusual input (a carry corner, a non-canonical encoding, a torsion point, an unreduced limb pattern, a particular length), a non-default backend/cfg or cargo feature that the baseline command does not compile (e.g. RUSTFLAGS='--cfg curve25519_dalek_backend="serial"' or "fiat", --cfg curve25519_dalek_bits="32", features such as serde, group, batch, legacy_compatibility, hazmat, digest, static_secrets, precomputed-tables off), a multi-step sequence of operations, or two cooperating sites that each look fine alone - NOT changes that ordinary use would expose at once. Make them realistic: the kind of slip a maintainer could make in a refactor or "optimisation" (wrong constant/limb, off-by-one in a loop or mask, dropped check, swapped operands, a missing reduction, wrong sign, changed threshold...). Vary the location: do not put all {n} in the same function. Keep each patch small (a few lines). Do not edit tests, Cargo manifests' existing entries, or build scripts' behaviour in ways unrelated to the property.

For each change i = 1..{n} write, under {wt}/_out/m<i>/ :
  - patch.diff    : output of `git diff` for the change alone (must apply with `git apply` on the clean checkout)
  - demo.rs (or demo/ directory) : a demonstration - a Rust integration test file or tiny program using the crates - that FAILS with the change and PASSES without it
  - run_demo.sh   : a bash script, to be run with cwd = root of a checkout, that installs the demonstration (e.g. copies demo.rs to <crate>/tests/vp_demo.rs), runs it with the exact cargo command/env needed (offline), and exits 0 iff the demo passes; it must clean up what it copied afterwards
  - notes.md      : what the change is, why it breaks the property, what it needs in order to manifest, and the exact commands you ran with their observed results (baseline suite passes WITH the change; demo fails WITH the change; demo passes WITHOUT the change)
You must actually run and confirm all three facts for each change; drop and replace any change for which you cannot. Use `git stash`/`git checkout -- .` to return to the clean tree between changes, and leave the worktree clean (apart from _out/ and target/) when you finish. Use `CARGO_TARGET_DIR={wt}/target` (the default) so builds stay inside the worktree.

Finish with a short report listing the {n} changes (file:line, one sentence each).""")
