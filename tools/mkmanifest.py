#!/usr/bin/env python3
"""Regenerates MANIFEST.json from tools/manifest_src.py (single source of truth) and validates it."""
import json, sys, os, subprocess
HERE = os.path.dirname(os.path.dirname(os.path.abspath(__file__)))
sys.path.insert(0, os.path.join(HERE, "tools"))
import manifest_src as M
man = M.manifest()
json.dump(man, open(os.path.join(HERE, "MANIFEST.json"), "w"), indent=1)
try:
    import jsonschema
    jsonschema.validate(man, json.load(open("/root/.vp/MANIFEST.schema.json")))
    print("MANIFEST.json valid;", len(man["checks"]), "checks;", len(man.get("not_applicable", [])), "not_applicable")
except ImportError:
    print("jsonschema not available; not validated")
