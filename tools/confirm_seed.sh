#!/bin/bash
# usage: confirm_seed.sh <PROP> <agent_out_dir(m1)> <seed_id>
# Confirms in a scratch worktree (HEAD of /repo): patch applies, baseline suite passes with it, demo fails with it, demo passes without it.
# On success copies patch/demo/notes + meta.json to /verif/seeded/<seed_id>/
set -u
PROP=$1; SRC=$2; ID=$3
WT=/tmp/confirm-$ID
LOG=/tmp/confirm-$ID.log
exec > $LOG 2>&1
git -C /repo worktree remove --force $WT 2>/dev/null
git -C /repo worktree add -q --detach $WT HEAD || exit 3
cd $WT
export CARGO_NET_OFFLINE=true
res_apply=fail; res_suite=fail; res_demo_with=unknown; res_demo_without=unknown
if git apply --check $SRC/patch.diff && git apply $SRC/patch.diff; then res_apply=ok; fi
if [ $res_apply = ok ]; then
  out=$(cargo nextest run --workspace --no-fail-fast --offline --test-threads 8 2>&1 | tail -5)
  echo "$out"
  if echo "$out" | grep -q "138 tests run: 138 passed"; then res_suite=ok; fi
  cp -r $SRC/demo* $WT/_demo_src 2>/dev/null
  bash $SRC/run_demo.sh > /tmp/confirm-$ID.with.log 2>&1; rc=$?
  tail -15 /tmp/confirm-$ID.with.log
  if [ $rc -ne 0 ]; then res_demo_with=fails; else res_demo_with=passes; fi
  git checkout -q -- . ; git clean -fdq -e target
  bash $SRC/run_demo.sh > /tmp/confirm-$ID.without.log 2>&1; rc=$?
  tail -5 /tmp/confirm-$ID.without.log
  if [ $rc -eq 0 ]; then res_demo_without=passes; else res_demo_without=fails; fi
fi
echo "RESULT $ID apply=$res_apply suite=$res_suite demo_with=$res_demo_with demo_without=$res_demo_without"
if [ $res_apply = ok ] && [ $res_suite = ok ] && [ $res_demo_with = fails ] && [ $res_demo_without = passes ]; then
  D=/verif/seeded/$ID; mkdir -p $D
  cp $SRC/patch.diff $D/; cp -r $SRC/demo* $D/ 2>/dev/null; cp $SRC/run_demo.sh $D/; cp $SRC/notes.md $D/
  python3 - <<PY
import json
json.dump(dict(id="$ID", property="$PROP", needs=open("$SRC/notes.md").read()[:1500],
  confirmed=dict(patch_applies=True, baseline_suite_with_patch="138/138 passed (cargo nextest run --workspace --no-fail-fast --offline --test-threads 8)",
                 demo_with_patch="fails (bash run_demo.sh, exit != 0)", demo_without_patch="passes (exit 0)"),
  ran=["git apply patch.diff", "cargo nextest run --workspace --no-fail-fast --offline --test-threads 8", "bash run_demo.sh (with patch)", "git checkout -- .", "bash run_demo.sh (without patch)"],
  detected_by=None), open("$D/meta.json","w"), indent=1)
PY
  echo "KEPT $ID"
fi
cd /; git -C /repo worktree remove --force $WT
