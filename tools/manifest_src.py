import subprocess
def repo_hook_commits():
    out = subprocess.run(["git", "-C", "/repo", "log", "--format=%H %s"], capture_output=True, text=True).stdout
    return [l.split()[0] for l in out.splitlines() if "verif hook" in l]

CHECKS = {
 "C01": dict(
    category="model_checking",
    text="Bounded symbolic execution of the compiled field kernels (release LLVM IR of every serial/fiat configuration, built from /repo on each run): every limb of every operand is a symbolic integer constrained only by the backend's documented headroom; the SMT solver shows value(out) = spec(value(in)) mod 2^255-19 and the output limb bounds for ALL such limb vectors (no sampling), or returns a model that is re-executed concretely before being reported. This is the right level because the property quantifies over 2^255 x 2^255 values times all unreduced representations - a space only a solver covers - while the kernels are loop-free integer code that can be encoded exactly.",
    design_ref="DESIGN.md 6 C01, 3.1",
    note="Trusted: rustc's LLVM-IR -> machine code lowering; the integer-polynomial encoding of LLVM integer semantics (validated on every run by concrete-mode replay of vectors against the natively compiled kernels); product atoms are over-approximated (sound for unsat). Bounds: limb ranges per backend listed in evidence; no bound on values. Fermat/Euler facts behind invert/sqrt are trusted mathematics (M1).",
    technique="SMT (QF_LIA after polynomial linearisation and definitional elimination) over rustc-emitted LLVM IR, own symbolic interpreter llsym"),
}
CHECKS["C02"] = dict(
    category="model_checking",
    text="Bounded symbolic execution of the compiled scalar kernels (Scalar52 and Scalar29: from_bytes, from_bytes_wide, as_bytes, add, sub, mul, square, montgomery_mul/square, as/from_montgomery) from the release LLVM IR rebuilt on each run: all limbs / all 2^256 and 2^512 byte strings are symbolic; the solver shows out == spec (mod l), out < l and the limb bounds for every input. Compositional: sub and montgomery_mul are established once against contracts, which are then used at their call sites with the precondition as an obligation. Constants L, LFACTOR, R, RR enter as the immediates the compiler folded into the IR, so a wrong limb breaks the identity.",
    design_ref="DESIGN.md 6 C02",
    note="Trusted: as C01; product-bound lemma a*b <= (2^256-1)^2 (monotonicity of multiplication) is an explicit assumption of the Montgomery harnesses. Scalar-level glue (Scalar::reduce / from_canonical_bytes / invert chains, batch_invert, integer conversions) is covered by the layer-F/Kani harnesses listed in evidence when present; l prime and Fermat are trusted mathematics.",
    technique="SMT (QF_LIA after polynomial linearisation, zero-digit lemmas and Gaussian elimination) over rustc-emitted LLVM IR (llsym), assume/guarantee contracts")
CHECKS["C11"] = dict(
    category="model_checking",
    text="Every field and scalar kernel harness is executed on the IR of the checked build (overflow-checks=on, debug-assertions=on): each branch into a panic block (arithmetic overflow check, debug_assert!, bounds check) under the kernel's documented limb precondition is a proof obligation closed by interval arithmetic or the SMT solver for ALL limb vectors - including the all-limbs-at-the-bound corner - and the functional goals are re-established on that IR, so checked and release builds compute the same bytes.",
    design_ref="DESIGN.md 6 C11",
    note="Part (1) 'inside kernels' and part (4) 'same bytes' of DESIGN 6 C11 are decided here for serial/fiat u64/u32 kernels; headroom along call paths of the group formulas (part 2) is decided by the layer-F bound propagation when listed in evidence; vector (AVX2/IFMA) kernels as listed. Trusted: LLVM IR semantics encoding, validated by shadow/concrete execution on every run.",
    technique="SMT / interval arithmetic over the overflow-checked LLVM IR (llsym)")
TV_NOTE = "Trusted: kernel contracts are the ones established by C01 in the same tree (field ops are intercepted as exact ring operations); completeness/associativity of the twisted Edwards law, Fermat/Euler and the RFC procedures themselves are trusted mathematics (DESIGN 5.6 M1-M4). Polynomial identities are decided by exact normal-form computation over GF(p) on the result of symbolically executing the unoptimised LLVM IR; every outcome combination of the data-dependent predicates (ct_eq, is_negative, is_zero, was_square, input bits) is enumerated."
CHECKS["C03"] = dict(
    category="translation_validation",
    text="Each Edwards formula (add/sub in all Niels variants, doubling, conversions, negation, identity, equality, select, compress, decompress) is executed from the O0 LLVM IR of the current tree with field operations as ring operations over symbolic inputs, and compared with the affine twisted-Edwards addition law / RFC 8032 encoding: the three addition-law identities are polynomial identities in (x1,y1,z1,x2,y2,z2) for points parametrised X=xz,Y=yz,Z=z,T=xyz, so they hold for every pair of points including torsion and exceptional points; decode/encode are compared path by path (all predicate outcomes).",
    design_ref="DESIGN.md 6 C03", note=TV_NOTE,
    technique="symbolic execution of rustc-emitted LLVM IR (llsym layer F) + exact polynomial normal forms over GF(p) + exhaustive path enumeration; counterexamples replayed natively")
CHECKS["C06"] = dict(
    category="translation_validation",
    text="Ristretto Decode, Encode, Equals, the Elligator MAP and from_uniform_bytes are executed from the O0 IR and compared, on every path (canonicity, sign, squareness, zero tests enumerated), with the RFC 9496 section 4.3 procedures evaluated over the same abstract field values; constants enter as the numeric limbs of the tree and are compared against the RFC's constants computed from their definitions.",
    design_ref="DESIGN.md 6 C06", note=TV_NOTE + " Round-trip / injectivity / prime order are properties of the RFC 9496 procedures (M3), not re-derived.",
    technique="symbolic execution of LLVM IR (llsym layer F) vs RFC 9496 reference procedures, polynomial normal forms over GF(p), path enumeration")
CHECKS["C07"] = dict(
    category="translation_validation",
    text="Montgomery ladder step vs RFC 7748 section 5 (exact polynomial equality of all four outputs), as_affine, Edwards->Montgomery map with the identity exception, Montgomery->Edwards with u=-1 rejection and Edwards decoding, Elligator2 map and equality modulo p, executed from the O0 IR over symbolic field values on every predicate path.",
    design_ref="DESIGN.md 6 C07", note=TV_NOTE + " The ladder skeleton (bit order, conditional swaps), clamping and the x25519-dalek glue are covered by the layer-G / Kani harnesses when listed in evidence.",
    technique="symbolic execution of LLVM IR (llsym layer F) vs RFC 7748 formulas, polynomial normal forms over GF(p), path enumeration")
CHECKS["C04"] = dict(
    category="model_checking",
    text="Each scalar-multiplication algorithm is executed from the O0 LLVM IR with point operations intercepted in the exact model group Z^k and ALL digits of all scalars symbolic: variable-base, constant-time Straus (n=0..3), basepoint-table creation and mul_base for every radix 16..256, mul_by_pow_2; the result is compared with sum s_i*P_i as an integer-linear identity over the digit variables (QF_LIA; an identity in the free abelian group holds in the curve group). The digit vectors are constrained only by range facts and carry certificates that Kani establishes on the real recoding code for all 2^255 scalars (as_radix_16, as_radix_2w for w=5..8 incl. the 33rd digit), and every LookupTable*::select is model-checked for every digit of its range.",
    design_ref="DESIGN.md 6 C04",
    note="Trusted: C03 contracts for the intercepted point operations; telescoping argument from the per-digit carry certificate to sum d_i r^i = s; Kani/CBMC. Bounds: n <= 3 dynamic points (quick: 2); Kani unwinding bounds derived from the code with unwinding assertions on. Not covered in this round (stated in DESIGN 7): variable-time algorithms whose control flow branches on digit signs (vartime double-base, vartime Straus, Pippenger, precomputed Straus), the NAF recoding certificate (Kani did not finish within 25 min), the vector (AVX2/IFMA) copies of the algorithms, the Montgomery ladder skeleton.",
    technique="symbolic execution of LLVM IR in an exact Z-linear group model (llsym layer G) + QF_LIA; Kani/CBMC model checking of recodings and table selection")
CHECKS["C12"] = dict(
    category="other",
    text="Finite property decided exhaustively: for each of the six backend configurations every constant and every table entry is read from that configuration's LLVM IR (so the u32, fiat, AVX2 and IFMA encodings that the test command never compiles are all read), decoded through the limb layouts, and each defining relation (121666 d = -121665, i^2 = -1 with the RFC sign, RFC 9496 constants, L/LFACTOR/R/RR consistency, basepoints on curve with y=4/5, l*B = O, E[8] structure, all 32x8 + 64 serial table entries and 64 AVX2 / 64 IFMA cached entries equal to the stated multiple of B computed by the specification's affine arithmetic) is a ground obligation discharged by the SMT solver.",
    design_ref="DESIGN.md 6 C12",
    note="The solver's role is evaluation of ground modular identities (stated honestly in DESIGN); the specification side (curve constants from their definitions, multiples of B by the affine addition law) is ~60 lines of Python in llsym/fconst.py, cross-checked against the RFC 9496 decimals. ff/group constants are checked under C17 when claimed.",
    technique="constants read from the LLVM IR of every configuration (llsym concrete mode), ground SMT identities (z3)")
P_NOTE = "Trusted: SHA-512 / the digest is a function (M5) - replaced by a model digest or model transcript hash; the group and scalar operations are replaced by deterministic bit-mixing model functions shared by the implementation under test (Kani stubs) and the RFC-shaped reference, so the claim is about which values flow where and which tests gate acceptance, for all key/signature bits; the arithmetic meaning of the stubbed calls is C02/C03/C04. Bounds: message/context lengths as listed in evidence (symbolic lengths; longer inputs take the same code path through slice-opaque hashing), Kani unwinding assertions on."
CHECKS["C08"] = dict(engine="kani",
    category="model_checking",
    text="Kani/CBMC model-checks the real signing glue (ExpandedSecretKey::from_bytes, hazmat::raw_sign, raw_sign_prehashed) for all 2^512 expanded-key bits and all verifying keys against an RFC 8032 5.1.5/5.1.6-shaped reference (prefix/scalar split and clamping, r = H([dom2]||prefix||M), R = rB, k = H([dom2]||R||A||M), S = k*a + r, signature = R||S), and the context-length limit for every length 0..300.",
    design_ref="DESIGN.md 6 C08", note=P_NOTE + " Not covered: SigningKey::from_bytes / from_keypair_bytes (they hash the seed with real SHA-512 inside the harness, which CBMC does not finish), 'every signature so produced verifies' follows from C09's acceptance set for a signature of this form.",
    technique="Kani/CBMC bounded model checking of the real Rust code with model functions (stubs) vs RFC 8032 reference")
CHECKS["C09"] = dict(engine="kani",
    category="model_checking",
    text="Kani/CBMC model-checks every verification entry point (hazmat raw_verify / raw_verify_prehashed with a model digest; verify, verify_strict, verify_prehashed, verify_prehashed_strict with the SHA-512 transcript helper replaced by the same model transcript hash) for ALL 2^256 keys and 2^512 signatures against the RFC 8032 5.1.7 acceptance procedure: S canonical, A decodes, bytewise comparison of Encode([S]B - [k]A) with R, dom2 for prehash, and for strict: R decodes and neither R nor A has small order - in that order; plus the legacy_compatibility build where only the S range check becomes the top-three-bits test.",
    design_ref="DESIGN.md 6 C09", note=P_NOTE,
    technique="Kani/CBMC bounded model checking of the real Rust code with model functions (stubs) vs RFC 8032 reference")
CHECKS["C15"] = dict(
    category="model_checking",
    text="Totality of the untrusted-input entry points: (a) every decoder / conversion whose body is field arithmetic (Edwards and Ristretto decompress/compress, the Ristretto one-way map, Montgomery<->Edwards conversions, Elligator2, sqrt_ratio_i/invsqrt, batch_invert) is executed from the O0 IR on EVERY combination of outcomes of its data-dependent predicates - which is exactly the set of algebraically exceptional inputs (zero denominators, u=-1, y=+-1, s=0, non-squares, non-canonical encodings) - and reaching a panic on any algebraically consistent path is a violation; (b) Kani model-checks the slice decoders of both crates for every slice length 0..=66; (c) the verification entry points are covered by C09's Kani harnesses (any reachable panic fails them).",
    design_ref="DESIGN.md 6 C15",
    note="Trusted: paths are pruned only when their assumptions are algebraically contradictory (GF(p) is an integral domain); panic edges guarded by number-theoretic facts (nonspec_map_to_curve's expect on the Elligator2 output, trait default methods' expect on all-Some inputs, Pippenger's digit-count expect) are outside this check and listed in DESIGN 7; batch verification totality is part of C13 when claimed; allocation failure and stack exhaustion are out of scope.",
    technique="exhaustive path enumeration over symbolic executions of the LLVM IR (llsym layer F) + Kani/CBMC for slice-length handling")
CHECKS["C17"] = dict(
    category="model_checking",
    text="ff/group glue with feature `group`: the PrimeField constants are read from the IR and checked against l as ground SMT obligations (MODULUS, TWO_INV, generator non-residue, ROOT_OF_UNITY = g^t of exact order 2^S, its inverse, DELTA, NUM_BITS/CAPACITY) together with the hard-coded Tonelli-Shanks exponent (t-1)/2 captured at the call into ff's helper; from_repr and from_repr_vartime return Some exactly for reprs below l for ALL 2^256 inputs (symbolic execution of the O0 IR with the scalar kernels replaced by their C02 contracts; the variable-time twin path by path), to_repr/is_odd/square/double/from_uniform_bytes agree with the inherent API; GroupEncoding for EdwardsPoint equals decompress/compress on every path; clear_cofactor = [8]P, Group::double/identity in the exact group model.",
    design_ref="DESIGN.md 6 C17",
    note="Trusted: ff::helpers::sqrt_tonelli_shanks (external crate) given correct constants; Field::invert's 'None only for zero' flag and SubgroupPoint/RistrettoPoint GroupEncoding are covered only through the shared decoders of C02/C03/C06 (not separately in this round); random() excluded (rejection loop).",
    technique="ground SMT on constants read from LLVM IR + symbolic execution of the O0 IR with kernel contracts (llsym) ")
CHECKS["C14"] = dict(
    category="model_checking",
    text="Memory-level symbolic execution of the compiled drop glue and of the heap-using secret-scalar code: (1) drop_in_place of SigningKey, ExpandedSecretKey (ed25519-dalek) and EphemeralSecret, ReusableSecret, StaticSecret, SharedSecret (x25519-dalek) is executed from the O0 and the release LLVM IR (linked with the IR of zeroize and the other dependencies as compiled into the crate) on an object whose every byte is a distinct symbolic value; the solver must find no assignment leaving a non-zero byte in a secret field (offsets via offset_of!), i.e. erasure holds for every secret value and survives optimisation (volatile stores); (2) Zeroize::zeroize of Scalar, EdwardsPoint, RistrettoPoint, the compressed forms, MontgomeryPoint (-> zero / identity / identity encoding) and of the internal Niels forms and FieldElement (-> erased); (3) heap: constant-time Straus multiscalar_mul (n = 1, 2[, 3]) and Scalar::batch_invert (n = 1..3[, 4, 6]) are executed with every scalar digit / byte symbolic and, at EVERY __rust_dealloc, each cell of the freed block must be a constant - no cell may hold a value derived from a secret scalar (all non-constant data in these calls derives from the secrets; public points are tracked separately as group elements).",
    design_ref="DESIGN.md 6 C14",
    note="Trusted: the volatile-store semantics the zeroize crate relies on (a volatile store in the IR is emitted as a store); stack copies left behind by moves are outside the property (and outside what the type system lets the crates control). Bounds: batch sizes n as listed (the loops are uniform in n; the allocation pattern - one scratch / digit buffer of n elements - is the same for every n >= 1, larger n not run); serial backend copy of Straus (the AVX2/IFMA copy uses the Zeroizing<Vec> wrapper and is covered when listed in evidence). Scalar kernels inside batch_invert are summarised as havoc (fresh outputs), which over-approximates dependence.",
    technique="symbolic execution of rustc-emitted LLVM IR with a byte-precise memory model (llsym), erasure goals discharged by the SMT solver / constant folding; dealloc hook = the instrumenting allocator of the property's observe_at")
CHECKS["C16"] = dict(engine="kani",
    category="model_checking",
    text="Kani/CBMC model-checks the real serde impls - the hand-written visitors of Scalar, EdwardsPoint, RistrettoPoint, the compressed types, SigningKey, VerifyingKey and the derived impls of MontgomeryPoint, x25519 PublicKey and StaticSecret - against two model data formats (compact: tuples are n raw bytes, input may end early, byte strings with attacker-chosen length; self-describing: sequences of input-controlled length, unconsumed elements rejected): for ALL values the serialised form is exactly the canonical 32-byte encoding (tuple for the curve/x25519 types, byte string for the ed25519 keys; VerifyingKey emits its stored bytes, StaticSecret its unclamped bytes), and for ALL inputs (any bytes, any delivered length 0..=40, both formats) deserialisation succeeds exactly when the framing is right and the native decoder accepts, returning the native decoder's value - so non-canonical scalars, invalid point encodings, short and over-long inputs are rejected.",
    design_ref="DESIGN.md 6 C16",
    note="Trusted: the model formats stand for bincode / serde_json (external crates; their framing behaviour is modelled, not verified); field arithmetic behind compress/decompress and SHA-512/basepoint multiplication behind SigningKey::from_bytes are replaced by model functions shared with the reference (their meaning is C03/C06/C08), Scalar canonicity by the exact predicate bytes < l (equivalence: C02). ed25519::Signature's serde impl lives in the external `ed25519` crate and is out of scope. deserialise(serialise(v)) = v then follows from decode(encode(v)) = v of C03/C06. Bounds: delivered length <= 40 elements (covers short, exact, over-long; the visitors' behaviour does not depend on how many extra elements follow beyond the first), Kani unwinding assertions on.",
    technique="Kani/CBMC bounded model checking of the real Rust serde impls against model Serializer/Deserializer formats, model functions (stubs) for arithmetic")
NOT_YET = {}
for i in range(2, 18):
    NOT_YET["C%02d" % i] = "check under construction in this round (see DESIGN.md 6 for the planned solver-based check); not claimed until it runs green"

def manifest():
    checks = []
    for pid, c in sorted(CHECKS.items()):
        checks.append(dict(property_id=pid, quick_cmd="bin/vp check %s --tier quick" % pid, thorough_cmd="bin/vp check %s --tier thorough" % pid,
            evidence_file="/verif/evidence/%s.json" % pid, replay_cmd_template="bin/vp replay {path}", engine=c.get("engine", "llsym"),
            level_claimed=dict(category=c["category"], text=c["text"], design_ref=c["design_ref"]), level_note=c["note"], technique=c["technique"]))
    return dict(version=1,
        setup_cmd="bin/setup",
        hooks=dict(guard="--cfg curve25519_dalek_verif (RUSTFLAGS)",
                   enable="RUSTFLAGS='--cfg curve25519_dalek_verif --cfg curve25519_dalek_backend=\"...\"' with CURVE25519_DALEK_VERIF_INCLUDE / ED25519_DALEK_VERIF_INCLUDE / X25519_DALEK_VERIF_INCLUDE pointing at /verif/hooks/*.rs (set by vp/build.py)",
                   baseline_off_cmd="cd /repo && cargo nextest run --workspace --no-fail-fast --offline --test-threads 8",
                   source_commits=repo_hook_commits(), add_only=True),
        engines=[dict(name="llsym", path="/verif/llsym", serves_properties=sorted(CHECKS), kind_free_text="own symbolic interpreter for rustc-emitted LLVM IR (integer polynomials + bit slices + digit decompositions) emitting SMT-LIB for z3/cvc5"),
                 dict(name="kani", path="/verif/kani", serves_properties=[], kind_free_text="Kani 0.68 / CBMC 6.11 proof harnesses compiled inside the crates through the cfg-guarded include hook")],
        checks=checks,
        notes="All checks rebuild their IR / harnesses from /repo's working tree on every run. Exit 2 = inconclusive (never a pass).",
        not_applicable=[dict(property_id=p, reason=r) for p, r in sorted(NOT_YET.items()) if p not in CHECKS])
