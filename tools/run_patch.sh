#!/bin/bash
# usage: run_patch.sh <name> <patch.diff> <PROP> [<PROP>...]
# Applies an arbitrary patch in a scratch worktree of /repo (never in /repo itself) and runs the quick checks against it (VERIF_REPO).
ID=$1; PATCH=$2; shift; shift
WT=/tmp/patchrepo-$ID
git -C /repo worktree remove --force $WT 2>/dev/null
git -C /repo worktree add -q --detach $WT HEAD || exit 3
trap 'git -C /repo worktree remove --force '$WT' 2>/dev/null' EXIT
( cd $WT && git apply $PATCH ) || { echo "patch does not apply"; exit 3; }
cd /verif
for P in "$@"; do
  s=$(date +%s)
  out=$(VERIF_REPO=$WT VERIF_EVIDENCE_DIR=/tmp/seed-evidence bin/vp check $P --tier ${TIER:-quick} 2>&1); rc=$?
  echo "PATCH $ID check $P -> exit $rc $(( $(date +%s) - s ))s"
  echo "$out" | grep -E "VIOLATION|INCONCLUSIVE|violation|KNOWN" | head -6 | cut -c1-400
done
