#!/usr/bin/env python3
"""Run the quick checks against every seeded change (scratch worktree per seed, never /repo itself) and record which checks report it.
usage: sweep_seeds.py [seed-id-regex]"""
import json, os, re, subprocess, sys, time
SEEDS = "/verif/seeded"
EXTRA = {"C03-m2": ["C12"], "C03-m3": ["C01"], "C05-m1": ["C01"], "C05-m2": ["C04"], "C05-m3": ["C01"], "C08-m2": ["C09"], "C08-m3": ["C09"], "C09-m3": ["C02"],
         "C11-m1": ["C04"], "C13-m1": ["C15"], "C13-m2": ["C04"], "C13-m3": ["C04", "C11"], "C15-m2": ["C13"], "C04-m3": ["C13"], "C14-m1": ["C04"],
         "C09-m4": ["C04"], "C03-m4": ["C17"], "C13-m5": ["C04"], "C06-m5": ["C17"], "C04-m4": ["C09"], "C15-m4": ["C07"], "C15-m5": ["C13"], "C05-m4": ["C02"], "C05-m5": ["C04"], "C17-m4": ["C03"], "C12-m5": ["C04"], "C14-m5": [], "C01-m5": ["C11"], "C11-m5": ["C04"],
         "C13-m6": ["C04"], "C02-m6": ["C17"], "C06-m6": ["C17"], "C03-m6": ["C14"], "C04-m6": ["C05"], "C10-m6": ["C02"], "C14-m6": ["C04"]}
pat = re.compile(sys.argv[1]) if len(sys.argv) > 1 else None
claimed = [c["property_id"] for c in json.load(open("/verif/MANIFEST.json"))["checks"]]
res_path = os.environ.get("SWEEP_RESULTS") or os.path.join(SEEDS, "results.json")
results = json.load(open(res_path)) if os.path.exists(res_path) else {}
for sid in sorted(os.listdir(SEEDS)):
    d = os.path.join(SEEDS, sid)
    if not os.path.isdir(d) or (pat and not pat.search(sid)): continue
    prop = sid.split("-")[0]
    checks = [c for c in [prop] + EXTRA.get(sid, []) if c in claimed]
    out = {}
    for c in checks:
        t0 = time.time()
        r = subprocess.run(["bash", "/verif/tools/run_seed.sh", sid, c], capture_output=True, text=True)
        m = re.search(r"SEED \S+ check \S+ -> exit (\d+)", r.stdout)
        code = int(m.group(1)) if m else -1
        viol = [l for l in r.stdout.splitlines() if "violation" in l and l.startswith("[")][:3]
        out[c] = dict(exit=code, wall_s=round(time.time() - t0), first=[v[:260] for v in viol])
        print(sid, c, "exit", code, "%.0fs" % (time.time() - t0), flush=True)
    results[sid] = out
    json.dump(results, open(res_path, "w"), indent=1, sort_keys=True)
    mp = os.path.join(d, "meta.json")
    if os.path.exists(mp):
        meta = json.load(open(mp))
        det = sorted(c for c, v in out.items() if v["exit"] == 1)
        prev = meta.get("detected_by") or []
        meta["detected_by"] = sorted(set(det) | set(p for p in prev if p not in out))
        meta["inconclusive_in"] = sorted(c for c, v in out.items() if v["exit"] == 2)
        meta["missed_by"] = sorted(c for c, v in out.items() if v["exit"] == 0)
        json.dump(meta, open(mp, "w"), indent=1)
