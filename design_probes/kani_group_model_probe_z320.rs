use crate::field::FieldElement;
use crate::scalar::Scalar;
use crate::edwards::EdwardsPoint;
use crate::backend::serial::curve_models::{ProjectiveNielsPoint, ProjectivePoint, CompletedPoint, AffineNielsPoint};
use crate::window::LookupTable;
use core::ops::{Add, Sub, Neg};
use crate::traits::Identity;

#[cfg(kani)]
mod k {
    use super::*;
    // ---- model group: Z / 2^320 (no wrap can occur for |x| < 2^260), value in limbs of first field element
    type M = [u64; 5];
    fn m_add(a: &M, b: &M) -> M {
        let mut r = [0u64; 5];
        let mut c = 0u128;
        let mut i = 0;
        while i < 5 { let s = a[i] as u128 + b[i] as u128 + c; r[i] = s as u64; c = s >> 64; i += 1; }
        r
    }
    fn m_small(d: i8) -> M { let x = d as i64 as u64; let e = if d < 0 { u64::MAX } else { 0 }; [x, e, e, e, e] }
    fn fe(m: M) -> FieldElement { FieldElement::from_limbs(m) }
    const Z: FieldElement = FieldElement::ZERO;

    fn model_add_pn<'a: 'a, 'b: 'b>(p: &'a EdwardsPoint, q: &'b ProjectiveNielsPoint) -> CompletedPoint {
        CompletedPoint { X: fe(m_add(&p.X.0, &q.Y_plus_X.0)), Y: Z, Z: Z, T: Z }
    }
    fn model_as_pn(p: &EdwardsPoint) -> ProjectiveNielsPoint { ProjectiveNielsPoint { Y_plus_X: p.X, Y_minus_X: Z, Z: Z, T2d: Z } }
    fn model_c_as_ext(c: &CompletedPoint) -> EdwardsPoint { EdwardsPoint { X: c.X, Y: Z, Z: Z, T: Z } }
    fn model_c_as_proj(c: &CompletedPoint) -> ProjectivePoint { ProjectivePoint { X: c.X, Y: Z, Z: Z } }
    fn model_p_double(p: &ProjectivePoint) -> CompletedPoint { CompletedPoint { X: fe(m_add(&p.X.0, &p.X.0)), Y: Z, Z: Z, T: Z } }
    fn model_p_as_ext(p: &ProjectivePoint) -> EdwardsPoint { EdwardsPoint { X: p.X, Y: Z, Z: Z, T: Z } }

    pub trait ModelPt: Copy { fn mk(v: M) -> Self; }
    impl ModelPt for ProjectiveNielsPoint {
        fn mk(v: M) -> Self { ProjectiveNielsPoint { Y_plus_X: fe(v), Y_minus_X: Z, Z: Z, T2d: Z } }
    }
    // contract model of LookupTable::select for the table of a point with model value 1: select(x) = x
    fn model_select<T: ModelPt>(_t: &LookupTable<T>, x: i8) -> T {
        assert!(x >= -8 && x <= 8);
        T::mk(m_small(x))
    }
    static mut DIGITS: [i8; 64] = [0; 64];
    fn model_radix16(_s: &Scalar) -> [i8; 64] { unsafe { DIGITS } }

    #[kani::proof]
    #[kani::unwind(65)]
    #[kani::stub(<&EdwardsPoint as Add<&ProjectiveNielsPoint>>::add, model_add_pn)]
    #[kani::stub(CompletedPoint::as_extended, model_c_as_ext)]
    #[kani::stub(CompletedPoint::as_projective, model_c_as_proj)]
    #[kani::stub(ProjectivePoint::double, model_p_double)]
    #[kani::stub(ProjectivePoint::as_extended, model_p_as_ext)]
    #[kani::stub(LookupTable::select, model_select)]
    #[kani::stub(Scalar::as_radix_16, model_radix16)]
    #[kani::stub(EdwardsPoint::as_projective_niels, model_as_pn)]
    fn variable_base_skeleton() {
        let d: [i8; 64] = kani::any();
        let mut i = 0;
        while i < 64 { kani::assume(d[i] >= -8 && d[i] <= 8); i += 1; }
        unsafe { DIGITS = d; }
        let p = EdwardsPoint { X: fe([1, 0, 0, 0, 0]), Y: Z, Z: Z, T: Z };
        let s = Scalar { bytes: [0u8; 32] };
        let r = crate::backend::serial::scalar_mul::variable_base::mul(&p, &s);
        // spec: Horner sum_{i} d_i 16^i as an exact integer (two's complement, 320 bit)
        let mut acc: M = [0; 5];
        let mut i = 64;
        while i > 0 {
            i -= 1;
            let mut k = 0;
            while k < 4 { acc = m_add(&acc, &acc); k += 1; }
            acc = m_add(&acc, &m_small(d[i]));
        }
        assert!(r.X.0[0] == acc[0]);
        assert!(r.X.0[1] == acc[1]);
        assert!(r.X.0[2] == acc[2]);
        assert!(r.X.0[3] == acc[3]);
        assert!(r.X.0[4] == acc[4]);
    }
}
