#!/usr/bin/env python3-vt
"""Prototype 2: scalar montgomery_mul (u64) : exact identity r*R = a*b + n*l and r < 2l."""
import re, sys, time
import z3
from proto1 import Poly, Ctx, divmod_pow2, to_z3
from proto1c import subst
L = 2**252 + 27742317777372353535851937790883648493
R = 2**260

def wrap(ctx, r, w):
    lo, hi = r.interval(ctx)
    if hi >= 2**w:
        return divmod_pow2(ctx, r, w)[1]
    return r

def run(irtext, ctx, args, mem):
    env = dict(args)
    def val(tok):
        tok = tok.strip()
        if tok.startswith('%'): return env[tok]
        return Poly.const(int(tok))
    for line in irtext.splitlines():
        line = line.strip()
        if (not line or line.endswith(':') or line.startswith(('define', '}', 'ret', ';', 'tail call void @llvm.experimental', 'call void @llvm.lifetime'))):
            continue
        if line.startswith('call fastcc void') : 
            print("  (stopping at call)", line[:90]); break
        m = re.match(r'(%[\w.]+) = alloca', line)
        if m: env[m.group(1)] = (m.group(1), 0); continue
        m = re.match(r'(%[\w.]+) = getelementptr inbounds nuw i8, ptr (%[\w.]+), i64 (\d+)', line)
        if m:
            b, o = env[m.group(2)]; env[m.group(1)] = (b, o + int(m.group(3))); continue
        m = re.match(r'(%[\w.]+) = load i64, ptr (%[\w.]+)', line)
        if m: env[m.group(1)] = mem[env[m.group(2)]]; continue
        m = re.match(r'store i64 (%[\w.]+), ptr (%[\w.]+)', line)
        if m: mem[env[m.group(2)]] = env[m.group(1)]; continue
        m = re.match(r'(%[\w.]+) = (mul|add|shl)( nuw)?( nsw)? i(\d+) ([^,]+), (.+)$', line)
        if m:
            op, w = m.group(2), int(m.group(5))
            a, b = val(m.group(6)), val(m.group(7))
            if op == 'mul': r = a * b
            elif op == 'add': r = a + b
            else: r = a.scale(2**b.cval())
            env[m.group(1)] = wrap(ctx, r, w); continue
        m = re.match(r'(%[\w.]+) = zext (nneg )?i\d+ (%[\w.]+) to i\d+', line)
        if m: env[m.group(1)] = env[m.group(3)]; continue
        m = re.match(r'(%[\w.]+) = trunc (nuw )?(nsw )?i\d+ (%[\w.]+) to i(\d+)', line)
        if m: env[m.group(1)] = divmod_pow2(ctx, env[m.group(4)], int(m.group(5)))[1]; continue
        m = re.match(r'(%[\w.]+) = lshr i\d+ (%[\w.]+), (\d+)', line)
        if m: env[m.group(1)] = divmod_pow2(ctx, env[m.group(2)], int(m.group(3)))[0]; continue
        m = re.match(r'(%[\w.]+) = and i\d+ (%[\w.]+), (\d+)', line)
        if m:
            mask = int(m.group(3)); k = mask.bit_length(); assert mask == 2**k - 1
            env[m.group(1)] = divmod_pow2(ctx, env[m.group(2)], k)[1]; continue
        raise Exception("unhandled: " + line)
    return env

def main():
    ir = open(sys.argv[1]).read()
    ctx = Ctx(); mem = {}; A = []; B = []
    for i in range(5):
        a = f"a{i}"; b = f"b{i}"
        ctx.bounds[a] = (0, 2**52 - 1); ctx.bounds[b] = (0, 2**52 - 1)
        mem[("a", 8*i)] = Poly.var(a); mem[("b", 8*i)] = Poly.var(b); A.append(Poly.var(a)); B.append(Poly.var(b))
    args = {"%a": ("a", 0), "%b": ("b", 0), "%_0": ("out", 0)}
    t0 = time.time()
    env = run(ir, ctx, args, mem)
    r = [env[f"%r{i}.i"] for i in range(5)]
    n = [env[f"%n{i}.i"] for i in range(5)]
    val = lambda limbs: sum((l.scale(2**(52*i)) for i, l in enumerate(limbs)), Poly.const(0))
    N = val(A) * val(B)
    diff = val(r).scale(R) - N - val(n).scale(L)
    defs = []
    for c in ctx.cons:
        rv = [m for m in c.t if len(m) == 1 and m[0].startswith('r') and c.t[m] == -1]
        assert len(rv) == 1
        defs.append((rv[0][0], c + Poly.var(rv[0][0])))
    full = {}
    def expand(p):
        for rname, repl in reversed(defs):
            p = subst(p, rname, repl)
        return p
    d2 = expand(diff)
    print("residual terms after elimination:", len(d2.t), "cons", len(ctx.cons))
    s = z3.Solver(); zv = {}
    for rname, repl in defs:
        e = to_z3(ctx, expand(repl), zv); lo, hi = ctx.bounds[rname]; s.add(e >= lo, e <= hi)
    dz = to_z3(ctx, d2, zv)
    for m, v in list(zv.items()):
        lo, hi = Poly({m: 1}).interval(ctx); s.add(v >= lo, v <= hi)
    s.push(); s.add(dz != 0)
    print("exact identity r*R == a*b + n*l :", s.check(), time.time() - t0); s.pop()
    # bound: r < 2l  given lemma: a*b < R*l  (precondition)   and n < R
    rz = to_z3(ctx, expand(val(r)), zv); Nz = to_z3(ctx, expand(N), zv)
    s.add(dz == 0)
    s.add(Nz <= R*L - 1)
    s.push(); s.add(rz >= 2*L); print("r < 2l :", s.check(), time.time() - t0); s.pop()
    for i in range(5):
        s.push(); s.add(to_z3(ctx, expand(r[i]), zv) >= 2**52); print(" r%d < 2^52:" % i, s.check()); s.pop()
main()
