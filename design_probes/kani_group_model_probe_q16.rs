use crate::field::FieldElement;
use crate::scalar::Scalar;
use crate::edwards::EdwardsPoint;
use crate::backend::serial::curve_models::{ProjectiveNielsPoint, ProjectivePoint, CompletedPoint, AffineNielsPoint};
use crate::window::LookupTable;
use core::ops::{Add, Sub, Neg};
use crate::traits::Identity;

#[cfg(kani)]
mod k {
    use super::*;

    // ---- model group: Z / q, q = 2^61 - 1, stored in limb 0 of the first field element -----
    const Q: u64 = 65371;
    fn m_add(a: u64, b: u64) -> u64 { let s = (a as u16 as u32) + (b as u16 as u32); (if s >= Q as u32 { s - Q as u32 } else { s }) as u64 }
    fn m_neg(a: u64) -> u64 { let a = a as u16 as u32; (if a == 0 { 0 } else { Q as u32 - a }) as u64 }
    fn m_sub(a: u64, b: u64) -> u64 { m_add(a, m_neg(b)) }
    fn fe(m: u64) -> FieldElement { FieldElement::from_limbs([m, 0, 0, 0, 0]) }
    const Z: FieldElement = FieldElement::ZERO;

    fn model_add_pn<'a: 'a, 'b: 'b>(p: &'a EdwardsPoint, q: &'b ProjectiveNielsPoint) -> CompletedPoint {
        CompletedPoint { X: fe(m_add(p.X.0[0], q.Y_plus_X.0[0])), Y: Z, Z: Z, T: Z }
    }
    fn model_as_pn(p: &EdwardsPoint) -> ProjectiveNielsPoint {
        ProjectiveNielsPoint { Y_plus_X: p.X, Y_minus_X: Z, Z: Z, T2d: Z }
    }
    fn model_c_as_ext(c: &CompletedPoint) -> EdwardsPoint { EdwardsPoint { X: c.X, Y: Z, Z: Z, T: Z } }
    fn model_c_as_proj(c: &CompletedPoint) -> ProjectivePoint { ProjectivePoint { X: c.X, Y: Z, Z: Z } }
    fn model_p_double(p: &ProjectivePoint) -> CompletedPoint {
        CompletedPoint { X: fe(m_add(p.X.0[0], p.X.0[0])), Y: Z, Z: Z, T: Z }
    }
    fn model_p_as_ext(p: &ProjectivePoint) -> EdwardsPoint { EdwardsPoint { X: p.X, Y: Z, Z: Z, T: Z } }

    pub trait ModelPt: Copy { fn mv(&self) -> u64; fn mk(v: u64) -> Self; }
    impl ModelPt for ProjectiveNielsPoint {
        fn mv(&self) -> u64 { self.Y_plus_X.0[0] }
        fn mk(v: u64) -> Self { ProjectiveNielsPoint { Y_plus_X: fe(v), Y_minus_X: Z, Z: Z, T2d: Z } }
    }
    // contract model of LookupTable::select: entry j-1 holds j*P  =>  select(x) = x*P
    fn model_select<T: ModelPt>(t: &LookupTable<T>, x: i8) -> T {
        kani::assume(x >= -8 && x <= 8);
        let xa = if x < 0 { -x } else { x } as usize;
        let v = ((xa as u32 * (t.0[0].mv() as u16 as u32)) % (Q as u32)) as u64;
        let v = if x < 0 { m_neg(v) } else { v };
        T::mk(v)
    }
    // contract model of LookupTable::from: [P, 2P, ..., 8P]
    fn model_table_from<'a: 'a>(p: &'a EdwardsPoint) -> LookupTable<ProjectiveNielsPoint> {
        let g = p.X.0[0];
        let mut pts = [ProjectiveNielsPoint { Y_plus_X: Z, Y_minus_X: Z, Z: Z, T2d: Z }; 8];
        let mut acc = 0u64;
        let mut j = 0;
        while j < 8 { acc = m_add(acc, g); pts[j].Y_plus_X = fe(acc); j += 1; }
        LookupTable(pts)
    }
    static mut DIGITS: [i8; 64] = [0; 64];
    fn model_radix16(_s: &Scalar) -> [i8; 64] { unsafe { DIGITS } }

    #[kani::proof]
    #[kani::unwind(65)]
    #[kani::stub(<&EdwardsPoint as Add<&ProjectiveNielsPoint>>::add, model_add_pn)]
    #[kani::stub(CompletedPoint::as_extended, model_c_as_ext)]
    #[kani::stub(CompletedPoint::as_projective, model_c_as_proj)]
    #[kani::stub(ProjectivePoint::double, model_p_double)]
    #[kani::stub(ProjectivePoint::as_extended, model_p_as_ext)]
    #[kani::stub(LookupTable::<ProjectiveNielsPoint>::select, model_select)]
    #[kani::stub(Scalar::as_radix_16, model_radix16)]
    #[kani::stub(EdwardsPoint::as_projective_niels, model_as_pn)]
    fn variable_base_skeleton() {
        let d: [i8; 64] = kani::any();
        let mut i = 0;
        while i < 64 { kani::assume(d[i] >= -8 && d[i] <= 8); i += 1; }
        unsafe { DIGITS = d; }
        let g: u64 = 1;
        let p = EdwardsPoint { X: fe(g), Y: Z, Z: Z, T: Z };
        let s = Scalar { bytes: [0u8; 32] };
        let r = crate::backend::serial::scalar_mul::variable_base::mul(&p, &s);
        // spec: Horner over the digits in the model group
        let mut acc = 0u64;
        let mut i = 64;
        while i > 0 {
            i -= 1;
            let mut k = 0;
            while k < 4 { acc = m_add(acc, acc); k += 1; }
            let xa = if d[i] < 0 { -d[i] } else { d[i] } as u64;
            let mut t = xa;
            if d[i] < 0 { t = m_neg(t); }
            acc = m_add(acc, t);
        }
        assert!(r.X.0[0] == acc);
    }
}
