#!/usr/bin/env python3-vt
"""Prototype 3: generic straight-line runner; u32 field mul."""
import re, sys, time
import z3
from proto1 import Poly, Ctx, divmod_pow2, to_z3
from proto1c import subst
P = 2**255 - 19

def wrap(ctx, r, w):
    lo, hi = r.interval(ctx)
    assert lo >= 0, (lo, hi)
    if hi >= 2**w:
        return divmod_pow2(ctx, r, w)[1]
    return r

def run(irtext, ctx, args, mem):
    env = dict(args)
    def val(tok):
        tok = tok.strip()
        if tok.startswith('%'): return env[tok]
        return Poly.const(int(tok))
    for line in irtext.splitlines():
        line = line.strip()
        if (not line or line.endswith(':') or line.startswith(('define', '}', 'ret', ';', 'tail call void @llvm.experimental', 'call void @llvm.lifetime'))):
            continue
        m = re.match(r'(%[\w.]+) = getelementptr inbounds nuw i8, ptr (%[\w.]+), i64 (\d+)', line)
        if m:
            b, o = env[m.group(2)]; env[m.group(1)] = (b, o + int(m.group(3))); continue
        m = re.match(r'(%[\w.]+) = load i(32|64), ptr (%[\w.]+)', line)
        if m: env[m.group(1)] = mem[env[m.group(3)]]; continue
        m = re.match(r'store i(32|64) (%[\w.]+), ptr (%[\w.]+)', line)
        if m: mem[env[m.group(3)]] = env[m.group(2)]; continue
        m = re.match(r'(%[\w.]+) = (mul|add|shl)( nuw)?( nsw)? i(\d+) ([^,]+), (.+)$', line)
        if m:
            op, w = m.group(2), int(m.group(5))
            a, b = val(m.group(6)), val(m.group(7))
            if op == 'mul': r = a * b
            elif op == 'add': r = a + b
            else: r = a.scale(2**b.cval())
            env[m.group(1)] = wrap(ctx, r, w); continue
        m = re.match(r'(%[\w.]+) = zext (nneg )?i\d+ (%[\w.]+) to i\d+', line)
        if m: env[m.group(1)] = env[m.group(3)]; continue
        m = re.match(r'(%[\w.]+) = trunc (nuw )?(nsw )?i\d+ (%[\w.]+) to i(\d+)', line)
        if m: env[m.group(1)] = divmod_pow2(ctx, env[m.group(4)], int(m.group(5)))[1]; continue
        m = re.match(r'(%[\w.]+) = lshr i\d+ (%[\w.]+), (\d+)', line)
        if m: env[m.group(1)] = divmod_pow2(ctx, env[m.group(2)], int(m.group(3)))[0]; continue
        m = re.match(r'(%[\w.]+) = and i\d+ (%[\w.]+), (\d+)', line)
        if m:
            mask = int(m.group(3)); k = mask.bit_length(); assert mask == 2**k - 1, line
            env[m.group(1)] = divmod_pow2(ctx, env[m.group(2)], k)[1]; continue
        raise Exception("unhandled: " + line)
    return env

def main():
    ir = open(sys.argv[1]).read()
    ctx = Ctx(); mem = {}; A = []; B = []
    W = [0, 26, 51, 77, 102, 128, 153, 179, 204, 230]
    for i in range(10):
        a = f"a{i}"; b = f"b{i}"
        nb = 26 if i % 2 == 0 else 25
        ctx.bounds[a] = (0, 5 * 2**nb - 1); ctx.bounds[b] = (0, 3 * 2**nb - 1)
        mem[("self", 4*i)] = Poly.var(a); mem[("rhs", 4*i)] = Poly.var(b); A.append(Poly.var(a)); B.append(Poly.var(b))
    args = {"%self": ("self", 0), "%_rhs": ("rhs", 0), "%_0": ("out", 0)}
    t0 = time.time()
    run(ir, ctx, args, mem)
    out = [mem[("out", 4*i)] for i in range(10)]
    for i, o in enumerate(out): print("out", i, "interval hi bits", o.interval(ctx)[1].bit_length())
    val = lambda limbs: sum((l.scale(2**W[i]) for i, l in enumerate(limbs)), Poly.const(0))
    diff = val(out) - val(A) * val(B)
    defs = []
    for c in ctx.cons:
        rv = [m for m in c.t if len(m) == 1 and m[0].startswith('r') and c.t[m] == -1]
        assert len(rv) == 1
        defs.append((rv[0][0], c + Poly.var(rv[0][0])))
    def expand(p):
        for rname, repl in reversed(defs): p = subst(p, rname, repl)
        return p
    d2 = expand(diff)
    print("cons", len(ctx.cons), "residual terms", len(d2.t), "symex+elim time", time.time() - t0)
    s = z3.Solver(); zv = {}
    for rname, repl in defs:
        e = to_z3(ctx, expand(repl), zv); lo, hi = ctx.bounds[rname]; s.add(e >= lo, e <= hi)
    dz = to_z3(ctx, d2, zv)
    for m, v in list(zv.items()):
        lo, hi = Poly({m: 1}).interval(ctx); s.add(v >= lo, v <= hi)
    s.add(dz % P != 0)
    print("atoms", len(zv)); s.set("timeout", 600000)
    print("functional:", s.check(), time.time() - t0)
if __name__=="__main__": main()
