#[cfg(kani)]
mod k {
    use crate::VerifyingKey;
    use curve25519_dalek::edwards::{CompressedEdwardsY, EdwardsPoint};
    fn model_decompress(_c: &CompressedEdwardsY) -> Option<EdwardsPoint> {
        if kani::any() { Some(EdwardsPoint::default()) } else { None }
    }
    #[kani::proof]
    #[kani::unwind(66)]
    #[kani::stub(CompressedEdwardsY::decompress, model_decompress)]
    fn vk_try_from_slice_total() {
        let buf: [u8; 40] = kani::any();
        let len: usize = kani::any();
        kani::assume(len <= 40);
        let r = VerifyingKey::try_from(&buf[..len]);
        if len != 32 { assert!(r.is_err()); }
        kani::cover!(r.is_ok());
    }
}
