#[cfg(kani)]
mod k {
    use crate::{VerifyingKey, Signature};
    use curve25519_dalek::edwards::{CompressedEdwardsY, EdwardsPoint};
    use curve25519_dalek::scalar::Scalar;
    use curve25519_dalek::digest::{self, generic_array::{GenericArray, typenum::U64}, FixedOutput, HashMarker, OutputSizeUser, Update};
    use subtle::CtOption;
    use curve25519_dalek::verif_hooks as vh;

    // ---- model digest: order- and length-sensitive 64-bit rolling state, expanded to 64 bytes
    #[derive(Clone, Default)]
    pub struct MD { h: u64, n: u64 }
    impl HashMarker for MD {}
    impl OutputSizeUser for MD { type OutputSize = U64; }
    impl Update for MD {
        fn update(&mut self, data: &[u8]) {
            let mut i = 0;
            while i < data.len() { self.h = self.h.rotate_left(5) ^ (data[i] as u64) ^ 0x9e3779b97f4a7c15; self.n += 1; i += 1; }
        }
    }
    impl FixedOutput for MD {
        fn finalize_into(self, out: &mut GenericArray<u8, U64>) {
            let a = self.h.to_le_bytes(); let b = self.n.to_le_bytes();
            let mut i = 0;
            while i < 64 { out[i] = if i < 8 { a[i] } else if i < 16 { b[i - 8] } else { 0 }; i += 1; }
        }
    }
    // ---- model curve API (deterministic bit mixers shared by implementation-under-test and spec)
    fn m_decompress(c: &CompressedEdwardsY) -> Option<EdwardsPoint> {
        if c.0[0] & 1 == 1 { None } else { Some(vh::point_from_tags(u64::from_le_bytes([c.0[0],c.0[1],c.0[2],c.0[3],c.0[4],c.0[5],c.0[6],c.0[7]]), 0)) }
    }
    fn m_neg(p: EdwardsPoint) -> EdwardsPoint { let (a, b) = vh::point_tags(&p); vh::point_from_tags(!a, b) }
    fn w(b: &[u8; 32]) -> u64 { u64::from_le_bytes([b[0],b[1],b[2],b[3],b[4],b[5],b[6],b[7]]) }
    fn m_dsm(a: &Scalar, A: &EdwardsPoint, b: &Scalar) -> EdwardsPoint {
        vh::point_from_tags(vh::point_tags(A).0.rotate_left(7) ^ w(a.as_bytes()), w(b.as_bytes()))
    }
    fn m_compress(p: &EdwardsPoint) -> CompressedEdwardsY {
        let mut o = [0u8; 32]; let t = vh::point_tags(p); let a = t.0.to_le_bytes(); let b = t.1.to_le_bytes();
        let mut i = 0; while i < 8 { o[i] = a[i]; o[8 + i] = b[i]; i += 1; }
        CompressedEdwardsY(o)
    }
    fn m_wide(input: &[u8; 64]) -> Scalar { let mut b = [0u8; 32]; let mut i = 0; while i < 32 { b[i] = input[i]; i += 1; } b[31] &= 0x0f; vh::scalar_raw(b) }
    fn m_canon(bytes: [u8; 32]) -> CtOption<Scalar> { CtOption::new(vh::scalar_raw(bytes), ((bytes[31] & 0xf0 == 0) as u8).into()) }

    #[kani::proof]
    #[kani::unwind(70)]
    #[kani::stub(CompressedEdwardsY::decompress, m_decompress)]
    #[kani::stub(EdwardsPoint::vartime_double_scalar_mul_basepoint, m_dsm)]
    #[kani::stub(EdwardsPoint::compress, m_compress)]
    #[kani::stub(Scalar::from_bytes_mod_order_wide, m_wide)]
    #[kani::stub(Scalar::from_canonical_bytes, m_canon)]
    #[kani::stub(<EdwardsPoint as core::ops::Neg>::neg, m_neg)]
    fn raw_verify_matches_rfc8032_glue() {
        let kb: [u8; 32] = kani::any();
        let sb: [u8; 64] = kani::any();
        let msg: [u8; 4] = kani::any();
        let mlen: usize = kani::any(); kani::assume(mlen <= 4);
        let vk = VerifyingKey::from_bytes(&kb);
        let sig = Signature::from_bytes(&sb);
        let got = match &vk { Ok(vk) => Some(crate::hazmat::raw_verify::<MD>(vk, &msg[..mlen], &sig).is_ok()), Err(_) => None };
        // ---- spec (RFC 8032 5.1.7 shape over the same model functions)
        let a = m_decompress(&CompressedEdwardsY(kb));
        let want = match a { None => None, Some(A) => {
            let mut s = [0u8; 32]; let mut r = [0u8; 32]; let mut i = 0; while i < 32 { r[i] = sb[i]; s[i] = sb[32 + i]; i += 1; }
            let sc: Option<Scalar> = m_canon(s).into();
            match sc { None => Some(false), Some(S) => {
                let mut h = MD::default(); h.update(&r); h.update(&kb); h.update(&msg[..mlen]);
                let mut o = GenericArray::<u8, U64>::default(); h.finalize_into(&mut o);
                let mut ob = [0u8; 64]; let mut i = 0; while i < 64 { ob[i] = o[i]; i += 1; }
                let k = m_wide(&ob);
                let rr = m_compress(&m_dsm(&k, &m_neg(A), &S));
                Some(rr.0 == r)
            } }
        } };
        assert!(got == want);
        kani::cover!(got == Some(true));
    }
}
