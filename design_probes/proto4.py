#!/usr/bin/env python3-vt
"""Prototype 4: FieldElement51::as_bytes canonical encoding, all limbs < 2^64."""
import re, sys, time
import z3
from proto1 import Poly, Ctx, divmod_pow2, to_z3
from proto1c import subst
import proto3
P = 2**255 - 19
def run(irtext, ctx, args, mem):
    # reuse proto3.run with extra handlers via preprocessing
    env = dict(args)
    lines = []
    for line in irtext.splitlines():
        l = line.strip()
        l = l.replace('or disjoint', 'add')
        l = re.sub(r'^store i8 ', 'store i64 ', l)
        lines.append(l)
    return proto3.run("\n".join(lines), ctx, args, mem)
def main():
    ir = open(sys.argv[1]).read()
    bits = int(sys.argv[2]) if len(sys.argv) > 2 else 64
    ctx = Ctx(); mem = {}; A = []
    for i in range(5):
        a = f"a{i}"; ctx.bounds[a] = (0, 2**bits - 1); mem[("self", 8*i)] = Poly.var(a); A.append(Poly.var(a))
    args = {"%self": ("self", 0), "%s": ("out", 0)}
    t0 = time.time()
    run(ir, ctx, args, mem)
    out = [mem[("out", i)] for i in range(32)]
    for i in (0, 6, 31): print("byte", i, out[i].interval(ctx))
    vin = sum((l.scale(2**(51*i)) for i, l in enumerate(A)), Poly.const(0))
    vout = sum((l.scale(2**(8*i)) for i, l in enumerate(out)), Poly.const(0))
    defs = []
    for c in ctx.cons:
        rv = [m for m in c.t if len(m) == 1 and m[0].startswith('r') and c.t[m] == -1]
        defs.append((rv[0][0], c + Poly.var(rv[0][0])))
    def expand(p):
        for rname, repl in reversed(defs): p = subst(p, rname, repl)
        return p
    print("cons", len(ctx.cons))
    s = z3.Solver(); zv = {}
    for rname, repl in defs:
        e = to_z3(ctx, expand(repl), zv); lo, hi = ctx.bounds[rname]; s.add(e >= lo, e <= hi)
    dz = to_z3(ctx, expand(vout - vin), zv); oz = to_z3(ctx, expand(vout), zv)
    for m, v in list(zv.items()):
        lo, hi = Poly({m: 1}).interval(ctx); s.add(v >= lo, v <= hi)
    s.set("timeout", 300000)
    s.push(); s.add(dz % P != 0); print("value preserved mod p:", s.check(), time.time() - t0); s.pop()
    s.push(); s.add(oz >= P); print("output < p:", s.check(), time.time() - t0); s.pop()
main()
