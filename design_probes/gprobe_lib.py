#!/usr/bin/env python3-vt
"""Feasibility probe (NOT the framework): interpret rustc -C opt-level=0 LLVM IR of
serial::scalar_mul::variable_base::mul with point operations intercepted by an exact
Z-linear model and as_radix_16 / select replaced by contracts; digits symbolic; z3 LIA."""
import re, sys, time
import z3

class Ptr:
    __slots__ = ("r", "o")
    def __init__(s, r, o): s.r, s.o = r, o
    def __repr__(s): return f"&{s.r}+{s.o}"
class G:   # group element: integer coefficient (python int or z3 Int expr) of the single base point P
    def __init__(s, c): s.c = c
class Panic(Exception): pass

class Module:
    def __init__(self, text):
        self.funcs = {}; self.comment = {}; self.types = {}
        cur = None
        for line in text.splitlines():
            tm = re.match(r'^(%"[^"]+"|%[\w.$]+) = type (.*)$', line)
            if tm: self.types[tm.group(1)] = tm.group(2).strip(); continue
            if line.startswith("define "):
                m = re.search(r'@("[^"]+"|[\w.$]+)\((.*)\)[^()]*\{\s*$', line)
                name = m.group(1).strip('"')
                params = [a.strip().split()[-1] for a in split_args(m.group(2))] if m.group(2).strip() else []
                cur = dict(name=name, params=params, blocks={}, order=[])
                self.funcs[name] = cur; lab = "start0"
                continue
            if cur is None: continue
            if line.startswith("}"): cur = None; continue
            s = line.strip()
            if not s: continue
            m = re.match(r'^([\w.$-]+):', s)
            if m: lab = m.group(1); cur["blocks"][lab] = []; cur["order"].append(lab); continue
            cur["blocks"].setdefault(lab, []).append(s)

def sizeof(mod, ty):
    ty = ty.strip()
    if ty == "ptr": return 8
    m = re.match(r'^i(\d+)$', ty)
    if m: return (int(m.group(1)) + 7) // 8
    m = re.match(r'^\[(\d+) x (.*)\]$', ty)
    if m: return int(m.group(1)) * sizeof(mod, m.group(2))
    if ty.startswith("{"):
        return sum(sizeof(mod, t) for t in split_args(ty.strip()[1:-1]))   # all members 8-aligned or bytes here
    if ty in mod.types: return sizeof(mod, mod.types[ty])
    raise Exception("sizeof " + ty)

def split_args(s):
    out, depth, cur = [], 0, ""
    for ch in s:
        if ch in "([{<": depth += 1
        if ch in ")]}>": depth -= 1
        if ch == "," and depth == 0: out.append(cur); cur = ""
        else: cur += ch
    if cur.strip(): out.append(cur)
    return out

class Interp:
    def __init__(self, mod, intercept):
        self.m = mod; self.mem = {}; self.nreg = 0; self.intercept = intercept; self.steps = 0; self.calls = {}
    def new_region(self, tag):
        self.nreg += 1; r = f"{tag}#{self.nreg}"; self.mem[r] = {}; return r
    def load(self, p, size):
        cell = self.mem[p.r].get(p.o)
        if cell is None: return 0   # undef
        v, sz = cell
        if size and sz != size and not isinstance(v, G): raise Exception(f"size mismatch load {size} stored {sz} at {p}")
        return v
    def store(self, p, v, size):
        reg = self.mem[p.r]
        for o in [o for o in reg if o != p.o and o < p.o + size and o + reg[o][1] > p.o]: del reg[o]
        reg[p.o] = (v, size)
    def memcpy(self, d, s, n):
        src = self.mem[s.r]
        items = [(o, c) for o, c in src.items() if s.o <= o < s.o + n]
        dst = self.mem[d.r]
        for o in [o for o in dst if d.o <= o < d.o + n]: del dst[o]
        for o, c in items: dst[d.o + (o - s.o)] = c
    def val(self, env, tok, ty=None):
        tok = tok.strip()
        if tok.startswith("%"): return env[tok]
        if tok.startswith("@"): return Ptr("global:" + tok[1:].strip('"'), 0)
        if tok in ("true", "false"): return 1 if tok == "true" else 0
        if tok in ("undef", "poison", "zeroinitializer"): return 0
        if tok == "null": return Ptr("null", 0)
        return int(tok)
    def call(self, name, args):
        self.calls[name] = self.calls.get(name, 0) + 1
        for pat, fn in self.intercept:
            if re.search(pat, name): return fn(self, args)
        if name.startswith("llvm.memcpy"): self.memcpy(args[0], args[1], args[2]); return None
        if name.startswith("llvm.lifetime") or name.startswith("llvm.assume"): return None
        if "panicking" in name or "panic" in name: raise Panic(name)
        f = self.m.funcs.get(name)
        if f is None: raise Exception("no body for " + name)
        return self.run(f, args)
    def run(self, f, args):
        env = dict(zip(f["params"], args))
        lab = f["order"][0]; prev = None
        while True:
            for ins in f["blocks"][lab]:
                self.steps += 1
                if ins.startswith(";"): continue
                r = self.step(f, env, ins, prev, lab)
                if r is None: continue
                kind, x = r
                if kind == "ret": return x
                if kind == "br": prev, lab = lab, x; break
            else:
                raise Exception("fell off block " + lab)
    def step(self, f, env, ins, prev, lab):
        m = re.match(r'(%[\w.$-]+) = (.*)$', ins)
        dst, rhs = (m.group(1), m.group(2)) if m else (None, ins)
        op = rhs.split()[0]
        if op == "alloca": env[dst] = Ptr(self.new_region("alloca" + dst), 0); return
        if op == "call" or (op == "tail" and rhs.split()[1] == "call"):
            mm = re.search(r'@("[^"]+"|[\w.$]+)\((.*)\)', rhs)
            name = mm.group(1).strip('"')
            args = [self.val(env, a.strip().split()[-1]) for a in split_args(mm.group(2))] if mm.group(2).strip() else []
            res = self.call(name, args)
            if dst: env[dst] = res
            return
        if op == "getelementptr":
            mm = re.match(r'getelementptr (inbounds )?(nuw )?(nusw )?(.+?), ptr ([^,]+), (.*)$', rhs)
            ty, base, idx = mm.group(4), self.val(env, mm.group(5)), [self.val(env, a.strip().split()[-1]) for a in split_args(mm.group(6))]
            scale = {"i8": 1, "i16": 2, "i32": 4, "i64": 8, "ptr": 8}.get(ty)
            if scale is None:
                am = re.match(r'\[(\d+) x (i\d+|\[\d+ x i8\])\]', ty)
                if am and len(idx) == 2 and idx[0] == 0:
                    es = {"i8": 1, "i16": 2, "i32": 4, "i64": 8}.get(am.group(2)) or int(re.match(r'\[(\d+)', am.group(2)).group(1))
                    env[dst] = Ptr(base.r, base.o + idx[1] * es); return
                am = re.match(r'\[(\d+) x i8\]', ty)
                if am and len(idx) == 1: env[dst] = Ptr(base.r, base.o + idx[0] * int(am.group(1))); return
                if len(idx) == 1: env[dst] = Ptr(base.r, base.o + idx[0] * sizeof(self.m, ty)); return
                raise Exception("gep type " + ins)
            assert len(idx) == 1 and isinstance(idx[0], int), ins
            env[dst] = Ptr(base.r, base.o + idx[0] * scale); return
        if op == "load":
            mm = re.match(r'load (volatile )?(\w+), ptr ([^,]+)', rhs)
            size = 8 if mm.group(2) == "ptr" else (int(mm.group(2)[1:]) + 7) // 8
            env[dst] = self.load(self.val(env, mm.group(3)), size); return
        if op == "store":
            mm = re.match(r'store (volatile )?(\w+) ([^,]+), ptr ([^,]+)', rhs)
            size = 8 if mm.group(2) == "ptr" else (int(mm.group(2)[1:]) + 7) // 8
            self.store(self.val(env, mm.group(4)), self.val(env, mm.group(3)), size); return
        if op == "ret":
            if rhs.strip() == "ret void": return ("ret", None)
            return ("ret", self.val(env, rhs.split()[-1]))
        if op == "br":
            mm = re.match(r'br label %([\w.$-]+)', rhs)
            if mm: return ("br", mm.group(1))
            mm = re.match(r'br i1 ([^,]+), label %([\w.$-]+), label %([\w.$-]+)', rhs)
            c = self.val(env, mm.group(1))
            if not isinstance(c, int): raise Exception("symbolic branch: " + ins)
            return ("br", mm.group(2) if c & 1 else mm.group(3))
        if op == "switch":
            mm = re.match(r'switch i\d+ ([^,]+), label %([\w.$-]+) \[(.*)\]', rhs)
            c = self.val(env, mm.group(1)); assert isinstance(c, int), ins
            for cm in re.finditer(r'i\d+ (-?\d+), label %([\w.$-]+)', mm.group(3)):
                if int(cm.group(1)) == c: return ("br", cm.group(2))
            return ("br", mm.group(2))
        if op == "unreachable": raise Panic("unreachable in " + f["name"])
        if op == "extractvalue":
            mm = re.match(r'extractvalue .* (%[\w.$-]+), (\d+)$', rhs); env[dst] = env[mm.group(1)][int(mm.group(2))]; return
        if op == "insertvalue":
            mm = re.match(r'insertvalue \{[^}]*\} ([^,]+), \w+ ([^,]+), (\d+)$', rhs)
            agg = self.val(env, mm.group(1)); agg = list(agg) if isinstance(agg, (list, tuple)) else [0, 0]
            agg[int(mm.group(3))] = self.val(env, mm.group(2)); env[dst] = tuple(agg); return
        if op in ("trunc", "zext", "sext"):
            mm = re.match(r'\w+ (nuw )?(nsw )?(nneg )?i(\d+) ([^ ]+) to i(\d+)', rhs)
            v = self.val(env, mm.group(5)); fw, tw = int(mm.group(4)), int(mm.group(6))
            if isinstance(v, int):
                if op == "trunc": v &= (1 << tw) - 1
                if op == "sext" and v >> (fw - 1): v = (v - (1 << fw)) & ((1 << tw) - 1)
            env[dst] = v; return
        if op in ("add", "sub", "mul", "and", "or", "xor", "shl", "lshr", "ashr", "udiv", "urem"):
            mm = re.match(r'\w+ (nuw )?(nsw )?(exact )?(disjoint )?i(\d+) ([^,]+), (.+)$', rhs)
            w = int(mm.group(5)); a, b = self.val(env, mm.group(6)), self.val(env, mm.group(7))
            assert isinstance(a, int) and isinstance(b, int), "symbolic int arithmetic outside model: " + ins
            M = (1 << w) - 1
            r = {"add": a + b, "sub": a - b, "mul": a * b, "and": a & b, "or": a | b, "xor": a ^ b, "shl": a << b,
                 "lshr": a >> b, "udiv": a // b if b else 0, "urem": a % b if b else 0, "ashr": a >> b}[op] & M
            env[dst] = r; return
        if op == "icmp":
            mm = re.match(r'icmp (\w+) (\w+) ([^,]+), (.+)$', rhs)
            a, b = self.val(env, mm.group(3)), self.val(env, mm.group(4))
            if isinstance(a, Ptr) or isinstance(b, Ptr):
                eq = isinstance(a, Ptr) and isinstance(b, Ptr) and a.r == b.r and a.o == b.o
                env[dst] = int(eq if mm.group(1) == "eq" else not eq); return
            assert isinstance(a, int) and isinstance(b, int), "symbolic icmp: " + ins
            w = int(mm.group(2)[1:]) if mm.group(2) != "ptr" else 64
            sg = lambda x: x - (1 << w) if x >> (w - 1) else x
            p = mm.group(1)
            r = {"eq": a == b, "ne": a != b, "ult": a < b, "ule": a <= b, "ugt": a > b, "uge": a >= b,
                 "slt": sg(a) < sg(b), "sle": sg(a) <= sg(b), "sgt": sg(a) > sg(b), "sge": sg(a) >= sg(b)}[p]
            env[dst] = int(r); return
        if op == "select":
            mm = re.match(r'select i1 ([^,]+), \w+ ([^,]+), \w+ (.+)$', rhs)
            c = self.val(env, mm.group(1)); assert isinstance(c, int)
            env[dst] = self.val(env, mm.group(2)) if c else self.val(env, mm.group(3)); return
        if op == "phi":
            for pm in re.finditer(r'\[ ([^,]+), %([\w.$-]+) \]', rhs):
                if pm.group(2) == prev: env[dst] = self.val(env, pm.group(1)); return
            raise Exception("phi no match " + ins)
        if op == "freeze": env[dst] = self.val(env, rhs.split()[-1]); return
        raise Exception("unhandled instruction: " + ins)

# ----------------------------------------------------------------------------- model / contracts
def gadd(a, b): return G(a.c + b.c)
def put(it, p, g, size): it.store(p, g, size)
def get(it, p): return it.load(p, 0)
DIG = [z3.Int(f"d{i}") for i in range(64)]

def ic_add_pn(it, a):      # (&EdwardsPoint + &ProjectiveNielsPoint) -> CompletedPoint (sret)
    put(it, a[0], gadd(get(it, a[1]), get(it, a[2])), 160)
def ic_copy(size):
    def f(it, a): put(it, a[0], get(it, a[1]), size)
    return f
def ic_double(it, a): g = get(it, a[1]); put(it, a[0], G(g.c + g.c), 160)
def ic_identity(it, a): put(it, a[0], G(0), 160)
def ic_radix16(it, a):      # contract: digits are the symbolic d_i (ranges asserted in the query)
    for i in range(64): it.store(Ptr(a[0].r, a[0].o + i), DIG[i], 1)
def ic_select(it, a):       # contract (proved separately on the real code): select(x) = sign(x) * T[|x|-1], identity for 0
    tab, x = a[1], a[2]
    ent = [it.load(Ptr(tab.r, tab.o + 160 * j), 0) for j in range(8)]
    if isinstance(x, int):
        x = x - 256 if x > 127 else x
        c = 0 if x == 0 else (ent[abs(x) - 1].c if x > 0 else -ent[abs(x) - 1].c)
    elif all(isinstance(e.c, int) for e in ent) and all(ent[j - 1].c == j * ent[0].c for j in range(1, 9)):
        c = x * ent[0].c          # table is [P,2P,..,8P] (checked here): ite-chain collapses to the linear term x*P
    else:
        c = z3.IntVal(0)
        for j in range(1, 9):
            c = z3.If(x == j, ent[j - 1].c, z3.If(x == -j, -ent[j - 1].c, c))
    put(it, a[0], G(c), 160)

INTERCEPT = [
    (r'impl\$u20\$core\.\.ops\.\.arith\.\.Add\$LT\$\$RF\$curve25519_dalek\.\.backend\.\.serial\.\.curve_models\.\.ProjectiveNielsPoint\$GT\$\$u20\$for\$u20\$\$RF\$curve25519_dalek\.\.edwards\.\.EdwardsPoint', ic_add_pn),
    (r'EdwardsPoint19as_projective_niels', ic_copy(160)),
    (r'CompletedPoint11as_extended', ic_copy(160)),
    (r'CompletedPoint13as_projective', ic_copy(120)),
    (r'ProjectivePoint6double', ic_double),
    (r'ProjectivePoint11as_extended', ic_copy(160)),
    (r'EdwardsPoint\$u20\$as\$u20\$curve25519_dalek\.\.traits\.\.Identity\$GT\$8identity', ic_identity),
    (r'Scalar11as_radix_16', ic_radix16),
    (r'LookupTable\$LT\$T\$GT\$6select', ic_select),
]

def main():
    t0 = time.time()
    mod = Module(open(sys.argv[1]).read())
    print("parsed", len(mod.funcs), "functions in %.1fs" % (time.time() - t0))
    it = Interp(mod, INTERCEPT)
    entry = [n for n in mod.funcs if "scalar_mul13variable_base3mul" in n][0]
    out = Ptr(it.new_region("out"), 0); pt = Ptr(it.new_region("point"), 0); sc = Ptr(it.new_region("scalar"), 0)
    it.store(pt, G(1), 160)                       # base point P  (coefficient 1)
    t1 = time.time()
    it.run(mod.funcs[entry], [out, pt, sc])
    res = it.load(out, 0)
    print("executed %d IR instructions in %.1fs; intercepted/called:" % (it.steps, time.time() - t1))
    for k, v in sorted(it.calls.items(), key=lambda kv: -kv[1])[:12]: print("   %6d  %s" % (v, k[:110]))
    s = z3.Solver()
    for i, d in enumerate(DIG): s.add(d >= -8, d <= (8 if i == 63 else 7))
    spec = z3.Sum([DIG[i] * (16 ** i) for i in range(64)])
    s.add(res.c != spec)
    t2 = time.time(); r = s.check()
    print("result == sum d_i 16^i * P for all digit vectors:", "HOLDS (unsat)" if r == z3.unsat else r, "%.2fs" % (time.time() - t2))
if __name__ == "__main__": main()
