import sys, time
import proto1 as P1
import z3
Poly=P1.Poly
def subst(poly, var, repl):
    """replace var (degree-1 occurrences only) by poly repl"""
    out=Poly()
    for m,c in poly.t.items():
        if var in m:
            assert m.count(var)==1
            rest=tuple(x for x in m if x!=var)
            out=out+(Poly({rest:c})*repl)
        else:
            out=out+Poly({m:c})
    return out
def main():
    ir=open(sys.argv[1]).read(); bexp=54
    ctx=P1.Ctx(); mem={}; A=[];B=[]
    for i in range(5):
        a=f"a{i}";b=f"b{i}"
        ctx.bounds[a]=(0,2**bexp-1);ctx.bounds[b]=(0,2**bexp-1)
        mem[("self",8*i)]=Poly.var(a);mem[("rhs",8*i)]=Poly.var(b);A.append(Poly.var(a));B.append(Poly.var(b))
    args={"%self":("self",0),"%_rhs":("rhs",0),"%_0":("out",0)}
    P1.run(ir,ctx,args,mem)
    out=[mem[("out",8*i)] for i in range(5)]
    val=lambda limbs: sum((l.scale(2**(51*i)) for i,l in enumerate(limbs)),Poly.const(0))
    diff=val(out)-val(A)*val(B)
    t0=time.time()
    # eliminate r-vars in reverse order
    defs=[]
    for c in ctx.cons:
        rv=[m for m in c.t if len(m)==1 and m[0].startswith('r') and c.t[m]==-1]
        assert len(rv)==1, c.t
        r=rv[0][0]
        repl=c+Poly.var(r)   # r = c + r
        defs.append((r,repl))
    for r,repl in reversed(defs):
        diff=subst(diff,r,repl)
    print("residual terms:",len(diff.t))
    for m,c in diff.t.items(): print("  ",m,c%P1.P, c//P1.P if c%P1.P==0 else c)
    zv={}
    s=z3.Solver()
    d=P1.to_z3(ctx,diff,zv)
    # remaining constraints: bounds of all vars incl. r expressed
    for r,repl in defs:
        full=repl
        for r2,repl2 in reversed(defs):
            full=subst(full,r2,repl2)
        e=P1.to_z3(ctx,full,zv); lo,hi=ctx.bounds[r]; s.add(e>=lo,e<=hi)
    for m,v in list(zv.items()):
        lo,hi=Poly({m:1}).interval(ctx); s.add(v>=lo,v<=hi)
    s.add(d%P1.P!=0)
    print(s.check(), time.time()-t0)
if __name__=="__main__": main()
