#!/usr/bin/env python3-vt
"""Feasibility probe (NOT the framework): field-level symbolic execution of the O0 IR of
  <&EdwardsPoint as Add<&EdwardsPoint>>::add   (as_projective_niels -> add -> as_extended)
with FieldElement51 operations intercepted as ring operations; check against the affine
twisted-Edwards addition law with parametrised inputs (X=xz, Y=yz, Z=z, T=xyz)."""
import re, sys, time, importlib.util
import z3
sys.argv0 = sys.argv[:]
spec = importlib.util.spec_from_file_location("gp", __import__("os").path.join(__import__("os").path.dirname(__import__("os").path.abspath(__file__)), "gprobe_lib.py")); gp = importlib.util.module_from_spec(spec); spec.loader.exec_module(gp)
from proto1 import Poly
P = 2**255 - 19
D = (-121665 * pow(121666, P - 2, P)) % P
KNOWN = {D: Poly.var("d"), (2 * D) % P: Poly.var("d").scale(2), 0: Poly.const(0), 1: Poly.const(1)}

def parse_globals(text):
    g = {}
    for m in re.finditer(r'^@([\w.]+) = [^\n]*? constant \[(\d+) x i8\] (c"((?:[^"\\]|\\[0-9A-Fa-f]{2})*)"|zeroinitializer)', text, re.M):
        n = int(m.group(2))
        if m.group(3) == "zeroinitializer": b = bytes(n)
        else:
            raw = m.group(4); out = bytearray(); i = 0
            while i < len(raw):
                if raw[i] == "\\": out.append(int(raw[i+1:i+3], 16)); i += 3
                else: out.append(ord(raw[i])); i += 1
            b = bytes(out)
        g[m.group(1)] = b
    return g

class FInterp(gp.Interp):
    def __init__(self, mod, intercept, globs): super().__init__(mod, intercept); self.globs = globs
    def fe(self, p):
        if p.r.startswith("global:"):
            b = self.globs[p.r[7:]][p.o:p.o + 40]
            v = sum(int.from_bytes(b[8*i:8*i+8], "little") << (51 * i) for i in range(5)) % P
            if v not in KNOWN: raise Exception("unknown field constant %x" % v)
            return KNOWN[v]
        return self.load(p, 0)
    def putfe(self, p, v): self.store(p, v, 40)

def b2(f):
    def h(it, a): it.putfe(a[0], f(it.fe(a[1]), it.fe(a[2])))
    return h
def b1(f):
    def h(it, a): it.putfe(a[0], f(it.fe(a[1])))
    return h
FE = r'curve25519_dalek\.\.backend\.\.serial\.\.u64\.\.field\.\.FieldElement51\$u20\$as\$u20\$core\.\.ops\.\.arith\.\.'
INTERCEPT = [
    (r'^_ZN107_\$LT\$\$RF\$' + FE + r'Add\$GT\$3add', b2(lambda x, y: x + y)),
    (r'^_ZN107_\$LT\$\$RF\$' + FE + r'Sub\$GT\$3sub', b2(lambda x, y: x - y)),
    (r'^_ZN107_\$LT\$\$RF\$' + FE + r'Mul\$GT\$3mul', b2(lambda x, y: x * y)),
    (r'^_ZN107_\$LT\$\$RF\$' + FE + r'Neg\$GT\$3neg', b1(lambda x: x.scale(-1))),
    (r'FieldElement516square17', b1(lambda x: x * x)),
    (r'FieldElement517square217', b1(lambda x: (x * x).scale(2))),
]
def pz3(p, zv):
    ts = []
    for m, c in p.t.items():
        t = z3.IntVal(c)
        for v in m: t = t * zv.setdefault(v, z3.Int(v))
        ts.append(t)
    return z3.Sum(ts) if ts else z3.IntVal(0)

def main():
    text = open(sys.argv[1]).read()
    mod = gp.Module(text); globs = parse_globals(text)
    it = FInterp(mod, INTERCEPT, globs)
    entry = [n for n in mod.funcs if n.startswith("_ZN85_$LT$$RF$curve25519_dalek..edwards..EdwardsPoint$u20$as$u20$core..ops..arith..Add$GT$3add")][0]
    V = Poly.var
    def point(tag, r):
        x, y, z = V("x" + tag), V("y" + tag), V("z" + tag)
        for off, v in zip((0, 40, 80, 120), (x * z, y * z, z, x * y * z)): it.store(gp.Ptr(r, off), v, 40)
        return x, y, z
    r1, r2, ro = it.new_region("P1"), it.new_region("P2"), it.new_region("out")
    x1, y1, z1 = point("1", r1); x2, y2, z2 = point("2", r2)
    t0 = time.time()
    it.run(mod.funcs[entry], [gp.Ptr(ro, 0), gp.Ptr(r1, 0), gp.Ptr(r2, 0)])
    X3, Y3, Z3, T3 = (it.load(gp.Ptr(ro, o), 0) for o in (0, 40, 80, 120))
    print("executed %d IR instructions in %.2fs; X3 has %d monomials, degree %d" % (it.steps, time.time() - t0, len(X3.t), max(len(m) for m in X3.t)))
    d = V("d"); one = Poly.const(1)
    goals = {"x3": X3 * (one + d * x1 * x2 * y1 * y2) - Z3 * (x1 * y2 + y1 * x2),
             "y3": Y3 * (one - d * x1 * x2 * y1 * y2) - Z3 * (y1 * y2 + x1 * x2),
             "xy=zt": X3 * Y3 - Z3 * T3}
    for k, g in goals.items():
        nf = "zero polynomial" if not g.t else "NONZERO (%d terms)" % len(g.t)
        zv = {}; s = z3.Solver(); s.set("timeout", 60000)
        lhs, rhs = {"x3": (X3 * (one + d*x1*x2*y1*y2), Z3 * (x1*y2 + y1*x2)), "y3": (Y3 * (one - d*x1*x2*y1*y2), Z3 * (y1*y2 + x1*x2)), "xy=zt": (X3 * Y3, Z3 * T3)}[k]
        # give z3 the *unexpanded* product structure is not available here; we hand it the two expanded sides
        s.add(pz3(lhs, zv) != pz3(rhs, zv)); t1 = time.time(); r = s.check()
        print("  %-6s normal form: %-16s | z3 on (lhs != rhs): %s %.2fs" % (k, nf, r, time.time() - t1))
main()
