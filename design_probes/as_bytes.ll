define void @_ZN16curve25519_dalek7backend6serial3u645field14FieldElement518as_bytes17hd03f82d65af8fa11E(ptr dead_on_unwind noalias noundef writable writeonly sret([32 x i8]) align 1 captures(none) dereferenceable(32) initializes((0, 32)) %s, ptr noalias noundef readonly align 8 captures(none) dereferenceable(40) %self) unnamed_addr #2 {
start:
  %limbs.sroa.0.0.copyload = load i64, ptr %self, align 8
  %limbs.sroa.19.0.self.sroa_idx = getelementptr inbounds nuw i8, ptr %self, i64 8
  %limbs.sroa.19.0.copyload = load i64, ptr %limbs.sroa.19.0.self.sroa_idx, align 8
  %limbs.sroa.37.0.self.sroa_idx = getelementptr inbounds nuw i8, ptr %self, i64 16
  %limbs.sroa.37.0.copyload = load i64, ptr %limbs.sroa.37.0.self.sroa_idx, align 8
  %limbs.sroa.56.0.self.sroa_idx = getelementptr inbounds nuw i8, ptr %self, i64 24
  %limbs.sroa.56.0.copyload = load i64, ptr %limbs.sroa.56.0.self.sroa_idx, align 8
  %limbs.sroa.74.0.self.sroa_idx = getelementptr inbounds nuw i8, ptr %self, i64 32
  %limbs.sroa.74.0.copyload = load i64, ptr %limbs.sroa.74.0.self.sroa_idx, align 8
  %_98 = lshr i64 %limbs.sroa.0.0.copyload, 51
  %_100 = lshr i64 %limbs.sroa.19.0.copyload, 51
  %_102 = lshr i64 %limbs.sroa.37.0.copyload, 51
  %_104 = lshr i64 %limbs.sroa.56.0.copyload, 51
  %_106 = lshr i64 %limbs.sroa.74.0.copyload, 51
  %0 = and i64 %limbs.sroa.0.0.copyload, 2251799813685247
  %1 = and i64 %limbs.sroa.19.0.copyload, 2251799813685247
  %2 = and i64 %limbs.sroa.37.0.copyload, 2251799813685247
  %3 = and i64 %limbs.sroa.56.0.copyload, 2251799813685247
  %4 = and i64 %limbs.sroa.74.0.copyload, 2251799813685247
  %_108 = mul nuw nsw i64 %_106, 19
  %5 = add nuw nsw i64 %_108, %0
  %6 = add nuw nsw i64 %1, %_98
  %7 = add nuw nsw i64 %2, %_100
  %8 = add nuw nsw i64 %3, %_102
  %9 = add nuw nsw i64 %4, %_104
  %_4 = add nuw nsw i64 %5, 19
  %10 = lshr i64 %_4, 51
  %_6 = add nuw nsw i64 %10, %6
  %11 = lshr i64 %_6, 51
  %_8 = add nuw nsw i64 %11, %7
  %12 = lshr i64 %_8, 51
  %_10 = add nuw nsw i64 %12, %8
  %13 = lshr i64 %_10, 51
  %_12 = add nuw nsw i64 %13, %9
  %14 = lshr i64 %_12, 51
  %_14 = mul nuw nsw i64 %14, 19
  %15 = add nuw nsw i64 %_14, %5
  %_15 = lshr i64 %15, 51
  %16 = add nuw nsw i64 %_15, %6
  %_17 = lshr i64 %16, 51
  %17 = add nuw nsw i64 %_17, %7
  %18 = and i64 %16, 2251799813685247
  %_19 = lshr i64 %17, 51
  %19 = add nuw nsw i64 %_19, %8
  %20 = and i64 %17, 2251799813685247
  %_21 = lshr i64 %19, 51
  %21 = add nuw nsw i64 %_21, %9
  %22 = and i64 %19, 2251799813685247
  %23 = and i64 %21, 2251799813685247
  %24 = trunc i64 %15 to i8
  store i8 %24, ptr %s, align 1
  %_24 = lshr i64 %15, 8
  %25 = getelementptr inbounds nuw i8, ptr %s, i64 1
  %26 = trunc i64 %_24 to i8
  store i8 %26, ptr %25, align 1
  %_26 = lshr i64 %15, 16
  %27 = getelementptr inbounds nuw i8, ptr %s, i64 2
  %28 = trunc i64 %_26 to i8
  store i8 %28, ptr %27, align 1
  %_28 = lshr i64 %15, 24
  %29 = getelementptr inbounds nuw i8, ptr %s, i64 3
  %30 = trunc i64 %_28 to i8
  store i8 %30, ptr %29, align 1
  %_30 = lshr i64 %15, 32
  %31 = getelementptr inbounds nuw i8, ptr %s, i64 4
  %32 = trunc i64 %_30 to i8
  store i8 %32, ptr %31, align 1
  %_32 = lshr i64 %15, 40
  %33 = getelementptr inbounds nuw i8, ptr %s, i64 5
  %34 = trunc i64 %_32 to i8
  store i8 %34, ptr %33, align 1
  %35 = lshr i64 %15, 48
  %_35 = and i64 %35, 7
  %_37 = shl nuw nsw i64 %18, 3
  %_34 = or disjoint i64 %_37, %_35
  %36 = getelementptr inbounds nuw i8, ptr %s, i64 6
  %37 = trunc i64 %_34 to i8
  store i8 %37, ptr %36, align 1
  %_39 = lshr i64 %16, 5
  %38 = getelementptr inbounds nuw i8, ptr %s, i64 7
  %39 = trunc i64 %_39 to i8
  store i8 %39, ptr %38, align 1
  %_41 = lshr i64 %16, 13
  %40 = getelementptr inbounds nuw i8, ptr %s, i64 8
  %41 = trunc i64 %_41 to i8
  store i8 %41, ptr %40, align 1
  %_43 = lshr i64 %16, 21
  %42 = getelementptr inbounds nuw i8, ptr %s, i64 9
  %43 = trunc i64 %_43 to i8
  store i8 %43, ptr %42, align 1
  %_45 = lshr i64 %16, 29
  %44 = getelementptr inbounds nuw i8, ptr %s, i64 10
  %45 = trunc i64 %_45 to i8
  store i8 %45, ptr %44, align 1
  %_47 = lshr i64 %16, 37
  %46 = getelementptr inbounds nuw i8, ptr %s, i64 11
  %47 = trunc i64 %_47 to i8
  store i8 %47, ptr %46, align 1
  %_50 = lshr i64 %18, 45
  %_52 = shl nuw nsw i64 %20, 6
  %_49 = or disjoint i64 %_52, %_50
  %48 = getelementptr inbounds nuw i8, ptr %s, i64 12
  %49 = trunc i64 %_49 to i8
  store i8 %49, ptr %48, align 1
  %_54 = lshr i64 %17, 2
  %50 = getelementptr inbounds nuw i8, ptr %s, i64 13
  %51 = trunc i64 %_54 to i8
  store i8 %51, ptr %50, align 1
  %_56 = lshr i64 %17, 10
  %52 = getelementptr inbounds nuw i8, ptr %s, i64 14
  %53 = trunc i64 %_56 to i8
  store i8 %53, ptr %52, align 1
  %_58 = lshr i64 %17, 18
  %54 = getelementptr inbounds nuw i8, ptr %s, i64 15
  %55 = trunc i64 %_58 to i8
  store i8 %55, ptr %54, align 1
  %_60 = lshr i64 %17, 26
  %56 = getelementptr inbounds nuw i8, ptr %s, i64 16
  %57 = trunc i64 %_60 to i8
  store i8 %57, ptr %56, align 1
  %_62 = lshr i64 %17, 34
  %58 = getelementptr inbounds nuw i8, ptr %s, i64 17
  %59 = trunc i64 %_62 to i8
  store i8 %59, ptr %58, align 1
  %_64 = lshr i64 %17, 42
  %60 = getelementptr inbounds nuw i8, ptr %s, i64 18
  %61 = trunc i64 %_64 to i8
  store i8 %61, ptr %60, align 1
  %_67 = lshr i64 %20, 50
  %_69 = shl nuw nsw i64 %22, 1
  %_66 = or disjoint i64 %_69, %_67
  %62 = getelementptr inbounds nuw i8, ptr %s, i64 19
  %63 = trunc i64 %_66 to i8
  store i8 %63, ptr %62, align 1
  %_71 = lshr i64 %19, 7
  %64 = getelementptr inbounds nuw i8, ptr %s, i64 20
  %65 = trunc i64 %_71 to i8
  store i8 %65, ptr %64, align 1
  %_73 = lshr i64 %19, 15
  %66 = getelementptr inbounds nuw i8, ptr %s, i64 21
  %67 = trunc i64 %_73 to i8
  store i8 %67, ptr %66, align 1
  %_75 = lshr i64 %19, 23
  %68 = getelementptr inbounds nuw i8, ptr %s, i64 22
  %69 = trunc i64 %_75 to i8
  store i8 %69, ptr %68, align 1
  %_77 = lshr i64 %19, 31
  %70 = getelementptr inbounds nuw i8, ptr %s, i64 23
  %71 = trunc i64 %_77 to i8
  store i8 %71, ptr %70, align 1
  %_79 = lshr i64 %19, 39
  %72 = getelementptr inbounds nuw i8, ptr %s, i64 24
  %73 = trunc i64 %_79 to i8
  store i8 %73, ptr %72, align 1
  %_82 = lshr i64 %22, 47
  %_84 = shl nuw nsw i64 %23, 4
  %_81 = or disjoint i64 %_84, %_82
  %74 = getelementptr inbounds nuw i8, ptr %s, i64 25
  %75 = trunc i64 %_81 to i8
  store i8 %75, ptr %74, align 1
  %_86 = lshr i64 %21, 4
  %76 = getelementptr inbounds nuw i8, ptr %s, i64 26
  %77 = trunc i64 %_86 to i8
  store i8 %77, ptr %76, align 1
  %_88 = lshr i64 %21, 12
  %78 = getelementptr inbounds nuw i8, ptr %s, i64 27
  %79 = trunc i64 %_88 to i8
  store i8 %79, ptr %78, align 1
  %_90 = lshr i64 %21, 20
  %80 = getelementptr inbounds nuw i8, ptr %s, i64 28
  %81 = trunc i64 %_90 to i8
  store i8 %81, ptr %80, align 1
  %_92 = lshr i64 %21, 28
  %82 = getelementptr inbounds nuw i8, ptr %s, i64 29
  %83 = trunc i64 %_92 to i8
  store i8 %83, ptr %82, align 1
  %_94 = lshr i64 %21, 36
  %84 = getelementptr inbounds nuw i8, ptr %s, i64 30
  %85 = trunc i64 %_94 to i8
  store i8 %85, ptr %84, align 1
  %_96 = lshr i64 %23, 44
  %86 = getelementptr inbounds nuw i8, ptr %s, i64 31
  %87 = trunc nuw nsw i64 %_96 to i8
  store i8 %87, ptr %86, align 1
  ret void
}
