#!/usr/bin/env python3-vt
"""Feasibility probe (NOT the framework): AVX2 FieldElement2625x4 * FieldElement2625x4 from the real O3 IR.
Vector values are lists of lanes; lanes are Polys / bit-slice views (proto5 machinery).
Checks, for each of the four SIMD field lanes, value(out_lane) == value(a_lane)*value(b_lane) (mod p)."""
import re, sys, time
import z3
import proto5 as P5
from proto1 import Poly, to_z3
from proto1c import subst
P = 2**255 - 19
POISON = None

def vconst(tok, n, w):
    tok = tok.strip()
    if tok == "zeroinitializer": return [Poly.const(0)] * n
    m = re.match(r'splat \(i\d+ (-?\d+)\)', tok)
    if m: return [Poly.const(int(m.group(1)))] * n
    m = re.match(r'<(.*)>$', tok)
    if m:
        out = []
        for e in m.group(1).split(","):
            v = e.strip().split()[-1]
            out.append(POISON if v in ("poison", "undef") else Poly.const(int(v)))
        return out
    return None

def run(irtext, ctx, args, mem):
    env = dict(args)
    def vec(tok, n, w):
        tok = tok.strip()
        if tok.startswith("%"): return env[tok]
        c = vconst(tok, n, w); assert c is not None, tok; return c
    for line in irtext.splitlines():
        line = line.strip()
        line = re.sub(r', !alias\.scope.*$', '', line); line = re.sub(r', !noalias.*$', '', line)
        if (not line or line.endswith(':') or line.startswith(('define', '}', 'ret', ';', 'tail call void @llvm.experimental'))): continue
        m = re.match(r'(%[\w.]+) = getelementptr inbounds nuw i8, ptr (%[\w.]+), i64 (\d+)', line)
        if m: b, o = env[m.group(2)]; env[m.group(1)] = (b, o + int(m.group(3))); continue
        m = re.match(r'(%[\w.]+) = load <8 x i32>, ptr (%[\w.]+)', line)
        if m: env[m.group(1)] = mem[env[m.group(2)]]; continue
        m = re.match(r'store <8 x i32> (%[\w.]+), ptr (%[\w.]+)', line)
        if m: mem[env[m.group(2)]] = env[m.group(1)]; continue
        m = re.match(r'(%[\w.]+) = shufflevector <(\d+) x i(\d+)> ([^,]+(?:<[^>]*>)?), <\d+ x i\d+> (%[\w.]+|<[^>]*>|zeroinitializer|poison), <\d+ x i32> <([^>]*)>', line)
        if m:
            n, w = int(m.group(2)), int(m.group(3))
            a = vec(m.group(4), n, w) if not m.group(4).startswith("<") else vconst(m.group(4), n, w)
            b = [POISON] * n if m.group(5) == "poison" else vec(m.group(5), n, w)
            cat = a + b
            idx = [e.strip().split()[-1] for e in m.group(6).split(",")]
            env[m.group(1)] = [POISON if i in ("poison", "undef") else cat[int(i)] for i in idx]; continue
        m = re.match(r'(%[\w.]+) = bitcast <(\d+) x i(\d+)> (%[\w.]+) to <(\d+) x i(\d+)>', line)
        if m:
            v = env[m.group(4)]; fw, tw = int(m.group(3)), int(m.group(6))
            if fw == 32 and tw == 64:
                out = []
                for j in range(0, len(v), 2):
                    lo, hi = v[j], v[j + 1]
                    if lo is POISON or hi is POISON: out.append(("half", lo, hi))   # keep halves, resolved on use
                    else: out.append(P5.as_poly(ctx, lo) + P5.as_poly(ctx, hi).scale(2**32))
                env[m.group(1)] = out
            else:
                out = []
                for x in v:
                    if isinstance(x, tuple): out += [x[1], x[2]]
                    else: out += [P5.mk_slice(ctx, x, 0, 32), P5.mk_slice(ctx, x, 32, 64)]
                env[m.group(1)] = out
            continue
        m = re.match(r'(%[\w.]+) = (mul|add|shl|lshr|and)( nuw)?( nsw)? <(\d+) x i(\d+)> ([^,]+(?:<[^>]*>)?), (.+)$', line)
        if m:
            op, n, w = m.group(2), int(m.group(5)), int(m.group(6))
            A = vec(m.group(7), n, w); B = vec(m.group(8), n, w); out = []
            for x, y in zip(A, B):
                if isinstance(x, tuple):      # 64-bit lane whose high half is poison: only legal under a low-32 mask
                    assert op == "and" and y is not POISON and y.cval() == 2**32 - 1, line
                    out.append(P5.as_poly(ctx, x[1])); continue
                if x is POISON or y is POISON: out.append(POISON); continue
                if op == "and":
                    mask = y.cval(); k = mask.bit_length(); assert mask == 2**k - 1
                    out.append(P5.mk_slice(ctx, x, 0, k)); continue
                if op == "lshr": out.append(P5.mk_slice(ctx, x, y.cval(), None)); continue
                xp, yp = P5.as_poly(ctx, x), P5.as_poly(ctx, y)
                r = xp * yp if op == "mul" else (xp + yp if op == "add" else xp.scale(2**yp.cval()))
                out.append(P5.wrap(ctx, r, w))
            env[m.group(1)] = out; continue
        raise Exception("unhandled: " + line)
    return env

def main():
    ir = open(sys.argv[1]).read()
    ctx = P5.Ctx(); mem = {}
    # layout of u32x8 number i: [a_2i, b_2i, a_2i+1, b_2i+1, c_2i, d_2i, c_2i+1, d_2i+1]
    pos = {"a": (0, 2), "b": (1, 3), "c": (4, 6), "d": (5, 7)}
    X = {l: [None] * 10 for l in "abcd"}; Y = {l: [None] * 10 for l in "abcd"}
    for i in range(5):
        vx = [None] * 8; vy = [None] * 8
        for l in "abcd":
            for h in (0, 1):
                k = 2 * i + h; nb = 26 if k % 2 == 0 else 25
                xn, yn = f"x{l}{k}", f"y{l}{k}"
                ctx.bounds[xn] = (0, 5 * 2**nb - 1); ctx.bounds[yn] = (0, 3 * 2**nb - 1)     # b < 2.32 / b < 1.58
                vx[pos[l][h]] = Poly.var(xn); vy[pos[l][h]] = Poly.var(yn); X[l][k] = Poly.var(xn); Y[l][k] = Poly.var(yn)
        mem[("self", 32 * i)] = vx; mem[("rhs", 32 * i)] = vy
    t0 = time.time()
    run(ir, ctx, {"%self": ("self", 0), "%rhs": ("rhs", 0), "%_0": ("out", 0)}, mem)
    W = [0, 26, 51, 77, 102, 128, 153, 179, 204, 230]
    defs, expand = P5.finish(ctx, None)
    print("symbolic execution + elimination set-up: %.2fs, decomposed values: %d" % (time.time() - t0, len(defs)))
    for l in "abcd":
        out = [None] * 10
        for i in range(5):
            v = mem[("out", 32 * i)]
            for h in (0, 1): out[2 * i + h] = P5.as_poly(ctx, v[pos[l][h]])
        defs, expand = P5.finish(ctx, None)
        val = lambda limbs: sum((x.scale(2**W[i]) for i, x in enumerate(limbs)), Poly.const(0))
        diff = expand(val(out) - val(X[l]) * val(Y[l]))
        s = z3.Solver(); zv = {}
        used = set(v for m in diff.t for v in m)
        for v, repl in defs:
            e = to_z3(ctx, expand(Poly.var(v)), zv); lo, hi = ctx.bounds[v]; s.add(e >= lo, e <= hi)
        dz = to_z3(ctx, diff, zv)
        for m_, v in list(zv.items()):
            lo, hi = Poly({m_: 1}).interval(ctx); s.add(v >= lo, v <= hi)
        s.set("timeout", 600000)
        if l == "a": print("   vacuity guard: constraints without goal are", s.check(), "| residual terms:", len(diff.t))
        s.add(dz % P != 0)
        t1 = time.time(); r = s.check()
        bits = [expand(o).interval(ctx)[1].bit_length() if False else 0 for o in out]
        print("lane %s: value(out) == value(x)*value(y) mod p : %s  (%.1fs, %d atoms)" % (l, "HOLDS (unsat)" if r == z3.unsat else r, time.time() - t1, len(zv)))
main()
