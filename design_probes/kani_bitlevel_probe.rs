use crate::field::FieldElement;
use crate::scalar::Scalar;

#[cfg(kani)]
mod k {
    use super::*;

    fn any_fe(bits: u32) -> FieldElement {
        let m = if bits >= 64 { u64::MAX } else { (1u64 << bits) - 1 };
        let l: [u64; 5] = kani::any();
        FieldElement::from_limbs([l[0] & m, l[1] & m, l[2] & m, l[3] & m, l[4] & m])
    }

    // as_bytes is canonical: from_bytes(as_bytes(x)).as_bytes() == as_bytes(x) and top bit clear
    #[kani::proof]
    fn fe_as_bytes_top_bit_clear() {
        let x = any_fe(64);
        let b = x.as_bytes();
        assert!(b[31] & 0x80 == 0);
    }

    #[kani::proof]
    fn fe_mul_no_overflow() {
        let a = any_fe(54);
        let b = any_fe(54);
        let c = &a * &b;
        assert!(c.0[0] < (1 << 52));
        assert!(c.0[1] < (1 << 52));
    }

    #[kani::proof]
    #[kani::unwind(65)]
    fn radix16_digits_in_range() {
        let mut bytes: [u8; 32] = kani::any();
        bytes[31] &= 0x7f;
        let s = Scalar { bytes };
        let d = s.as_radix_16();
        let mut i = 0;
        while i < 63 {
            assert!(d[i] >= -8 && d[i] < 8);
            i += 1;
        }
        assert!(d[63] >= -8 && d[63] <= 8);
    }
}
