#!/usr/bin/env python3-vt
"""Prototype 5: chained ("digit") decompositions so that all shifts/masks of one value share variables.
   Target: FieldElement51::as_bytes canonical encoding, all limbs < 2^64."""
import re, sys, time
import z3
from proto1 import Poly, to_z3
from proto1c import subst
P = 2**255 - 19

class Ctx:
    def __init__(self):
        self.bounds = {}; self.n = 0
        self.split = {}        # var -> Poly (later refinement: d = d_lo + 2^s d_hi)
        self.dec = {}          # key(x) -> dict(x=Poly, cuts=[k...], digits=[var...]) ; x = sum digits[j]*2^cuts[j-1]
        self.order = []
    def fresh(self, pfx, lo, hi):
        self.n += 1; v = f"{pfx}{self.n}"; self.bounds[v] = (lo, hi); return v
    def resolve(self, p):
        """apply digit-splitting substitutions until fixpoint"""
        changed = True
        while changed:
            changed = False
            for m in list(p.t):
                for v in m:
                    if v in self.split:
                        p = subst(p, v, self.split[v]); changed = True; break
                if changed: break
        return p

def digits_of(ctx, x):
    x = ctx.resolve(x)
    key = x.key()
    if key not in ctx.dec:
        lo, hi = x.interval(ctx); assert lo >= 0
        top = ctx.fresh("d", lo, hi)
        ctx.dec[key] = dict(x=x, cuts=[0], digs=[top], his=[hi]); ctx.order.append(key)
    return ctx.dec[key]

def cut(ctx, x, k):
    """ensure a cut at bit k; return (q, r) with x = q*2^k + r as Polys over digit vars"""
    lo, hi = ctx.resolve(x).interval(ctx)
    if x.is_const():
        return Poly.const(x.cval() >> k), Poly.const(x.cval() & (2**k - 1))
    if hi < 2**k: return Poly.const(0), x
    D = digits_of(ctx, x)
    if k not in D['cuts']:
        # find digit covering k
        j = max(i for i, c in enumerate(D['cuts']) if c < k)
        d = D['digs'][j]; base = D['cuts'][j]; s = k - base
        dlo_, dhi_ = ctx.bounds[d]
        nxt = D['cuts'][j + 1] if j + 1 < len(D['cuts']) else None
        lo_v = ctx.fresh("d", 0, min(dhi_, 2**s - 1)); hi_v = ctx.fresh("d", dlo_ >> s, dhi_ >> s)
        ctx.split[d] = Poly.var(lo_v) + Poly.var(hi_v).scale(2**s)
        D['cuts'].insert(j + 1, k); D['digs'][j] = lo_v; D['digs'].insert(j + 1, hi_v)
    q = Poly.const(0); r = Poly.const(0)
    for c, d in zip(D['cuts'], D['digs']):
        if c >= k: q = q + Poly.var(d).scale(2**(c - k))
        else: r = r + Poly.var(d).scale(2**c)
    return q, r

class Slice:
    """bits [a,b) of base value x (Poly); b None = up to top"""
    def __init__(self, x, a, b): self.x, self.a, self.b = x, a, b
def as_poly(ctx, v):
    if isinstance(v, Slice):
        q, _ = cut(ctx, v.x, v.a) if v.a > 0 else (v.x, None)
        if v.b is None: return q
        # need bits [a,b): cut at b too, then take digits between
        cut(ctx, v.x, v.b)
        lo, hi = ctx.resolve(v.x).interval(ctx)
        if v.x.is_const(): return Poly.const((v.x.cval() >> v.a) & (2**(v.b - v.a) - 1))
        if hi < 2**v.a: return Poly.const(0)
        D = digits_of(ctx, v.x); r = Poly.const(0)
        if v.a > 0: cut(ctx, v.x, v.a)
        for c, d in zip(D['cuts'], D['digs']):
            if v.a <= c < v.b: r = r + Poly.var(d).scale(2**(c - v.a))
        if hi < 2**v.b and v.a == 0: return v.x
        return r
    return v
def mk_slice(ctx, v, a, b):
    if isinstance(v, Slice):
        na = v.a + a; nb = None if b is None else v.a + b
        if v.b is not None: nb = v.b if nb is None else min(nb, v.b)
        return Slice(v.x, na, nb)
    return Slice(v, a, b)

def wrap(ctx, r, w):
    lo, hi = ctx.resolve(r).interval(ctx)
    if hi >= 2**w: return cut(ctx, r, w)[1]
    return r

def run(irtext, ctx, args, mem):
    env = dict(args)
    def val(tok):
        tok = tok.strip()
        return as_poly(ctx, env[tok]) if tok.startswith('%') else Poly.const(int(tok))
    for line in irtext.splitlines():
        line = line.strip().replace('or disjoint', 'add')
        if (not line or line.endswith(':') or line.startswith(('define', '}', 'ret', ';', 'tail call void @llvm.experimental', 'call void @llvm.lifetime'))): continue
        m = re.match(r'(%[\w.]+) = getelementptr inbounds nuw i8, ptr (%[\w.]+), i64 (\d+)', line)
        if m: b, o = env[m.group(2)]; env[m.group(1)] = (b, o + int(m.group(3))); continue
        m = re.match(r'(%[\w.]+) = load i(8|32|64), ptr (%[\w.]+)', line)
        if m: env[m.group(1)] = mem[env[m.group(3)]]; continue
        m = re.match(r'store i(8|32|64) (%[\w.]+), ptr (%[\w.]+)', line)
        if m: mem[env[m.group(3)]] = as_poly(ctx, env[m.group(2)]); continue
        m = re.match(r'(%[\w.]+) = (mul|add|shl)( nuw)?( nsw)? i(\d+) ([^,]+), (.+)$', line)
        if m:
            op, w = m.group(2), int(m.group(5)); a, b = val(m.group(6)), val(m.group(7))
            r = a * b if op == 'mul' else (a + b if op == 'add' else a.scale(2**b.cval()))
            env[m.group(1)] = wrap(ctx, r, w); continue
        m = re.match(r'(%[\w.]+) = zext (nneg )?i\d+ (%[\w.]+) to i\d+', line)
        if m: env[m.group(1)] = env[m.group(3)]; continue
        m = re.match(r'(%[\w.]+) = trunc (nuw )?(nsw )?i\d+ (%[\w.]+) to i(\d+)', line)
        if m: env[m.group(1)] = mk_slice(ctx, env[m.group(4)], 0, int(m.group(5))); continue
        m = re.match(r'(%[\w.]+) = lshr i\d+ (%[\w.]+), (\d+)', line)
        if m: env[m.group(1)] = mk_slice(ctx, env[m.group(2)], int(m.group(3)), None); continue
        m = re.match(r'(%[\w.]+) = and i\d+ (%[\w.]+), (\d+)', line)
        if m:
            mask = int(m.group(3)); k = mask.bit_length(); assert mask == 2**k - 1, line
            env[m.group(1)] = mk_slice(ctx, env[m.group(2)], 0, k); continue
        raise Exception("unhandled: " + line)
    return env

def finish(ctx, goals):
    """eliminate: for each decomposed x (in creation order), lowest digit := x - sum(higher digits)"""
    defs = []
    for key in ctx.order:
        D = ctx.dec[key]
        x = ctx.resolve(D['x'])
        rest = Poly.const(0)
        for c, d in list(zip(D['cuts'], D['digs']))[1:]: rest = rest + Poly.var(d).scale(2**c)
        defs.append((D['digs'][0], x - rest))
    def expand(p):
        p = ctx.resolve(p)
        for v, repl in reversed(defs): p = subst(p, v, ctx.resolve(repl))
        return p
    return defs, expand

def main():
    ir = open(sys.argv[1]).read(); bits = int(sys.argv[2]) if len(sys.argv) > 2 else 64
    ctx = Ctx(); mem = {}; A = []
    for i in range(5):
        a = f"a{i}"; ctx.bounds[a] = (0, 2**bits - 1); mem[("self", 8*i)] = Poly.var(a); A.append(Poly.var(a))
    t0 = time.time()
    run(ir, ctx, {"%self": ("self", 0), "%s": ("out", 0)}, mem)
    out = [mem[("out", i)] for i in range(32)]
    vin = sum((l.scale(2**(51*i)) for i, l in enumerate(A)), Poly.const(0))
    vout = sum((l.scale(2**(8*i)) for i, l in enumerate(out)), Poly.const(0))
    defs, expand = finish(ctx, None)
    s = z3.Solver(); zv = {}
    for v, repl in defs:
        e = to_z3(ctx, expand(Poly.var(v)), zv); lo, hi = ctx.bounds[v]; s.add(e >= lo, e <= hi)
    dz = to_z3(ctx, expand(vout - vin), zv); oz = to_z3(ctx, expand(vout), zv)
    for m, v in list(zv.items()):
        lo, hi = Poly({m: 1}).interval(ctx); s.add(v >= lo, v <= hi)
    print("decomposed values", len(defs), "vars", len(zv), "residual terms", len(expand(vout - vin).t), "t", time.time() - t0)
    s.set("timeout", 300000)
    s.push(); s.add(dz % P != 0); print("value preserved mod p:", s.check(), time.time() - t0); s.pop()
    s.push(); s.add(oz >= P); print("output < p:", s.check(), time.time() - t0); s.pop()
    s.push(); s.add(to_z3(ctx, expand(out[31]), zv) >= 128); print("top bit clear:", s.check(), time.time() - t0); s.pop()
if __name__ == "__main__": main()
