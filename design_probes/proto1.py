#!/usr/bin/env python3-vt
"""Prototype: straight-line LLVM IR -> linearised Int encoding (z3), for FieldElement51::mul."""
import re, sys, time
import z3

P = 2**255 - 19

class Ctx:
    def __init__(self):
        self.bounds = {}      # var -> (lo,hi)
        self.cons = []        # list of (poly == 0) constraints as Poly
        self.n = 0
        self.decomp = {}
        self.oblig = []
    def fresh(self, pfx, lo, hi):
        self.n += 1
        v = f"{pfx}{self.n}"
        self.bounds[v] = (lo, hi)
        return v

class Poly:
    __slots__ = ("t",)
    def __init__(self, t=None):
        self.t = t or {}
    @staticmethod
    def const(c): return Poly({(): c} if c else {})
    @staticmethod
    def var(v): return Poly({(v,): 1})
    def is_const(self): return all(m == () for m in self.t)
    def cval(self): return self.t.get((), 0)
    def __add__(self, o):
        t = dict(self.t)
        for m, c in o.t.items():
            t[m] = t.get(m, 0) + c
            if t[m] == 0: del t[m]
        return Poly(t)
    def scale(self, k):
        return Poly({m: c * k for m, c in self.t.items()} if k else {})
    def __sub__(self, o): return self + o.scale(-1)
    def __mul__(self, o):
        t = {}
        for m1, c1 in self.t.items():
            for m2, c2 in o.t.items():
                m = tuple(sorted(m1 + m2))
                t[m] = t.get(m, 0) + c1 * c2
                if t[m] == 0: del t[m]
        return Poly(t)
    def interval(self, ctx):
        lo = hi = 0
        for m, c in self.t.items():
            ml = mh = 1
            for v in m:
                l, h = ctx.bounds[v]
                assert l >= 0
                ml *= l; mh *= h
            if c >= 0: lo += c * ml; hi += c * mh
            else: lo += c * mh; hi += c * ml
        return lo, hi
    def key(self): return tuple(sorted(self.t.items()))

def divmod_pow2(ctx, x, k):
    """return (q, r) polys with x = q*2^k + r, 0<=r<2^k"""
    key = (x.key(), k)
    if key in ctx.decomp: return ctx.decomp[key]
    lo, hi = x.interval(ctx)
    assert lo >= 0
    if hi < 2**k:
        res = (Poly.const(0), x)
    elif x.is_const():
        res = (Poly.const(x.cval() >> k), Poly.const(x.cval() & (2**k - 1)))
    else:
        q = ctx.fresh("q", lo >> k, hi >> k)
        r = ctx.fresh("r", 0, 2**k - 1)
        ctx.cons.append(x - Poly.var(q).scale(2**k) - Poly.var(r))
        res = (Poly.var(q), Poly.var(r))
    ctx.decomp[key] = res
    return res

def run(irtext, ctx, args, mem):
    """args: name -> value ; mem: (base, off) -> Poly (i64 cells). returns stores"""
    env = dict(args)
    def val(tok, w=None):
        tok = tok.strip()
        if tok.startswith('%'): return env[tok]
        return Poly.const(int(tok))
    for line in irtext.splitlines():
        line = line.strip()
        if not line or line.endswith(':') or line.startswith('define') or line == '}' or line.startswith('ret'):
            continue
        m = re.match(r'(%[\w.]+) = getelementptr inbounds nuw i8, ptr (%[\w.]+), i64 (\d+)', line)
        if m:
            b, o = env[m.group(2)]
            env[m.group(1)] = (b, o + int(m.group(3))); continue
        m = re.match(r'(%[\w.]+) = load i64, ptr (%[\w.]+)', line)
        if m:
            env[m.group(1)] = mem[env[m.group(2)]]; continue
        m = re.match(r'store i64 (%[\w.]+), ptr (%[\w.]+)', line)
        if m:
            mem[env[m.group(2)]] = env[m.group(1)]; continue
        m = re.match(r'(%[\w.]+) = (mul|add)( nuw)?( nsw)? i(\d+) ([^,]+), (.+)$', line)
        if m:
            op, w = m.group(2), int(m.group(5))
            a, b = val(m.group(6)), val(m.group(7))
            r = a * b if op == 'mul' else a + b
            lo, hi = r.interval(ctx)
            if hi >= 2**w:
                ctx.oblig.append((line, r, w))
            env[m.group(1)] = r; continue
        m = re.match(r'(%[\w.]+) = zext i\d+ (%[\w.]+) to i\d+', line)
        if m:
            env[m.group(1)] = env[m.group(2)]; continue
        m = re.match(r'(%[\w.]+) = trunc i\d+ (%[\w.]+) to i(\d+)', line)
        if m:
            env[m.group(1)] = divmod_pow2(ctx, env[m.group(2)], int(m.group(3)))[1]; continue
        m = re.match(r'(%[\w.]+) = lshr i\d+ (%[\w.]+), (\d+)', line)
        if m:
            env[m.group(1)] = divmod_pow2(ctx, env[m.group(2)], int(m.group(3)))[0]; continue
        m = re.match(r'(%[\w.]+) = and i\d+ (%[\w.]+), (\d+)', line)
        if m:
            mask = int(m.group(3)); k = mask.bit_length()
            assert mask == 2**k - 1
            env[m.group(1)] = divmod_pow2(ctx, env[m.group(2)], k)[1]; continue
        raise Exception("unhandled: " + line)
    return mem

def to_z3(ctx, poly, zv):
    terms = []
    for m, c in poly.t.items():
        if m == (): terms.append(z3.IntVal(c)); continue
        if m not in zv:
            zv[m] = z3.Int("_".join(m))
        terms.append(c * zv[m])
    return z3.Sum(terms) if terms else z3.IntVal(0)

def main():
    ir = open(sys.argv[1]).read()
    bexp = int(sys.argv[2]) if len(sys.argv) > 2 else 54
    ctx = Ctx()
    mem = {}
    A = []; B = []
    for i in range(5):
        a = f"a{i}"; b = f"b{i}"
        ctx.bounds[a] = (0, 2**bexp - 1); ctx.bounds[b] = (0, 2**bexp - 1)
        mem[("self", 8 * i)] = Poly.var(a); mem[("rhs", 8 * i)] = Poly.var(b)
        A.append(Poly.var(a)); B.append(Poly.var(b))
    args = {"%self": ("self", 0), "%_rhs": ("rhs", 0), "%_0": ("out", 0)}
    t0 = time.time()
    run(ir, ctx, args, mem)
    out = [mem[("out", 8 * i)] for i in range(5)]
    print("overflow obligations not closed by intervals:", len(ctx.oblig))
    for l, r, w in ctx.oblig: print("   ", l, r.interval(ctx)[1].bit_length())
    for i, o in enumerate(out):
        print("out", i, "hi bits", o.interval(ctx)[1].bit_length(), o.interval(ctx))
    # functional
    val = lambda limbs: sum((l.scale(2**(51 * i)) for i, l in enumerate(limbs)), Poly.const(0))
    diff = val(out) - val(A) * val(B)
    zv = {}
    s = z3.Solver()
    for c in ctx.cons:
        s.add(to_z3(ctx, c, zv) == 0)
    d = to_z3(ctx, diff, zv)
    # bounds on every monomial atom
    for m, v in list(zv.items()):
        lo, hi = Poly({m: 1}).interval(ctx)
        s.add(v >= lo, v <= hi)
    s.add(d % P != 0)
    print("atoms", len(zv), "constraints", len(ctx.cons))
    r = s.check()
    print("functional:", r, "time", time.time() - t0)
    # output bound query: out[i] < 2^52 by solver
    for i, o in enumerate(out):
        s2 = z3.Solver()
        zv2 = {}
        for c in ctx.cons: s2.add(to_z3(ctx, c, zv2) == 0)
        oz = to_z3(ctx, o, zv2)
        for m, v in list(zv2.items()):
            lo, hi = Poly({m: 1}).interval(ctx)
            s2.add(v >= lo, v <= hi)
        s2.add(oz >= 2**51 + 2**13)
        print(" out", i, "< 2^51+2^13 :", s2.check())
if __name__=="__main__": main()
