pub fn point_from_tags(a: u64, b: u64) -> crate::edwards::EdwardsPoint {
    let mut p = crate::edwards::EdwardsPoint::default(); p.X.0[0] = a; p.X.0[1] = b; p
}
pub fn point_tags(p: &crate::edwards::EdwardsPoint) -> (u64, u64) { (p.X.0[0], p.X.0[1]) }
pub fn scalar_raw(bytes: [u8; 32]) -> crate::scalar::Scalar { crate::scalar::Scalar { bytes } }
