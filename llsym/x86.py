"""x86 vector intrinsics that survive as calls in the optimised IR (most AVX2 code is generic vector IR)."""
from .ir import Unsupported
from .lsym import UNDEF

def intrinsic(it, name, a):
    if name == "llvm.x86.avx2.permd":
        # vpermd: out[i] = a[idx[i] & 7]
        src, idx = a[0], a[1]
        out = []
        for j in idx:
            if j is UNDEF: out.append(UNDEF); continue
            p = it.P(j)
            if not p.is_const(): raise Unsupported("vpermd with a symbolic index vector")
            out.append(src[p.cval() & 7])
        return out
    raise Unsupported("intrinsic " + name)
