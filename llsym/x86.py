"""x86 vector intrinsics that survive as calls in the optimised IR (most AVX2 code is generic vector IR)."""
from .ir import Unsupported
from .lsym import UNDEF

def intrinsic(it, name, a):
    if name == "llvm.x86.avx2.permd":
        # vpermd: out[i] = a[idx[i] & 7]
        src, idx = a[0], a[1]
        out = []
        for j in idx:
            if j is UNDEF: out.append(UNDEF); continue
            p = it.P(j)
            if not p.is_const(): raise Unsupported("vpermd with a symbolic index vector")
            out.append(src[p.cval() & 7])
        return out
    if name in ("llvm.x86.avx512.vpmadd52l.uq.256", "llvm.x86.avx512.vpmadd52h.uq.256", "llvm.x86.avx512.vpmadd52l.uq.512", "llvm.x86.avx512.vpmadd52h.uq.512"):
        # vpmadd52{l,h}uq z, x, y: per 64-bit lane  z + (low|high 52 bits of the 104-bit product of the low 52 bits of x and y), wrapping at 2^64
        hi = ".vpmadd52h." in name
        out = []
        for z, x, y in zip(a[0], a[1], a[2]):
            if z is UNDEF or x is UNDEF or y is UNDEF: out.append(UNDEF); continue
            x52 = it.P(it.mk_slice(x, 0, 52)); y52 = it.P(it.mk_slice(y, 0, 52))
            prod = x52 * y52
            part = it.P(it.mk_slice(prod, 52, 104)) if hi else it.P(it.mk_slice(prod, 0, 52))
            out.append(it.wrapv(it.P(z) + part, 64))
        return out
    raise Unsupported("intrinsic " + name)
