"""Parser for the subset of textual LLVM IR that rustc emits (O0 and O3).

Module -> named types, globals (with decoded initialisers), functions -> blocks -> instructions.
Instructions are parsed lazily (per function, on first use) into small tuples; operands are parsed into
Operand tuples so the interpreters never touch text while executing.
"""
import re

class Unsupported(Exception):
    """IR construct outside the supported subset: the check is inconclusive (exit 2), never pass/fail."""

# ----------------------------------------------------------------------------------------- helpers
def split_top(s, sep=","):
    out, depth, cur, inq = [], 0, [], False
    for ch in s:
        if ch == '"': inq = not inq
        if not inq:
            if ch in "([{<": depth += 1
            elif ch in ")]}>": depth -= 1
            if ch == sep and depth == 0:
                out.append("".join(cur).strip()); cur = []; continue
        cur.append(ch)
    t = "".join(cur).strip()
    if t: out.append(t)
    return out

_tyre = re.compile(r'^\s*(ptr|void|i\d+|half|float|double|<\d+ x [^>]+>|\[.*\]|\{.*\}|%"[^"]+"|%[\w.$]+)')

def take_type(s):
    """split a leading type off s; returns (type, rest)"""
    s = s.lstrip()
    if s.startswith("ptr"): return "ptr", s[3:].lstrip()
    if s.startswith("void"): return "void", s[4:].lstrip()
    m = re.match(r'i\d+', s)
    if m: return m.group(0), s[m.end():].lstrip()
    if s[0] in "<[{":
        close = {"<": ">", "[": "]", "{": "}"}
        depth = 0
        for i, ch in enumerate(s):
            if ch in "<[{(": depth += 1
            elif ch in ">]})":
                depth -= 1
                if depth == 0: return s[:i + 1], s[i + 1:].lstrip()
        raise Unsupported("type parse: " + s)
    m = re.match(r'%"[^"]+"|%[\w.$]+', s)
    if m: return m.group(0), s[m.end():].lstrip()
    m = re.match(r'(half|float|double|label|metadata)', s)
    if m: return m.group(0), s[m.end():].lstrip()
    raise Unsupported("type parse: " + s[:60])

def vec_type(ty):
    m = re.match(r'^<(\d+) x (.+)>$', ty)
    return (int(m.group(1)), m.group(2)) if m else None

def int_width(ty):
    if ty == "ptr": return 64
    m = re.match(r'^i(\d+)$', ty)
    if m: return int(m.group(1))
    v = vec_type(ty)
    if v: return int_width(v[1])
    raise Unsupported("int_width of " + ty)

class Module:
    def __init__(self, text):
        self.types = {}
        self.globals = {}      # name -> (type, inittext, is_const)
        self.funcs = {}        # name -> Function
        self.decls = set()
        self.aliases = {}
        self._ginit = {}
        cur = None; lab = None; pending_comment = None; cont = None
        last_comment = None
        for line in text.splitlines():
            if cur is None:
                if line.startswith("; ") and not line.startswith(("; Function Attrs", "; ModuleID")): last_comment = line[2:].strip()
                if not line or line[0] in ";!": continue
                if line.startswith("define "):
                    cur = Function(self, line); self.funcs[cur.name] = cur
                    cur.pretty = last_comment or ""; last_comment = None     # rustc's demangled name of the function
                    lab = None; continue
                if line.startswith("declare "):
                    m = re.search(r'@("[^"]+"|[\w.$]+)\(', line)
                    if m: self.decls.add(m.group(1).strip('"'))
                    continue
                if line[0] == "%":
                    m = re.match(r'^(%"[^"]+"|%[\w.$]+) = type (.*)$', line)
                    if m: self.types[m.group(1)] = m.group(2).strip()
                    continue
                if line[0] == "@":
                    m = re.match(r'^@("[^"]+"|[\w.$]+) = (.*)$', line)
                    if m:
                        am = re.search(r'\balias\b.*,\s*ptr @("[^"]+"|[\w.$]+)\s*$', m.group(2))
                        if am: self.aliases[m.group(1).strip('"')] = am.group(1).strip('"')
                        else: self.globals[m.group(1).strip('"')] = m.group(2)
                    continue
                continue
            if line.startswith("}"):
                cur = None; continue
            s = line.strip()
            if not s: continue
            if s[0] == ";":
                if s.startswith("; call ") or s.startswith("; invoke "): pending_comment = s.split(" ", 2)[2]
                continue
            m = re.match(r'^("[^"]+"|[\w.$-]+):', s)
            if m and not s.startswith("%"):
                lab = m.group(1).strip('"'); cur.blocks[lab] = []; cur.order.append(lab); continue
            if lab is None:
                lab = "%entry0"; cur.blocks[lab] = []; cur.order.append(lab)
            if s == "cleanup" or s.startswith("catch ") or s.startswith("filter "): continue     # landingpad clauses
            if cont is not None:
                cont += " " + s
                if s.startswith("]") or s.startswith("to label"):
                    cur.blocks[lab].append((cont, pending_comment)); pending_comment = None; cont = None
                continue
            if (s.startswith("switch ") and s.endswith("[")) or (" invoke " in " " + s and "unwind label" not in s):
                cont = s; continue
            cur.blocks[lab].append((s, pending_comment)); pending_comment = None

    def link(self, other):
        """add the definitions of another module (a dependency crate's IR) that this module only declares.
        A local (private/internal) symbol defined differently in both modules is recorded as ambiguous: the
        interpreter refuses to resolve it (Unsupported) instead of picking one."""
        amb = self.__dict__.setdefault("ambiguous", set())
        for k, v in other.funcs.items():
            if k not in self.funcs: self.funcs[k] = v
            elif self.funcs[k] is not v and (v.local or self.funcs[k].local): amb.add(k)
        for k, v in other.globals.items():
            if k not in self.globals: self.globals[k] = v
            elif self.globals[k] != v: amb.add(k)
        for k, v in other.types.items():
            if k not in self.types: self.types[k] = v
        for k, v in other.aliases.items():
            if k not in self.aliases: self.aliases[k] = v
            elif self.aliases[k] != v: amb.add(k)
        self.decls |= other.decls
        return self

    # ---- sizes
    def sizeof(self, ty):
        ty = ty.strip()
        if ty == "ptr": return 8
        m = re.match(r'^i(\d+)$', ty)
        if m: return (int(m.group(1)) + 7) // 8
        m = re.match(r'^\[(\d+) x (.*)\]$', ty)
        if m: return int(m.group(1)) * self.sizeof(m.group(2))
        v = vec_type(ty)
        if v: return v[0] * self.sizeof(v[1])
        if ty.startswith("<{"):
            return sum(self.sizeof(t) for t in split_top(ty[2:-2]))
        if ty.startswith("{"):
            off = 0; al = 1
            for t in split_top(ty[1:-1]):
                a = self.alignof(t); al = max(al, a); off = (off + a - 1) // a * a + self.sizeof(t)
            return (off + al - 1) // al * al
        if ty in self.types: return self.sizeof(self.types[ty])
        raise Unsupported("sizeof " + ty)
    def alignof(self, ty):
        ty = ty.strip()
        if ty == "ptr": return 8
        m = re.match(r'^i(\d+)$', ty)
        if m: return min(16, max(1, 1 << ((int(m.group(1)) + 7) // 8 - 1).bit_length()))
        m = re.match(r'^\[(\d+) x (.*)\]$', ty)
        if m: return self.alignof(m.group(2))
        v = vec_type(ty)
        if v: return min(64, v[0] * self.sizeof(v[1]))
        if ty.startswith("<{"): return 1
        if ty.startswith("{"): return max([self.alignof(t) for t in split_top(ty[1:-1])] or [1])
        if ty in self.types: return self.alignof(self.types[ty])
        raise Unsupported("alignof " + ty)
    def field_offset(self, ty, idx):
        ty = ty.strip()
        if ty in self.types: ty = self.types[ty]
        if ty.startswith("<{"):
            fs = split_top(ty[2:-2]); return sum(self.sizeof(t) for t in fs[:idx]), fs[idx]
        if ty.startswith("{"):
            off = 0
            fs = split_top(ty[1:-1])
            for i, t in enumerate(fs):
                a = self.alignof(t); off = (off + a - 1) // a * a
                if i == idx: return off, t
                off += self.sizeof(t)
        m = re.match(r'^\[(\d+) x (.*)\]$', ty)
        if m: return idx * self.sizeof(m.group(2)), m.group(2)
        v = vec_type(ty)
        if v: return idx * self.sizeof(v[1]), v[1]
        raise Unsupported("field_offset " + ty)

    # ---- global initialisers -> list of (offset, kind, payload): kind 'bytes' | 'ptr'
    def global_init(self, name):
        if name in self._ginit: return self._ginit[name]
        txt = self.globals.get(name)
        if txt is None: raise Unsupported("no global " + name)
        # strip linkage words
        m = re.match(r'^(?:(?:private|internal|external|unnamed_addr|local_unnamed_addr|dso_local|hidden|weak|linkonce_odr|available_externally|thread_local|[a-z_]+\([^)]*\))\s+)*(constant|global)\s+(.*)$', txt)
        if not m: raise Unsupported("global syntax " + txt[:80])
        rest = m.group(2)
        ty, rest = take_type(rest)
        rest = re.sub(r',\s*(align \d+|section "[^"]*"|!\w+ !\d+|no_sanitize\w*|comdat(\([^)]*\))?)', '', rest).strip()
        out = []
        self._flatten_const(ty, rest, 0, out)
        self._ginit[name] = (self.sizeof(ty), out)
        return self._ginit[name]

    def _flatten_const(self, ty, txt, off, out):
        txt = txt.strip(); ty = ty.strip()
        if ty in self.types: ty = self.types[ty]
        if txt in ("zeroinitializer", "undef", "poison"):
            if txt == "zeroinitializer": out.append((off, "bytes", bytes(self.sizeof(ty))))
            return
        if ty == "ptr":
            if txt == "null": out.append((off, "bytes", bytes(8))); return
            out.append((off, "ptr", txt)); return
        m = re.match(r'^i(\d+)$', ty)
        if m:
            w = int(m.group(1)); n = (w + 7) // 8
            if txt in ("true", "false"): v = 1 if txt == "true" else 0
            else: v = int(txt)
            out.append((off, "bytes", (v & ((1 << (8 * n)) - 1)).to_bytes(n, "little"))); return
        am = re.match(r'^\[(\d+) x (.*)\]$', ty)
        if am:
            n, et = int(am.group(1)), am.group(2)
            if txt.startswith('c"'):
                out.append((off, "bytes", decode_cstr(txt[2:-1]))); return
            es = self.sizeof(et)
            items = split_top(txt[1:-1])
            for i, it in enumerate(items):
                t2, v2 = take_type(it); self._flatten_const(t2, v2, off + i * es, out)
            return
        if ty.startswith("<{") or ty.startswith("{"):
            packed = ty.startswith("<{")
            fs = split_top(ty[2:-2] if packed else ty[1:-1])
            body = txt[2:-2] if txt.startswith("<{") else txt[1:-1]
            items = split_top(body)
            o = 0
            for t, it in zip(fs, items):
                if not packed:
                    a = self.alignof(t); o = (o + a - 1) // a * a
                t2, v2 = take_type(it); self._flatten_const(t2, v2, off + o, out)
                o += self.sizeof(t)
            return
        v = vec_type(ty)
        if v:
            es = self.sizeof(v[1])
            if txt.startswith("splat"):
                inner = txt[txt.index("(") + 1: txt.rindex(")")]
                t2, v2 = take_type(inner)
                for i in range(v[0]): self._flatten_const(t2, v2, off + i * es, out)
                return
            for i, it in enumerate(split_top(txt[1:-1])):
                t2, v2 = take_type(it); self._flatten_const(t2, v2, off + i * es, out)
            return
        raise Unsupported("const init of type " + ty + ": " + txt[:60])

def decode_cstr(s):
    out = bytearray(); i = 0
    while i < len(s):
        if s[i] == "\\":
            if s[i + 1] == "\\": out.append(0x5c); i += 2; continue
            out.append(int(s[i + 1:i + 3], 16)); i += 3
        else:
            out.append(ord(s[i])); i += 1
    return bytes(out)

class Function:
    def __init__(self, mod, line):
        m = re.search(r'@("[^"]+"|[\w.$]+)\((.*)\)[^()]*\{\s*$', line)
        if not m: raise Unsupported("define syntax: " + line[:120])
        self.mod = mod
        self.local = bool(re.match(r'define\s+(internal|private)\b', line))
        self.name = m.group(1).strip('"')
        self.params = []; self.param_types = []; self.sret = None
        pre = line[:m.start()]
        try:
            self.ret_type = take_type(re.sub(r'^define\s+((?:[a-z_]+(?:\([^)]*\))?\s+|align \d+\s+)*)', '', pre).strip() or "void")[0]
        except Unsupported:
            self.ret_type = None
        args = m.group(2).strip()
        if args:
            for a in split_top(args):
                if a == "...": continue
                ty, rest = take_type(a)
                name = rest.split()[-1] if rest else None
                sm = re.search(r'sret\(([^)]*(?:\([^)]*\))?[^)]*)\)', a)
                if sm: self.sret = (len(self.params), a[a.index("sret(") + 5:].split(")")[0])
                self.params.append(name); self.param_types.append(ty)
        self.blocks = {}; self.order = []; self.pretty = ""
        self._parsed = {}
    def block(self, lab):
        p = self._parsed.get(lab)
        if p is None:
            p = [parse_instr(s, c) for s, c in self.blocks[lab]]
            self._parsed[lab] = p
        return p

# ------------------------------------------------------------------------------- operand parsing
# Operand kinds: ('r', name) register | ('i', int) | ('g', globalname) | ('undef',) | ('null',)
#                ('vec', [ops]) | ('splat', op) | ('zero',) | ('cexpr', text) | ('agg', [(ty,op)])
def parse_operand(tok, ty=None):
    tok = tok.strip()
    if not tok: raise Unsupported("empty operand")
    c = tok[0]
    if c == "%": return ("r", tok)
    if c == "@": return ("g", tok[1:].strip('"'))
    if c == "-" or c.isdigit(): return ("i", int(tok))
    if tok == "true": return ("i", 1)
    if tok == "false": return ("i", 0)
    if tok in ("undef", "poison"): return ("undef",)
    if tok == "null": return ("null",)
    if tok == "zeroinitializer": return ("zero",)
    if tok.startswith("splat"):
        inner = tok[tok.index("(") + 1: tok.rindex(")")]
        t2, v2 = take_type(inner); return ("splat", parse_operand(v2, t2))
    if c == "<":
        return ("vec", [parse_operand(take_type(x)[1]) for x in split_top(tok[1:-1])])
    if c in "{[":
        return ("agg", [(take_type(x)[0], parse_operand(take_type(x)[1])) for x in split_top(tok[1:-1])])
    if tok.startswith("getelementptr") or tok.startswith("ptrtoint") or tok.startswith("inttoptr") or tok.startswith("bitcast"):
        return ("cexpr", tok)
    raise Unsupported("operand: " + tok[:60])

def strip_meta(s):
    # remove trailing ", !foo !N" and ", align N" annotations (top level)
    parts = split_top(s)
    keep = [p for p in parts if not (p.startswith("!") or p.startswith("align ") or p.startswith("!"))]
    return keep

_binops = {"add", "sub", "mul", "and", "or", "xor", "shl", "lshr", "ashr", "udiv", "urem", "sdiv", "srem"}
_casts = {"trunc", "zext", "sext", "bitcast", "ptrtoint", "inttoptr", "freeze"}
_flag_re = re.compile(r'^(nuw|nsw|exact|disjoint|nneg|samesign|inbounds|nusw|volatile|fast|nnan|ninf)\s+')

def parse_instr(s, comment=None):
    """returns tuple (op, dst, ...)"""
    dst = None
    m = re.match(r'^(%"[^"]+"|%[\w.$-]+) = (.*)$', s)
    if m: dst, s = m.group(1), m.group(2)
    sp = s.split(None, 1)
    op = sp[0]; rest = sp[1] if len(sp) > 1 else ""
    if op in ("tail", "musttail", "notail"):
        sp = rest.split(None, 1); op = sp[0]; rest = sp[1]
    if op in _binops:
        flags = set()
        while True:
            fm = _flag_re.match(rest)
            if not fm: break
            flags.add(fm.group(1)); rest = rest[fm.end():]
        ty, rest = take_type(rest)
        a, b = strip_meta(rest)[:2]
        return (op, dst, ty, parse_operand(a, ty), parse_operand(b, ty), flags)
    if op in _casts:
        while True:
            fm = _flag_re.match(rest)
            if not fm: break
            rest = rest[fm.end():]
        ty, rest = take_type(rest)
        if op == "freeze":
            return ("cast", dst, "freeze", ty, parse_operand(strip_meta(rest)[0]), ty)
        i = rest.rindex(" to ")
        return ("cast", dst, op, ty, parse_operand(rest[:i]), take_type(strip_meta(rest[i + 4:])[0])[0])
    if op == "icmp":
        rest = re.sub(r'^samesign\s+', '', rest)
        pred, rest = rest.split(None, 1)
        ty, rest = take_type(rest)
        a, b = strip_meta(rest)[:2]
        return ("icmp", dst, pred, ty, parse_operand(a), parse_operand(b))
    if op == "select":
        parts = strip_meta(rest)
        ct, cv = take_type(parts[0]); at, av = take_type(parts[1]); bt, bv = take_type(parts[2])
        return ("select", dst, ct, parse_operand(cv), at, parse_operand(av), parse_operand(bv))
    if op == "load":
        rest = re.sub(r'^(atomic\s+)?(volatile\s+)?', '', rest)
        vol = "volatile" in s.split("load", 1)[1][:12]
        parts = strip_meta(rest)
        ty = parts[0]; pt, pv = take_type(parts[1])
        pv = re.sub(r'\s+(syncscope\("[^"]*"\)\s+)?(unordered|monotonic|acquire|release|acq_rel|seq_cst)$', '', pv.strip())
        return ("load", dst, ty, parse_operand(pv), vol)
    if op == "store":
        vol = rest.startswith("volatile")
        rest = re.sub(r'^(atomic\s+)?(volatile\s+)?', '', rest)
        parts = strip_meta(rest)
        ty, v = take_type(parts[0]); pt, pv = take_type(parts[1])
        pv = re.sub(r'\s+(syncscope\("[^"]*"\)\s+)?(unordered|monotonic|acquire|release|acq_rel|seq_cst)$', '', pv.strip())
        return ("store", None, ty, parse_operand(v, ty), parse_operand(pv), vol)
    if op == "getelementptr":
        while True:
            fm = _flag_re.match(rest)
            if not fm: break
            rest = rest[fm.end():]
        rest = re.sub(r'^inrange\([^)]*\)\s*', '', rest)
        parts = strip_meta(rest)
        ty = parts[0]; pt, pv = take_type(parts[1])
        idx = []
        for p in parts[2:]:
            it, iv = take_type(p); idx.append((it, parse_operand(iv)))
        return ("gep", dst, ty, parse_operand(pv), idx)
    if op == "alloca":
        parts = strip_meta(rest)
        n = 1
        if len(parts) > 1:
            t2, v2 = take_type(parts[1]); n = parse_operand(v2)
        return ("alloca", dst, parts[0], n)
    if op in ("call", "invoke") and re.match(r'^\s*\S+\s+asm\b', rest):
        return ("asm", dst, rest)
    if op in ("call", "invoke"):
        # [cconv] [ret attrs] <ty> @fn(args) [attrs]
        m = re.search(r'(@"[^"]+"|@[\w.$]+|%[\w.$]+)\((.*)\)(?:\s*#\d+|\s+[a-z]+)*\s*(?:to label %([\w.$-]+) unwind label %([\w.$-]+))?\s*(?:,\s*!.*)?$', rest)
        if not m: raise Unsupported("call syntax: " + s[:160])
        callee = m.group(1)
        pre = rest[:m.start()]
        pre = re.sub(r'\b(fastcc|ccc|coldcc|noundef|nonnull|zeroext|signext|inreg|noalias|align \d+|dereferenceable\(\d+\)|range\([^)]*\)|nofpclass\([^)]*\))\s*', '', pre).strip()
        rty = take_type(pre)[0] if pre else "void"
        args = []
        a = m.group(2).strip()
        if a:
            for x in split_top(a):
                ty, r2 = take_type(x)
                if ty == "metadata": args.append(("metadata", ("undef",))); continue
                # drop parameter attributes
                toks = r2
                toks = re.sub(r'\b(sret|byval|elementtype|dereferenceable|dereferenceable_or_null|align|captures|initializes|range|nofpclass)\((?:[^()]|\([^()]*\))*\)\s*', '', toks)
                toks = re.sub(r'\b(noundef|nonnull|noalias|nocapture|readonly|readnone|writeonly|writable|dead_on_unwind|zeroext|signext|inreg|immarg|returned|nofree|align \d+)\s+', '', toks + " ").strip()
                args.append((ty, parse_operand(toks, ty)))
        callee_op = ("g", callee[1:].strip('"')) if callee[0] == "@" else ("r", callee)
        if op == "invoke":
            return ("invoke", dst, rty, callee_op, args, m.group(3), m.group(4), comment)
        return ("call", dst, rty, callee_op, args, comment)
    if op == "br":
        m = re.match(r'label %("[^"]+"|[\w.$-]+)', rest)
        if m: return ("br", None, m.group(1).strip('"'))
        m = re.match(r'i1 ([^,]+), label %("[^"]+"|[\w.$-]+), label %("[^"]+"|[\w.$-]+)', rest)
        return ("condbr", None, parse_operand(m.group(1)), m.group(2).strip('"'), m.group(3).strip('"'))
    if op == "switch":
        m = re.match(r'(i\d+) ([^,]+), label %("[^"]+"|[\w.$-]+) \[(.*)\]', rest, re.S)
        cases = [(int(c.group(1)), c.group(2).strip('"')) for c in re.finditer(r'i\d+ (-?\d+), label %("[^"]+"|[\w.$-]+)', m.group(4))]
        return ("switch", None, m.group(1), parse_operand(m.group(2)), m.group(3).strip('"'), cases)
    if op == "ret":
        if rest.strip().startswith("void"): return ("ret", None, None, None)
        ty, v = take_type(strip_meta(rest)[0])
        return ("ret", None, ty, parse_operand(v, ty))
    if op == "phi":
        ty, r2 = take_type(rest)
        inc = []
        for pm in re.finditer(r'\[\s*(.+?),\s*%("[^"]+"|[\w.$-]+)\s*\]', r2):
            inc.append((parse_operand(pm.group(1), ty), pm.group(2).strip('"')))
        return ("phi", dst, ty, inc)
    if op == "unreachable": return ("unreachable", None)
    if op == "extractvalue":
        parts = strip_meta(rest)
        ty, v = take_type(parts[0])
        return ("extractvalue", dst, ty, parse_operand(v), [int(x) for x in parts[1:]])
    if op == "insertvalue":
        parts = strip_meta(rest)
        ty, v = take_type(parts[0]); t2, v2 = take_type(parts[1])
        return ("insertvalue", dst, ty, parse_operand(v), t2, parse_operand(v2), [int(x) for x in parts[2:]])
    if op == "extractelement":
        parts = strip_meta(rest)
        ty, v = take_type(parts[0]); t2, v2 = take_type(parts[1])
        return ("extractelement", dst, ty, parse_operand(v), parse_operand(v2))
    if op == "insertelement":
        parts = strip_meta(rest)
        ty, v = take_type(parts[0]); t2, v2 = take_type(parts[1]); t3, v3 = take_type(parts[2])
        return ("insertelement", dst, ty, parse_operand(v), parse_operand(v2), parse_operand(v3))
    if op == "shufflevector":
        parts = strip_meta(rest)
        ty, v = take_type(parts[0]); t2, v2 = take_type(parts[1]); t3, v3 = take_type(parts[2])
        return ("shufflevector", dst, ty, parse_operand(v), parse_operand(v2), parse_operand(v3))
    if op in ("landingpad", "resume", "cleanup", "fence"):
        return (op, dst)
    raise Unsupported("instruction: " + s[:120])

def demangle_hint(name):
    """cheap readable form of a legacy-mangled rust symbol (for reports only)"""
    return name
