"""llsym layer G: execution of O0 LLVM IR of the scalar-multiplication algorithms with point operations
intercepted in the exact model group Z^k (DESIGN 3.1.4).

A point is an integer-linear form over formal base points with coefficients that are polynomials over the
symbolic digits; add/sub/neg/double/identity are linear.  Digit recodings (as_radix_16, as_radix_2w, NAF) are
replaced by symbolic digit vectors constrained only by the ranges / certificates established on the real
recoding code (Kani harnesses), table look-ups by a symbolic digit are replaced by the linear term digit*P after
checking on the spot that the table really is [1P, 2P, ...] (or [1P, 3P, 5P, ...] for NAF tables).
An identity proved in the free abelian group holds in E(F_p) and in its quotients, given the layer-F contracts
that the intercepted functions are those group operations (C03)."""
import re
from .ir import Unsupported
from .poly import Poly, ZERO, ONE
from .lsym import LSym, Ptr, Cond, UNDEF, PanicReached

class G:
    """group element: dict base name -> coefficient Poly"""
    __slots__ = ("c",)
    def __init__(self, c=None): self.c = {k: v for k, v in (c or {}).items() if not v.is_zero()}
    @staticmethod
    def base(name): return G({name: ONE})
    def __add__(self, o):
        c = dict(self.c)
        for k, v in o.c.items(): c[k] = c.get(k, ZERO) + v
        return G(c)
    def __neg__(self): return G({k: -v for k, v in self.c.items()})
    def __sub__(self, o): return self + (-o)
    def scale(self, p):
        if isinstance(p, int): p = Poly.const(p)
        return G({k: v * p for k, v in self.c.items()})
    def is_zero(self): return not self.c
    def eq(self, o): return (self - o).is_zero()
    def __repr__(self): return "G(%s)" % ", ".join("%s:%r" % kv for kv in sorted(self.c.items()))

class GSym(LSym):
    def __init__(self, mod, fesize=40):
        super().__init__(mod, max_steps=80_000_000)
        self.fs = fesize
        self.kcalls = {}
        self.lemmas = []          # table lemmas checked on the spot
        self.digits = {}          # scalar tag -> dict(kind, w, vars)
        self.scalars = {}         # region name -> tag
        self.nsc = 0
        self.static_tables = {}   # global name -> ("radix16 basepoint table", base)
        CM = r'curve25519_dalek::backend::serial::curve_models::'
        EP = r'curve25519_dalek::edwards::EdwardsPoint'
        I = self.intercept
        def binop(sign, size):
            return lambda it, a, n: it.put(a[0], it.get(a[1]) + (it.get(a[2]) if sign > 0 else -it.get(a[2])), size)
        I.append((r'^' + CM + r'<impl core::ops::arith::Add<&' + CM + r'\w+NielsPoint> for &' + EP + r'>::add$', binop(1, 4 * self.fs)))
        I.append((r'^' + CM + r'<impl core::ops::arith::Sub<&' + CM + r'\w+NielsPoint> for &' + EP + r'>::sub$', binop(-1, 4 * self.fs)))
        I.append((r'^<&' + EP + r' as core::ops::arith::Add>::add$', binop(1, 4 * self.fs)))
        I.append((r'^<&' + EP + r' as core::ops::arith::Sub>::sub$', binop(-1, 4 * self.fs)))
        I.append((r'^<&' + EP + r' as core::ops::arith::Neg>::neg$', lambda it, a, n: it.put(a[0], -it.get(a[1]), 4 * self.fs)))
        I.append((r'^<&' + CM + r'ProjectiveNielsPoint as core::ops::arith::Neg>::neg$', lambda it, a, n: it.put(a[0], -it.get(a[1]), 4 * self.fs)))
        I.append((r'^<&' + CM + r'AffineNielsPoint as core::ops::arith::Neg>::neg$', lambda it, a, n: it.put(a[0], -it.get(a[1]), 3 * self.fs)))
        I.append((r'^' + EP + r'::as_projective_niels$', lambda it, a, n: it.put(a[0], it.get(a[1]), 4 * self.fs)))
        I.append((r'^' + EP + r'::as_affine_niels$', lambda it, a, n: it.put(a[0], it.get(a[1]), 3 * self.fs)))
        I.append((r'^' + EP + r'::as_projective$', lambda it, a, n: it.put(a[0], it.get(a[1]), 3 * self.fs)))
        I.append((r'^' + EP + r'::double$', lambda it, a, n: it.put(a[0], it.get(a[1]).scale(2), 4 * self.fs)))
        I.append((r'^' + CM + r'CompletedPoint::as_extended$', lambda it, a, n: it.put(a[0], it.get(a[1]), 4 * self.fs)))
        I.append((r'^' + CM + r'CompletedPoint::as_projective$', lambda it, a, n: it.put(a[0], it.get(a[1]), 3 * self.fs)))
        I.append((r'^' + CM + r'ProjectivePoint::as_extended$', lambda it, a, n: it.put(a[0], it.get(a[1]), 4 * self.fs)))
        I.append((r'^' + CM + r'ProjectivePoint::double$', lambda it, a, n: it.put(a[0], it.get(a[1]).scale(2), 4 * self.fs)))
        I.append((r'^<' + EP + r' as curve25519_dalek::traits::Identity>::identity$', lambda it, a, n: it.put(a[0], G(), 4 * self.fs)))
        I.append((r'^<' + CM + r'ProjectivePoint as curve25519_dalek::traits::Identity>::identity$', lambda it, a, n: it.put(a[0], G(), 3 * self.fs)))
        I.append((r'^<' + CM + r'ProjectiveNielsPoint as curve25519_dalek::traits::Identity>::identity$', lambda it, a, n: it.put(a[0], G(), 4 * self.fs)))
        I.append((r'^<' + CM + r'AffineNielsPoint as curve25519_dalek::traits::Identity>::identity$', lambda it, a, n: it.put(a[0], G(), 3 * self.fs)))
        I.append((r'^<' + CM + r'(Projective|Affine)NielsPoint as core::default::Default>::default$', lambda it, a, n: it.put(a[0], G(), (4 if 'Projective' in n else 3) * self.fs)))
        I.append((r'^<' + EP + r' as core::clone::Clone>::clone$', lambda it, a, n: it.put(a[0], it.get(a[1]), 4 * self.fs)))
        I.append((r'^<' + EP + r' as zeroize::Zeroize>::zeroize$', lambda it, a, n: it.put(a[0], G(), 4 * self.fs)))
        I.append((r'^curve25519_dalek::window::LookupTable(Radix\d+)?<T>::select$', lambda it, a, n: it.table_select(a, n)))
        I.append((r'^curve25519_dalek::window::NafLookupTable(5|8)<T>::select$', lambda it, a, n: it.naf_select(a, n)))
        I.append((r'^curve25519_dalek::scalar::Scalar::as_radix_16$', lambda it, a, n: it.radix16(a)))
        I.append((r'^curve25519_dalek::scalar::Scalar::as_radix_2w$', lambda it, a, n: it.radix2w(a)))
        I.append((r'^curve25519_dalek::scalar::Scalar::non_adjacent_form$', lambda it, a, n: it.naf(a)))

    def count(self, k): self.kcalls[k] = self.kcalls.get(k, 0) + 1
    # ------------------------------------------------------------------ signed digits flowing through integer code
    def cast(self, kind, fty, v, tty):
        if isinstance(v, SDigit):
            from .ir import int_width
            tw = int_width(tty)
            if kind in ("sext", "trunc", "freeze", "bitcast"): return SDigit(v.v, tw)
            if kind == "zext":
                lo, hi = self.ctx.interval(self.ctx.resolve(v.v))
                if lo < 0: raise Unsupported("zero-extension of a possibly negative digit")
                return SDigit(v.v, tw)
        return super().cast(kind, fty, v, tty)
    def binop(self, op, w, a, b, flags):
        if isinstance(a, SDigit) or isinstance(b, SDigit):
            if op == "sub" and not isinstance(a, SDigit) and self.P(a).is_zero(): return SDigit(-b.v, w)
            if op == "sub" and isinstance(a, SDigit) and not isinstance(b, SDigit) and self.P(b).is_const():
                return SDigit(a.v - Poly.const(self.digit_value(b, w).cval()), w)
            if op == "add" and isinstance(a, SDigit) and not isinstance(b, SDigit) and self.P(b).is_const():
                return SDigit(a.v + self.digit_value(b, w), w)
            raise Unsupported("arithmetic %s on an abstract digit" % op)
        return super().binop(op, w, a, b, flags)
    def icmp(self, pred, ty, a, b):
        if isinstance(a, SDigit) or isinstance(b, SDigit):
            from .ir import int_width
            w = int_width(ty)
            va = a.v if isinstance(a, SDigit) else self.digit_value(a, w)
            vb = b.v if isinstance(b, SDigit) else self.digit_value(b, w)
            mp = {"eq": "eq", "ne": "ne", "slt": "lt", "sle": "le", "sgt": "gt", "sge": "ge"}.get(pred)
            if mp is None: raise Unsupported("unsigned comparison of an abstract signed digit")
            c = Cond("cmp", mp, va, vb)
            r = self.eval_cond(c)
            return c if r is None else Cond("const", r)
        return super().icmp(pred, ty, a, b)
    def P(self, v):
        if isinstance(v, SDigit):
            lo, hi = self.ctx.interval(self.ctx.resolve(v.v))
            if lo >= 0: return v.v
            raise Unsupported("abstract signed digit used as an unsigned integer")
        return super().P(v)
    # ------------------------------------------------------------------ abstract objects in memory
    def get(self, p):
        if not isinstance(p, Ptr): raise Unsupported("point operand is not a pointer")
        e = self.regions[p.r].b.get(p.o)
        if e is not None and isinstance(e[0], G) and e[1] == 0: return e[0]
        raise Unsupported("point operand at %r is not an abstract group element" % (p,))
    def put(self, p, g, size):
        R = self.regions[p.r]
        for k in range(size): R.b[p.o + k] = (g, k, size)
        return None
    def point(self, name, size=None):
        p = self.new_region(name, size or 4 * self.fs)
        self.put(p, G.base(name), size or 4 * self.fs)
        return p
    def scalar(self, tag):
        """a Scalar argument: an opaque 32-byte object; recodings of it yield symbolic digits tagged `tag`"""
        p = self.new_region("scalar_" + tag, 32)
        self.scalars[p.r] = tag
        obj = ScalarObj(tag)
        R = self.regions[p.r]
        for k in range(32): R.b[k] = (obj, k, 32)
        return p
    def scalar_tag(self, p):
        e = self.regions[p.r].b.get(p.o)
        if e is not None and isinstance(e[0], ScalarObj) and e[1] == 0: return e[0].tag
        raise Unsupported("recoding of something that is not a harness scalar at %r" % (p,))

    # ------------------------------------------------------------------ recodings (contracts: Kani harnesses on the real code)
    def radix16(self, a):
        self.count("as_radix_16")
        tag = self.scalar_tag(a[1])
        d = self.digits.get((tag, "r16"))
        if d is None:
            vs = [self.ctx.input("%s_d%d" % (tag, i), -8, 8 if i == 63 else 7) for i in range(64)]
            d = dict(kind="radix16", vars=vs, weights=[16 ** i for i in range(64)]); self.digits[(tag, "r16")] = d
        for i, v in enumerate(d["vars"]): self.store(Ptr(a[0].r, a[0].o + i), SDigit(v, 8), 1)
    def radix2w(self, a):
        self.count("as_radix_2w")
        tag = self.scalar_tag(a[1]); w = self.P(a[2]).cval()
        n = (256 + w - 1) // w
        if w == 8: n += 1          # radix 256 needs one extra digit for the final carry
        key = (tag, "r2w%d" % w)
        d = self.digits.get(key)
        if d is None:
            half = 1 << (w - 1)
            vs = []
            for i in range(64):
                if i < n:
                    last = (i == n - 1)
                    vs.append(self.ctx.input("%s_w%d_%d" % (tag, w, i), -half, half if last else half - 1))
                else: vs.append(ZERO)
            d = dict(kind="radix2^%d" % w, vars=vs[:n], weights=[(1 << w) ** i for i in range(n)], all=vs); self.digits[key] = d
        for i, v in enumerate(d["all"]): self.store(Ptr(a[0].r, a[0].o + i), SDigit(v, 8) if not v.is_zero() else Poly.const(0), 1)
    def naf(self, a):
        self.count("non_adjacent_form")
        tag = self.scalar_tag(a[1]); w = self.P(a[2]).cval()
        key = (tag, "naf%d" % w)
        d = self.digits.get(key)
        if d is None:
            m = (1 << (w - 1)) - 1
            vs = [self.ctx.input("%s_n%d_%d" % (tag, w, i), -m, m) for i in range(256)]
            d = dict(kind="naf%d" % w, vars=vs, weights=[1 << i for i in range(256)]); self.digits[key] = d
        for i, v in enumerate(d["vars"]): self.store(Ptr(a[0].r, a[0].o + i), SDigit(v, 8), 1)

    def digit_value(self, x, w=8):
        """signed integer value (Poly) of a digit operand"""
        if isinstance(x, SDigit): return x.v
        p = self.P(x)
        if p.is_const():
            c = p.cval() & ((1 << w) - 1)
            return Poly.const(c - (1 << w) if c >> (w - 1) else c)
        raise Unsupported("digit operand is neither a harness digit nor a constant")

    # ------------------------------------------------------------------ table look-ups
    def table_entries(self, tab, n):
        e0 = self.regions[tab.r].b.get(tab.o)
        if e0 is None or not isinstance(e0[0], G): raise Unsupported("lookup table without abstract entries at %r" % (tab,))
        stride = e0[2]
        return [self.get(Ptr(tab.r, tab.o + j * stride)) for j in range(n)], stride
    def table_select(self, a, name):
        """LookupTable*::select(x): contract (Kani, real code): for -n <= x <= n: sign(x)*T[|x|-1], identity for 0.
        Local lemma checked here: T[j] == (j+1)*T[0]  =>  the look-up is the linear term x*T[0]."""
        self.count("select")
        m = re.search(r'LookupTable(Radix(\d+))?', name)
        radix = int(m.group(2)) if m.group(2) else 16
        n = radix // 2
        out, tab = a[0], a[1]
        x = self.digit_value(a[2])
        R = self.regions[tab.r]
        if R.kind == "global":
            g = self.static_lookup(tab, n)
            ents, stride = g, None
        else:
            ents, stride = self.table_entries(tab, n)
        ok = all(ents[j].eq(ents[0].scale(j + 1)) for j in range(n))
        self.lemmas.append(("table at %s is [1..%d]*T0" % (tab.r, n), ok))
        if not ok: raise TableLemmaFailed("lookup table entries are not the multiples 1..%d of the first entry" % n)
        lo, hi = self.ctx.interval(self.ctx.resolve(x))
        if lo < -n or hi > n: raise DigitOutOfRange("select called with digit range [%d,%d] outside [-%d,%d]" % (lo, hi, n, n))
        size = stride if stride else e_size(self, out, ents)
        self.put(out, ents[0].scale(x), size)
    def naf_select(self, a, name):
        """NafLookupTable5/8::select(x): T[x/2] for odd x: lemma T[j] == (2j+1)*T[0] => x*T[0] for odd 0 < x < 2^(w-1)"""
        self.count("naf_select")
        w = 5 if "NafLookupTable5" in name else 8
        n = 8 if w == 5 else 64
        out, tab = a[0], a[1]
        xv = a[2]
        x = xv.v if isinstance(xv, SDigit) else self.P(xv)
        if isinstance(xv, NegDigit): x = -xv.v
        ents, stride = self.table_entries(tab, n)
        ok = all(ents[j].eq(ents[0].scale(2 * j + 1)) for j in range(n))
        self.lemmas.append(("NAF table at %s is [1,3,..,%d]*T0" % (tab.r, 2 * n - 1), ok))
        if not ok: raise TableLemmaFailed("NAF table entries are not the odd multiples of the first entry")
        self.put(out, ents[0].scale(x), stride)
    def static_lookup(self, tab, n):
        raise Unsupported("static table lookup not modelled for this harness")

def e_size(it, out, ents): return 4 * it.fs

class TableLemmaFailed(Exception): pass
class DigitOutOfRange(Exception): pass

class ScalarObj:
    def __init__(self, tag): self.tag = tag
class SDigit:
    """a signed digit (i8/i16 machine value) carried abstractly: v is its integer value as a Poly"""
    def __init__(self, v, w): self.v, self.w = v, w
class NegDigit(SDigit): pass
