"""llsym layer G: execution of O0 LLVM IR of the scalar-multiplication algorithms with point operations
intercepted in the exact model group Z^k (DESIGN 3.1.4).

A point is an integer-linear form over formal base points with coefficients that are polynomials over the
symbolic digits; add/sub/neg/double/identity are linear.  Digit recodings (as_radix_16, as_radix_2w, NAF) are
replaced by symbolic digit vectors constrained only by the ranges / certificates established on the real
recoding code (Kani harnesses), table look-ups by a symbolic digit are replaced by the linear term digit*P after
checking on the spot that the table really is [1P, 2P, ...] (or [1P, 3P, 5P, ...] for NAF tables).
An identity proved in the free abelian group holds in E(F_p) and in its quotients, given the layer-F contracts
that the intercepted functions are those group operations (C03)."""
import re
from .ir import Unsupported
from .poly import Poly, ZERO, ONE
from .lsym import LSym, Ptr, SymPtr, Cond, UNDEF, PanicReached

class G:
    """group element: dict base name -> coefficient Poly"""
    __slots__ = ("c",)
    def __init__(self, c=None): self.c = {k: v for k, v in (c or {}).items() if not v.is_zero()}
    @staticmethod
    def base(name): return G({name: ONE})
    def __add__(self, o):
        c = dict(self.c)
        for k, v in o.c.items(): c[k] = c.get(k, ZERO) + v
        return G(c)
    def __neg__(self): return G({k: -v for k, v in self.c.items()})
    def __sub__(self, o): return self + (-o)
    def scale(self, p):
        if isinstance(p, int): p = Poly.const(p)
        return G({k: v * p for k, v in self.c.items()})
    def is_zero(self): return not self.c
    def eq(self, o): return (self - o).is_zero()
    def __repr__(self): return "G(%s)" % ", ".join("%s:%r" % kv for kv in sorted(self.c.items()))

class GSym(LSym):
    def __init__(self, mod, fesize=40):
        super().__init__(mod, max_steps=80_000_000)
        self.fs = fesize
        self.kcalls = {}
        self.lemmas = []          # table lemmas checked on the spot
        self.digits = {}          # scalar tag -> dict(kind, w, vars)
        self.scalars = {}         # region name -> tag
        self.byte_scalars = {}; self.byte_scalar_tags = {}   # tag -> the 32 byte polynomials of a scalar assembled by real code
        self.nsc = 0
        self.static_tables = {}   # global name -> ("radix16 basepoint table", base)
        CM = r'curve25519_dalek::backend::serial::curve_models::'
        EP = r'curve25519_dalek::edwards::EdwardsPoint'
        I = self.intercept
        def binop(sign, size):
            return lambda it, a, n: it.put(a[0], it.get(a[1]) + (it.get(a[2]) if sign > 0 else -it.get(a[2])), size)
        I.append((r'^' + CM + r'<impl core::ops::arith::Add<&' + CM + r'\w+NielsPoint> for &' + EP + r'>::add$', binop(1, 4 * self.fs)))
        I.append((r'^' + CM + r'<impl core::ops::arith::Sub<&' + CM + r'\w+NielsPoint> for &' + EP + r'>::sub$', binop(-1, 4 * self.fs)))
        # the same two impls as the nightly (v0) demangling prints them
        I.append((r'^<&' + EP + r' as core::ops::arith::Add<&' + CM + r'\w+NielsPoint>>::add$', binop(1, 4 * self.fs)))
        I.append((r'^<&' + EP + r' as core::ops::arith::Sub<&' + CM + r'\w+NielsPoint>>::sub$', binop(-1, 4 * self.fs)))
        I.append((r'^<&' + EP + r' as core::ops::arith::Add>::add$', binop(1, 4 * self.fs)))
        I.append((r'^<&' + EP + r' as core::ops::arith::Sub>::sub$', binop(-1, 4 * self.fs)))
        I.append((r'^<&' + EP + r' as core::ops::arith::Neg>::neg$', lambda it, a, n: it.put(a[0], -it.get(a[1]), 4 * self.fs)))
        I.append((r'^<&' + CM + r'ProjectiveNielsPoint as core::ops::arith::Neg>::neg$', lambda it, a, n: it.put(a[0], -it.get(a[1]), 4 * self.fs)))
        I.append((r'^<&' + CM + r'AffineNielsPoint as core::ops::arith::Neg>::neg$', lambda it, a, n: it.put(a[0], -it.get(a[1]), 3 * self.fs)))
        I.append((r'^' + EP + r'::as_projective_niels$', lambda it, a, n: it.put(a[0], it.get(a[1]), 4 * self.fs)))
        I.append((r'^' + EP + r'::as_affine_niels$', lambda it, a, n: it.put(a[0], it.get(a[1]), 3 * self.fs)))
        I.append((r'^' + EP + r'::as_projective$', lambda it, a, n: it.put(a[0], it.get(a[1]), 3 * self.fs)))
        I.append((r'^' + EP + r'::double$', lambda it, a, n: it.put(a[0], it.get(a[1]).scale(2), 4 * self.fs)))
        I.append((r'^' + CM + r'CompletedPoint::as_extended$', lambda it, a, n: it.put(a[0], it.get(a[1]), 4 * self.fs)))
        I.append((r'^' + CM + r'CompletedPoint::as_projective$', lambda it, a, n: it.put(a[0], it.get(a[1]), 3 * self.fs)))
        I.append((r'^' + CM + r'ProjectivePoint::as_extended$', lambda it, a, n: it.put(a[0], it.get(a[1]), 4 * self.fs)))
        I.append((r'^' + CM + r'ProjectivePoint::double$', lambda it, a, n: it.put(a[0], it.get(a[1]).scale(2), 4 * self.fs)))
        I.append((r'^<' + EP + r' as curve25519_dalek::traits::Identity>::identity$', lambda it, a, n: it.put(a[0], G(), 4 * self.fs)))
        I.append((r'^<' + CM + r'ProjectivePoint as curve25519_dalek::traits::Identity>::identity$', lambda it, a, n: it.put(a[0], G(), 3 * self.fs)))
        I.append((r'^<' + CM + r'ProjectiveNielsPoint as curve25519_dalek::traits::Identity>::identity$', lambda it, a, n: it.put(a[0], G(), 4 * self.fs)))
        I.append((r'^<' + CM + r'AffineNielsPoint as curve25519_dalek::traits::Identity>::identity$', lambda it, a, n: it.put(a[0], G(), 3 * self.fs)))
        I.append((r'^<' + CM + r'(Projective|Affine)NielsPoint as core::default::Default>::default$', lambda it, a, n: it.put(a[0], G(), (4 if 'Projective' in n else 3) * self.fs)))
        I.append((r'^<' + EP + r' as core::clone::Clone>::clone$', lambda it, a, n: it.put(a[0], it.get(a[1]), 4 * self.fs)))
        I.append((r'^<' + EP + r' as zeroize::Zeroize>::zeroize$', lambda it, a, n: it.put(a[0], G(), 4 * self.fs)))
        # ---- vector backends (AVX2 / IFMA): ExtendedPoint and CachedPoint are 160-byte objects holding the same group element;
        # the target-feature macro wraps every method as  outer -> __Impl_x__::_impl_x ; whichever is reached first is intercepted
        VE = r'curve25519_dalek::backend::vector::(avx2|ifma)::edwards::'
        EXT = r'<?' + VE + r'ExtendedPoint>?'; CAC = r'<?' + VE + r'CachedPoint>?'      # <Type>::method in the nightly (v0) demangling
        T_ = r'(::__Impl_\w+__>::_impl_\w+)?$'
        S4 = 4 * self.fs
        cp = lambda it, a, n: it.put(a[0], it.get(a[1]), S4)
        I.append((EXT + r' as core::convert::From<curve25519_dalek::edwards::EdwardsPoint>>::from' + T_, cp))
        I.append((r'impl core::convert::From<' + EXT + r'> for curve25519_dalek::edwards::EdwardsPoint>::from' + T_, cp))
        I.append((r'curve25519_dalek::edwards::EdwardsPoint as core::convert::From<' + EXT + r'>>::from' + T_, cp))
        I.append((CAC + r' as core::convert::From<' + EXT + r'>>::from' + T_, cp))
        I.append((EXT + r'::double' + T_, lambda it, a, n: it.put(a[0], it.get(a[1]).scale(2), S4)))
        def vpow2(it, a, n):
            k = it.P(a[2])
            if not k.is_const(): raise Unsupported("mul_by_pow_2 with symbolic exponent")
            return it.put(a[0], it.get(a[1]).scale(1 << k.cval()), S4)
        I.append((EXT + r'::mul_by_pow_2' + T_, vpow2))
        I.append((EXT + r' as core::ops::arith::Add<&' + CAC + r'>>::add' + T_, binop(1, S4)))
        I.append((EXT + r' as core::ops::arith::Sub<&' + CAC + r'>>::sub' + T_, binop(-1, S4)))
        I.append((CAC + r' as core::ops::arith::Neg>::neg' + T_, lambda it, a, n: it.put(a[0], -it.get(a[1]), S4)))
        I.append((r'(' + EXT + r'|' + CAC + r') as (curve25519_dalek::traits::Identity>::identity|core::default::Default>::default)' + T_, lambda it, a, n: it.put(a[0], G(), S4)))
        I.append((r'^<?curve25519_dalek::window::LookupTable(Radix\d+)?<[^<>]*(<[^<>]*>)?[^<>]*>>?::select$', lambda it, a, n: it.table_select(a, n)))
        I.append((r'^<?curve25519_dalek::window::NafLookupTable(5|8)<[^<>]*(<[^<>]*>)?[^<>]*>>?::select$', lambda it, a, n: it.naf_select(a, n)))
        I.append((r'^curve25519_dalek::scalar::Scalar::as_radix_16$', lambda it, a, n: it.radix16(a)))
        I.append((r'^curve25519_dalek::scalar::Scalar::as_radix_2w$', lambda it, a, n: it.radix2w(a)))
        I.append((r'^curve25519_dalek::scalar::Scalar::non_adjacent_form$', lambda it, a, n: it.naf(a)))
        I.append((r'^core::cmp::impls::<impl core::cmp::Ord for i(8|16)>::cmp$', lambda it, a, n: it.ord_cmp(a, n)))
        I.append((r'^<i(8|16) as core::cmp::Ord>::cmp$', lambda it, a, n: it.ord_cmp(a, n)))

    def count(self, k): self.kcalls[k] = self.kcalls.get(k, 0) + 1
    # ------------------------------------------------------------------ data-dependent 3-way branches on a digit's sign
    def ord_cmp(self, a, name):
        """<i8 as Ord>::cmp(&x, &y): an abstract Sign when x is a symbolic digit and y a constant; the `match` on it is executed
        arm by arm and merged at the join point (LSym.fork_merge)"""
        w = 8 if "i8" in name else 16
        x = self.load(a[0], w // 8); y = self.load(a[1], w // 8)
        xv = self.digit_value(x, w); yv = self.digit_value(y, w)
        d = self.ctx.resolve(xv - yv)
        lo, hi = self.ctx.interval(d)
        if lo > 0: return Poly.const(1)
        if hi < 0: return Poly.const(255)
        if lo == 0 and hi == 0: return ZERO
        return Sign(d)
    def switch_arms(self, v, ins):
        if not isinstance(v, Sign): return None
        lo, hi = self.ctx.interval(v.d)
        tg = {}
        for cval, l in ins[5]: tg[cval & 255] = l
        arms = []
        if lo < 0: arms.append((tg.get(255, ins[4]), ("lt", v.d)))
        if lo <= 0 <= hi: arms.append((tg.get(0, ins[4]), ("eq", v.d)))
        if hi > 0: arms.append((tg.get(1, ins[4]), ("gt", v.d)))
        return arms
    def condbr_arms(self, fn, lab, c, ins):
        """a two-way branch on the comparison of ONE recoding digit with a constant (the `if d > 0 {..} else if d < 0 {..}` form of a digit-sign
        match) is executed side by side and merged at its join point, like the three-way `match d.cmp(&0)`"""
        if c.k != "cmp" or c.a[0] not in ("eq", "ne", "lt", "le", "gt", "ge"): return None
        d = self.ctx.resolve(c.a[1]) - self.ctx.resolve(c.a[2])
        sv = self._single_var(d)
        if sv is None or sv[0] not in self.digit_vars(): return None
        if not self.acyclic_region(fn, lab, [ins[3], ins[4]]): return None
        neg = {"eq": "ne", "ne": "eq", "lt": "ge", "ge": "lt", "gt": "le", "le": "gt"}
        return [(ins[3], (c.a[0], d)), (ins[4], (neg[c.a[0]], d))]
    def digit_vars(self):
        n = sum(len(dd["vars"]) for dd in self.digits.values())
        cache = self.__dict__.get("_dvars")
        if cache is None or cache[0] != n:
            vs = set()
            for dd in self.digits.values():
                for x in dd["vars"]: vs |= set(x.vars())
            cache = (n, vs); self._dvars = cache
        return cache[1]
    def _single_var(self, d):
        """d = +-v + c for one variable v  ->  (v, sign, c)"""
        items = [(m, c) for m, c in d.t.items() if m]
        if len(items) == 1 and len(items[0][0]) == 1 and items[0][1] in (1, -1):
            return items[0][0][0], items[0][1], d.cval()
        return None
    def refine_by_decision(self, c, taken):
        """a decided comparison of ONE digit variable with a constant narrows that variable's interval for the rest of the path
        (the comparison itself is also kept as a path assumption by the caller)"""
        if c.k != "cmp": return
        op, a, b = c.a[0], self.ctx.resolve(c.a[1]), self.ctx.resolve(c.a[2])
        d = a - b
        sv = self._single_var(d)
        if sv is None: return
        v, sg, k = sv              # sg*v + k  <op>  0
        if not taken: op = {"eq": "ne", "ne": "eq", "lt": "ge", "ge": "lt", "gt": "le", "le": "gt"}.get(op)
        if op is None: return
        if sg == -1:               # -v + k op 0  <=>  v rop k
            op = {"lt": "gt", "gt": "lt", "le": "ge", "ge": "le"}.get(op, op); k = -k
        # now: v + k op 0, i.e. v op -k
        t = -k; lo, hi = self.ctx.bounds.get(v, (None, None))
        if lo is None: return
        if op == "eq": lo, hi = max(lo, t), min(hi, t)
        elif op == "lt": hi = min(hi, t - 1)
        elif op == "le": hi = min(hi, t)
        elif op == "gt": lo = max(lo, t + 1)
        elif op == "ge": lo = max(lo, t)
        elif op == "ne":
            if lo == t: lo += 1
            if hi == t: hi -= 1
        if lo <= hi: self.ctx.bounds[v] = (lo, hi)
    def enter_arm(self, desc):
        kind, d = desc
        cond = Cond("cmp", kind, d, ZERO)
        bv = self.boolvar(cond)        # created under the unrefined bounds: the same variable the merge uses for this arm
        self.__dict__.setdefault("arm_vars", []).append(None if bv.is_const() else list(bv.t)[0][0])
        self.path.append(cond)
        sv = self._single_var(d)
        tok = None
        if sv is not None:
            v, sg, c = sv
            lo, hi = self.ctx.bounds[v]; tok = (v, (lo, hi))
            # sg*v + c  (kind) 0   <=>   v (kind') t
            t = -c if sg == 1 else c
            k2 = kind if sg == 1 else {"lt": "gt", "gt": "lt", "le": "ge", "ge": "le"}.get(kind, kind)
            nl, nh = lo, hi
            if k2 == "eq": nl, nh = max(lo, t), min(hi, t)
            elif k2 == "gt": nl = max(lo, t + 1)
            elif k2 == "ge": nl = max(lo, t)
            elif k2 == "lt": nh = min(hi, t - 1)
            elif k2 == "le": nh = min(hi, t)
            elif k2 == "ne":
                if lo == t: nl = lo + 1
                if hi == t: nh = hi - 1
            if nl > nh: nl, nh = lo, hi          # infeasible arm: the merged indicator is constant 0, the arm's value is irrelevant
            self.ctx.bounds[v] = (nl, nh)
            if hasattr(self.ctx, "_ivcache"): self.ctx._ivcache = {}
        return tok
    def leave_arm(self, desc, tok):
        self.path.pop(); self.arm_vars.pop()
        if tok is not None:
            self.ctx.bounds[tok[0]] = tok[1]
            if hasattr(self.ctx, "_ivcache"): self.ctx._ivcache = {}
    def merge_cell(self, base, per):
        """cells holding group elements / integers that differ between the arms of a digit-sign match.
        (1) all arms agree with one candidate expression E once the arm's equality (d == 0) is substituted -> E;
        (2) otherwise  base + sum_arm [arm condition] * (value_arm - base)  with boolean indicator variables."""
        from .lsym import _MISSING
        ents = [e for _, e in per]
        if any(e is _MISSING for e in ents) or base is _MISSING:
            # a cell written in some arms only and dead before: scratch of the arm (e.g. a temporary); keep the first written value
            for e in ents:
                if e is not _MISSING: return e
            return _MISSING
        k, size = ents[0][1], ents[0][2]
        if any(e[1] != k or e[2] != size for e in ents): raise Unsupported("merged arms leave differently shaped objects in a cell")
        vals = [e[0] for e in ents]
        okey = tuple(id(v) for v in vals) + (id(base[0]),)
        self._mcache.setdefault(("keep", okey), (vals, base))
        if ("obj", okey) in self._mcache: return (self._mcache[("obj", okey)], k, size)
        if all(isinstance(v, G) for v in vals):
            def subst_arm(g, desc):
                if desc[0] != "eq": return g
                sv = self._single_var(desc[1])
                if sv is None: return g
                v, sg, c = sv; val = Poly.const(-c if sg == 1 else c)
                return G({b: p.subst(v, val) for b, p in g.c.items()})
            for cand_i, (desc_c, _) in enumerate(per):
                if desc_c[0] == "eq": continue
                cand = vals[cand_i]
                if all(subst_arm(cand, d).eq(subst_arm(v, d)) for (d, _), v in zip(per, vals)):
                    return (self.shared_obj(("obj", okey), lambda: cand), k, size)
            # the arms are exhaustive (every feasible outcome of the comparison is an arm):  merged = sum_arm [arm] * value_arm .
            # (not base + sum [arm]*(value_arm - base): that multiplies the old content by (1 - sum [writers]) and makes dead temporaries,
            #  which are merged again in every iteration, grow exponentially)
            # two equivalent forms (the arms are exhaustive); the smaller one is kept:
            #  (a) sum over groups of arms with equal value of [group condition]*value  - old content kept by several arms is multiplied by ONE variable;
            #  (b) v0 + sum_arm [arm]*(value_arm - v0) with v0 the value of the arm that did not write (or the first): exact cancellation when the
            #      arms' values share a large common part (bucket arrays)
            acc = G()
            for b, v in self.arm_groups(per, vals, lambda x, y: x is y or x.eq(y)): acc = acc + v.scale(b)
            acc = self.gnorm(acc)
            v0 = None
            for (d, e), v in zip(per, vals):
                if v is base[0]: v0 = v; break
            if v0 is None: v0 = vals[0]
            acc2 = v0
            for (d, _), v in zip(per, vals):
                if v is v0: continue
                acc2 = acc2 + (v - v0).scale(self.boolvar(Cond("cmp", d[0], d[1], ZERO)))
            acc2 = self.gnorm(acc2)
            size_ = lambda g: sum(len(pp.t) for pp in g.c.values())
            if size_(acc2) < size_(acc): acc = acc2
            acc = self.gnorm(acc)
            import os
            if os.environ.get("VP_DEBUG_MERGE"):
                sz = sum(len(pp.t) for pp in acc.c.values())
                if sz > 200: print("MERGE size", sz, "deg", max((pp.degree() for pp in acc.c.values()), default=0), "arms", [(d[0], sum(len(pp.t) for pp in v.c.values())) for (d, _), v in zip(per, vals)], "base", sum(len(pp.t) for pp in base[0].c.values()) if isinstance(base[0], G) else None, flush=True)
            self.general_merges = getattr(self, "general_merges", 0) + 1
            return (self.shared_obj(("obj", okey), lambda: acc), k, size)
        if all(isinstance(v, Poly) for v in vals) and isinstance(base[0], Poly) and size <= 8:
            acc = ZERO
            for b, v in self.arm_groups(per, vals, lambda x, y: x is y or x.t == y.t): acc = acc + v * b
            return (self.shared_obj(("obj", okey), lambda: acc), k, size)
        raise Unsupported("cannot merge cell values %r" % ([type(v).__name__ for v in vals],))
    def fold_indicators(self, p):
        """sum_v K*v*I(d == v) over ALL non-zero values v of digit d's range  ->  K*d   (d = sum_{v != 0} v*[d == v] for d in its range;
        finite identity, discharged once per range by the solver: see lemma_onehot)"""
        info = self.__dict__.get("ind_info")
        if not info: return p, []
        per = {}
        rest = {}
        for m, c in p.t.items():
            if len(m) == 1 and m[0] in info:
                dv, val = info[m[0]]; per.setdefault(dv, {})[val] = (c, m)
            else: rest[m] = c
        used = []
        for dv, vals in per.items():
            lo, hi = self.ctx.bounds[dv]
            want = [v for v in range(lo, hi + 1) if v != 0]
            ok = all(v in vals for v in want) and len(vals) == len(want)
            K = None
            if ok:
                for v in want:
                    c = vals[v][0]
                    if c % v: ok = False; break
                    k = c // v
                    if K is None: K = k
                    elif K != k: ok = False; break
            if ok and K is not None:
                rest[(dv,)] = rest.get((dv,), 0) + K
                if not rest[(dv,)]: del rest[(dv,)]
                used.append((dv, lo, hi))
            else:
                for v, (c, m) in vals.items(): rest[m] = rest.get(m, 0) + c
        return Poly(rest), used
    def arm_groups(self, per, vals, same):
        """arms that leave the same value are grouped under ONE indicator for the disjunction of their conditions ({lt,eq} -> le, ...):
        a value kept by several arms (typically the unwritten old content) is then multiplied by a single variable and does not grow"""
        groups = []
        for (d, _), v in zip(per, vals):
            for g in groups:
                if same(g[1], v): g[0].append(d); break
            else: groups.append(([d], v))
        out = []
        for ds, v in groups:
            kinds = frozenset(d[0] for d in ds); dd = ds[0][1]
            if len(ds) == len(per): out.append((ONE, v)); continue
            if len(ds) == 1: out.append((self.boolvar(Cond("cmp", ds[0][0], dd, ZERO)), v)); continue
            kind = {frozenset(["lt"]): "lt", frozenset(["eq"]): "eq", frozenset(["gt"]): "gt", frozenset(["lt", "eq"]): "le",
                    frozenset(["eq", "gt"]): "ge", frozenset(["lt", "gt"]): "ne"}[kinds]
            out.append((self.boolvar(Cond("cmp", kind, dd, ZERO)), v))
        return out
    def shared_obj(self, key, make):
        """all bytes of one merged object must share the SAME python object (loads reassemble objects by identity);
        the cache lives for one fork_merge and keeps the keyed objects alive (no id reuse)"""
        c = self._mcache
        if key not in c: c[key] = make()
        return c[key]
    # ------------------------------------------------------------------ signed digits flowing through integer code
    def cast(self, kind, fty, v, tty):
        if isinstance(v, SDigit):
            from .ir import int_width
            tw = int_width(tty)
            if kind in ("sext", "trunc", "freeze", "bitcast"): return SDigit(v.v, tw)
            if kind == "zext":
                lo, hi = self.ctx.interval(self.ctx.resolve(v.v))
                if lo < 0: raise Unsupported("zero-extension of a possibly negative digit")
                return SDigit(v.v, tw)
        return super().cast(kind, fty, v, tty)
    def binop(self, op, w, a, b, flags):
        if isinstance(a, SDigit) or isinstance(b, SDigit):
            if op == "sub" and not isinstance(a, SDigit) and self.P(a).is_zero(): return SDigit(-b.v, w)
            if op == "sub" and isinstance(a, SDigit) and not isinstance(b, SDigit) and self.P(b).is_const():
                return SDigit(a.v - Poly.const(self.digit_value(b, w).cval()), w)
            if op == "add" and isinstance(a, SDigit) and not isinstance(b, SDigit) and self.P(b).is_const():
                return SDigit(a.v + self.digit_value(b, w), w)
            raise Unsupported("arithmetic %s on an abstract digit" % op)
        return super().binop(op, w, a, b, flags)
    def intrinsic(self, name, a):
        m = re.match(r'llvm\.s(add|sub|mul)\.with\.overflow\.i(\d+)', name)
        if m and (isinstance(a[0], SDigit) or isinstance(a[1], SDigit)):
            # checked arithmetic on a signed digit: exact integer result, overflow = result outside the signed range of the type
            op, w = m.group(1), int(m.group(2))
            x, y = self.digit_value(a[0], w), self.digit_value(a[1], w)
            r = x + y if op == "add" else (x - y if op == "sub" else x * y)
            lo, hi = self.ctx.interval(self.ctx.resolve(r)); mn, mx = -(1 << (w - 1)), (1 << (w - 1)) - 1
            if lo >= mn and hi <= mx: ov = Cond("const", False)
            elif hi < mn or lo > mx: ov = Cond("const", True)
            else: ov = Cond("or", Cond("cmp", "lt", r, Poly.const(mn)), Cond("cmp", "gt", r, Poly.const(mx)))
            return [SDigit(r, w), ov]
        return super().intrinsic(name, a)
    def icmp(self, pred, ty, a, b):
        if isinstance(a, SDigit) or isinstance(b, SDigit):
            from .ir import int_width
            w = int_width(ty)
            va = a.v if isinstance(a, SDigit) else self.digit_value(a, w)
            vb = b.v if isinstance(b, SDigit) else self.digit_value(b, w)
            mp = {"eq": "eq", "ne": "ne", "slt": "lt", "sle": "le", "sgt": "gt", "sge": "ge"}.get(pred)
            if mp is None:
                # unsigned comparison: the same as the signed one when both sides are known non-negative (bounds checks of digit-derived indices)
                la, _ = self.ctx.interval(self.ctx.resolve(va)); lb, _ = self.ctx.interval(self.ctx.resolve(vb))
                if la >= 0 and lb >= 0: mp = {"ult": "lt", "ule": "le", "ugt": "gt", "uge": "ge"}[pred]
                else: raise Unsupported("unsigned comparison of a possibly negative abstract digit")
            c = Cond("cmp", mp, va, vb)
            r = self.eval_cond(c)
            return c if r is None else Cond("const", r)
        return super().icmp(pred, ty, a, b)
    def P(self, v):
        if isinstance(v, SDigit):
            lo, hi = self.ctx.interval(self.ctx.resolve(v.v))
            if lo >= 0: return v.v
            raise Unsupported("abstract signed digit used as an unsigned integer")
        return super().P(v)
    # ------------------------------------------------------------------ abstract objects in memory
    def concrete_image(self, p, n, raw=False):
        R = self.regions.get(p.r)
        if R is None: return None
        out = bytearray()
        for k in range(n):
            e = dict.get(R.b, p.o + k)
            if e is None: return None
            v = e[0]
            if isinstance(v, G) and raw: return None
            if not isinstance(v, Poly) or not v.is_const(): return None
            out.append((v.cval() >> (8 * e[1])) & 255)
        return bytes(out)
    def static_regions(self, hooks):
        out = {}
        for h in hooks:
            f = self.mod.aliases.get(h, h)
            if f in self.mod.funcs:
                sub = LSym(self.mod); sub.regions = self.regions; sub.nreg = self.nreg + 100000
                r = sub.call(f, [])
                if isinstance(r, Ptr): out[r.r] = h
        return out
    # ---- arrays of group elements indexed by a digit (Pippenger's buckets): one-hot indicators I(idx == c)
    def sym_gep(self, base, idx, stride):
        idx = self.ctx.resolve(idx)
        lo, hi = self.ctx.interval(idx)
        if lo < 0 or hi - lo > 255: return None
        return SymPtr(base.r, base.o, idx, stride, lo, hi)
    def ind(self, idx, c):
        """0/1 variable for [idx == c]; registered in a one-hot group (same idx) and as implying the arm conditions it was created under"""
        v = self.boolvar(Cond("cmp", "eq", idx, Poly.const(c)))
        if v.is_const(): return v
        (m, _), = v.t.items(); name = m[0]
        oh = self.__dict__.setdefault("onehot", {})
        if name not in oh:
            oh[name] = (repr(idx), c)
            sv = self._single_var(idx)
            if sv is not None:
                dv, sg, k = sv        # idx = sg*dv + k == c  <=>  dv == sg*(c - k)
                self.__dict__.setdefault("ind_info", {})[name] = (dv, sg * (c - k))
            self.__dict__.setdefault("implies", {})[name] = set(x for x in self.__dict__.get("arm_vars", []) if x)
        return v
    def norm1h(self, p):
        """normal form modulo the one-hot algebra: b*b = b, I(idx==c)*I(idx==c') = 0 for c != c', I*[arm condition it implies] = I"""
        oh = self.__dict__.get("onehot"); 
        if not oh or p.degree() < 2: return p
        imp = self.__dict__.get("implies", {}); bounds = self.ctx.bounds
        out = {}
        for m, c in p.t.items():
            if len(m) >= 2:
                vs = []
                for x in m:
                    if x in vs and bounds.get(x) == (0, 1): continue
                    vs.append(x)
                groups = {}
                dead = False
                for x in vs:
                    g = oh.get(x)
                    if g is not None:
                        if g[0] in groups and groups[g[0]] != g[1]: dead = True; break
                        groups[g[0]] = g[1]
                if dead: continue
                drop = set()
                for x in vs:
                    for y in imp.get(x, ()):
                        if y in vs: drop.add(y)
                m = tuple(sorted(x for x in vs if x not in drop))
            v = out.get(m, 0) + c
            if v: out[m] = v
            else: out.pop(m, None)
        return Poly(out)
    def gnorm(self, g): return G({b: self.norm1h(p) for b, p in g.c.items()})
    def memcpy(self, d, s, n):
        if isinstance(d, SymPtr) or isinstance(s, SymPtr):
            g = self.get(s)
            return self.put(d, g, n)
        return super().memcpy(d, s, n)
    def get(self, p):
        if isinstance(p, SymPtr):
            self.count("symbolic_index_load")
            acc = G()
            for c in range(p.lo, p.hi + 1):
                acc = acc + self.get(Ptr(p.r, p.o + c * p.stride)).scale(self.ind(p.idx, c))
            return self.gnorm(acc)
        if not isinstance(p, Ptr): raise Unsupported("point operand is not a pointer")
        e = self.regions[p.r].b.get(p.o)
        if e is not None and isinstance(e[0], G) and e[1] == 0: return e[0]
        img = self.concrete_image(p, 4 * self.fs)
        if img is not None:
            # a by-value copy of the basepoint constant (`pub const`: every use site has its own anonymous copy): recognised by its
            # 160-byte image, which is the one the C12 accessor returns (value checked by C12)
            im = self.__dict__.get("_bp_images")
            if im is None:
                im = self._bp_images = {}
                self._in_static = True
                try:
                    for rn in self.static_regions(("vp_c_basepoint", "vp_c_ristretto_basepoint")):
                        bi = self.concrete_image(Ptr(rn, 0), 4 * self.fs, raw=True)
                        if bi is not None: im[bi] = G.base("B")
                finally: self._in_static = False
            if img in im: self.count("basepoint_constant_copy"); return im[img]
        raise Unsupported("point operand at %r is not an abstract group element" % (p,))
    def put(self, p, g, size):
        if isinstance(p, SymPtr):
            self.count("symbolic_index_store")
            if size > p.stride: raise Unsupported("store through a symbolic pointer larger than the element")
            for c in range(p.lo, p.hi + 1):
                q = Ptr(p.r, p.o + c * p.stride)
                old = self.get(q)
                self.put(q, self.gnorm(old + (g - old).scale(self.ind(p.idx, c))), size)
            return None
        R = self.regions[p.r]
        for k in range(size): R.b[p.o + k] = (g, k, size)
        return None
    def point(self, name, size=None):
        p = self.new_region(name, size or 4 * self.fs)
        self.put(p, G.base(name), size or 4 * self.fs)
        return p
    def scalar(self, tag):
        """a Scalar argument: an opaque 32-byte object; recodings of it yield symbolic digits tagged `tag`"""
        p = self.new_region("scalar_" + tag, 32)
        self.scalars[p.r] = tag
        obj = ScalarObj(tag)
        R = self.regions[p.r]
        for k in range(32): R.b[k] = (obj, k, 32)
        return p
    def scalar_tag(self, p):
        e = self.regions[p.r].b.get(p.o)
        if e is not None and isinstance(e[0], ScalarObj) and e[1] == 0: return e[0].tag
        # a scalar built by real code from symbolic bytes (clamp_integer, ...): its digits are tied to the integer value of those bytes
        R = self.regions[p.r]; bs = []
        for k in range(32):
            c = R.b.get(p.o + k)
            if c is None or not isinstance(c[0], Poly) or c[2] != 1: break
            bs.append(self.ctx.resolve(c[0]))
        if len(bs) == 32:
            key = tuple(repr(b) for b in bs)
            tag = self.byte_scalar_tags.get(key)
            if tag is None:
                tag = "bs%d" % len(self.byte_scalar_tags); self.byte_scalar_tags[key] = tag; self.byte_scalars[tag] = bs
            return tag
        raise Unsupported("recoding of something that is not a harness scalar at %r" % (p,))

    # ------------------------------------------------------------------ recodings (contracts: Kani harnesses on the real code)
    def radix16(self, a):
        self.count("as_radix_16")
        cs = self.concrete_scalar(a[1])
        if cs is not None:
            out = [0] * 64
            for i in range(32): out[2 * i] = (cs >> (8 * i)) & 15; out[2 * i + 1] = (cs >> (8 * i + 4)) & 15
            for i in range(63):
                carry = (out[i] + 8) >> 4; out[i] -= carry << 4; out[i + 1] += carry
            for i in range(64): self.store(Ptr(a[0].r, a[0].o + i), Poly.const(out[i] & 255), 1)
            return
        tag = self.scalar_tag(a[1])
        d = self.digits.get((tag, "r16"))
        if d is None:
            vs = [self.ctx.input("%s_d%d" % (tag, i), -8, 8 if i == 63 else 7) for i in range(64)]
            d = dict(kind="radix16", vars=vs, weights=[16 ** i for i in range(64)]); self.digits[(tag, "r16")] = d
        for i, v in enumerate(d["vars"]): self.store(Ptr(a[0].r, a[0].o + i), SDigit(v, 8), 1)
    def concrete_scalar(self, p):
        """the integer value of a scalar argument whose 32 bytes are all concrete, else None"""
        R = self.regions[p.r]; v = 0
        for k in range(32):
            e = R.b.get(p.o + k)
            if e is None or not isinstance(e[0], Poly) or e[2] != 1 or not e[0].is_const(): return None
            v |= e[0].cval() << (8 * k)
        return v
    def radix2w(self, a):
        self.count("as_radix_2w")
        cs = self.concrete_scalar(a[1])
        if cs is not None:
            # a concrete scalar: digits by the reference recoding (signed radix 2^w, the function certified by the Kani harnesses)
            w = self.P(a[2]).cval()
            if w == 4: raise Unsupported("concrete radix-16 recoding not modelled")
            dc = (256 + w - 1) // w; ds = [0] * 64; carry = 0
            for i in range(dc):
                coef = carry + ((cs >> (w * i)) & ((1 << w) - 1))
                carry = (coef + (1 << (w - 1))) >> w
                ds[i] = coef - (carry << w)
            if w == 8: ds[dc] += carry
            else: ds[dc - 1] += carry << w
            for i in range(64): self.store(Ptr(a[0].r, a[0].o + i), Poly.const((ds[i] if i < len(ds) else 0) & 255), 1)
            return
        tag = self.scalar_tag(a[1]); w = self.P(a[2]).cval()
        n = (256 + w - 1) // w
        if w == 8: n += 1          # radix 256 needs one extra digit for the final carry
        key = (tag, "r2w%d" % w)
        d = self.digits.get(key)
        if d is None:
            half = 1 << (w - 1)
            vs = []
            for i in range(64):
                if i < n:
                    last = (i == n - 1)
                    vs.append(self.ctx.input("%s_w%d_%d" % (tag, w, i), -half, half if last else half - 1))
                else: vs.append(ZERO)
            d = dict(kind="radix2^%d" % w, vars=vs[:n], weights=[(1 << w) ** i for i in range(n)], all=vs); self.digits[key] = d
        for i, v in enumerate(d["all"]): self.store(Ptr(a[0].r, a[0].o + i), SDigit(v, 8) if not v.is_zero() else Poly.const(0), 1)
    def naf(self, a):
        self.count("non_adjacent_form")
        tag = self.scalar_tag(a[1]); w = self.P(a[2]).cval()
        key = (tag, "naf%d" % w)
        d = self.digits.get(key)
        if d is None:
            m = (1 << (w - 1)) - 1
            win = getattr(self, "naf_window", None)      # bounded mode: positions outside the window hold the digit 0
            vs = [(self.ctx.input("%s_n%d_%d" % (tag, w, i), -m, m) if (win is None or i in win) else ZERO) for i in range(256)]
            d = dict(kind="naf%d" % w, vars=vs, weights=[1 << i for i in range(256)]); self.digits[key] = d
        for i, v in enumerate(d["vars"]): self.store(Ptr(a[0].r, a[0].o + i), SDigit(v, 8) if not v.is_zero() else Poly.const(0), 1)

    def digit_value(self, x, w=8):
        """signed integer value (Poly) of a digit operand"""
        if isinstance(x, SDigit): return x.v
        p = self.P(x)
        if p.is_const():
            c = p.cval() & ((1 << w) - 1)
            return Poly.const(c - (1 << w) if c >> (w - 1) else c)
        raise Unsupported("digit operand is neither a harness digit nor a constant")

    # ------------------------------------------------------------------ table look-ups
    def table_entries(self, tab, n):
        e0 = self.regions[tab.r].b.get(tab.o)
        if e0 is None or not isinstance(e0[0], G): raise Unsupported("lookup table without abstract entries at %r" % (tab,))
        stride = e0[2]
        return [self.get(Ptr(tab.r, tab.o + j * stride)) for j in range(n)], stride
    def table_select(self, a, name):
        """LookupTable*::select(x): contract (Kani, real code): for -n <= x <= n: sign(x)*T[|x|-1], identity for 0.
        Local lemma checked here: T[j] == (j+1)*T[0]  =>  the look-up is the linear term x*T[0]."""
        self.count("select")
        m = re.search(r'LookupTable(Radix(\d+))?', name)
        radix = int(m.group(2)) if m.group(2) else 16
        n = radix // 2
        out, tab = a[0], a[1]
        x = self.digit_value(a[2])
        R = self.regions[tab.r]
        if R.kind == "global":
            g = self.static_lookup(tab, n)
            ents, stride = g, None
        else:
            ents, stride = self.table_entries(tab, n)
        ok = all(ents[j].eq(ents[0].scale(j + 1)) for j in range(n))
        self.lemmas.append(("table at %s is [1..%d]*T0" % (tab.r, n), ok))
        if not ok: raise TableLemmaFailed("lookup table entries are not the multiples 1..%d of the first entry" % n)
        lo, hi = self.ctx.interval(self.ctx.resolve(x))
        if lo < -n or hi > n: raise DigitOutOfRange("select called with digit range [%d,%d] outside [-%d,%d]" % (lo, hi, n, n))
        size = stride if stride else 3 * self.fs      # static tables hold AffineNielsPoint entries
        self.put(out, ents[0].scale(x), size)
    def naf_select(self, a, name):
        """NafLookupTable5/8::select(x): T[x/2] for odd x: lemma T[j] == (2j+1)*T[0] => x*T[0] for odd 0 < x < 2^(w-1)"""
        self.count("naf_select")
        w = 5 if "NafLookupTable5" in name else 8
        n = 8 if w == 5 else 64
        out, tab = a[0], a[1]
        xv = a[2]
        x = xv.v if isinstance(xv, SDigit) else self.P(xv)
        if isinstance(xv, NegDigit): x = -xv.v
        lo, hi = self.ctx.interval(self.ctx.resolve(x))
        if lo < 1 or hi > 2 * n - 1:
            raise DigitOutOfRange("NafLookupTable%d::select called with an index in [%d,%d], outside [1,%d]" % (w, lo, hi, 2 * n - 1))
        R = self.regions[tab.r]
        if R.kind == "global":
            # static table of odd multiples of the basepoint (entries: C12); the formal base point is "B"
            if tab.r not in self.static_naf_tables(): raise Unsupported("unknown static NAF table " + tab.r[-60:])
            if tab.o != 0: raise Unsupported("static NAF table accessed at an offset")
            self.count("static_naf_select")
            esz = R.size // n if R.size else 3 * self.fs
            return self.put(out, G.base("B").scale(x), esz)
        ents, stride = self.table_entries(tab, n)
        ok = all(ents[j].eq(ents[0].scale(2 * j + 1)) for j in range(n))
        self.lemmas.append(("NAF table at %s is [1,3,..,%d]*T0" % (tab.r, 2 * n - 1), ok))
        if not ok: raise TableLemmaFailed("NAF table entries are not the odd multiples of the first entry")
        self.put(out, ents[0].scale(x), stride)
    def static_naf_tables(self):
        """regions of the static tables of odd multiples of the basepoint, found through the accessor hooks that C12 uses to
        read them (so the table meant here is exactly the one whose 64 entries C12 checks to be (2j+1)*B)"""
        t = self.__dict__.get("_snt")
        if t is None:
            t = set()
            for h in ("vp_c_affine_odd_multiples", "vp_c_avx2_odd_table", "vp_c_ifma_odd_table"):
                f = self.mod.aliases.get(h, h)
                if f in self.mod.funcs:
                    sub = LSym(self.mod)
                    sub.regions = self.regions; sub.nreg = self.nreg + 100000
                    r = sub.call(f, [])
                    if isinstance(r, Ptr): t.add(r.r)
            self._snt = t
        return t
    def static_lookup(self, tab, n):
        """ED25519_BASEPOINT_TABLE / RISTRETTO_BASEPOINT_TABLE: 32 radix-16 sub-tables, sub-table i holds (j+1)*256^i*B (entries: C12)"""
        st = self.__dict__.get("_static_tabs")
        if st is None: st = self._static_tabs = self.static_regions(("vp_c_basepoint_table", "vp_c_ristretto_basepoint_table"))
        if tab.r not in st: raise Unsupported("unknown static lookup table " + tab.r[-60:])
        esz = 3 * self.fs; sub = 8 * esz
        if n != 8 or tab.o % sub: raise Unsupported("static basepoint table accessed at an unexpected offset/radix")
        i = tab.o // sub
        self.count("static_table_select")
        return [G.base("B").scale((j + 1) * (256 ** i)) for j in range(n)]

def e_size(it, out, ents): return 4 * it.fs

class TableLemmaFailed(Exception): pass
class DigitOutOfRange(Exception): pass

class ScalarObj:
    def __init__(self, tag): self.tag = tag
class Sign:
    """three-way comparison result (-1 / 0 / 1) of the integer d with 0, d symbolic"""
    def __init__(self, d): self.d = d
class SDigit:
    """a signed digit (i8/i16 machine value) carried abstractly: v is its integer value as a Poly"""
    def __init__(self, v, w): self.v, self.w = v, w
class NegDigit(SDigit): pass
