"""SMT back end for llsym layer L: Poly/Cond -> SMT-LIB2 text -> external solver processes.

A query is "under the context's constraints, can `violated` hold?":  unsat = the goal holds for every
value within the stated bounds; sat gives a candidate model (product atoms are over-approximated, so a
model must be confirmed by concrete re-execution before it is reported as a violation).

Solvers run as sub-processes under a hard wall-clock limit (z3's own soft timeout is not reliable), so
queries can be discharged in parallel and cross-checked with several solvers from the same text.
Goal-directed case splitting: boolean (0/1) variables that occur in the goal's residual are enumerated
(<= MAXSPLIT of them); a case whose residual is trivially satisfied is closed without a solver call.
"""
import time, subprocess, tempfile, os, re, itertools
from concurrent.futures import ThreadPoolExecutor
from .poly import Poly, ZERO
from .lsym import Cond

SOLVERS = {
    "z3": lambda path, t: ["z3-new", "-T:%d" % t, path],
    "z3old": lambda path, t: ["/usr/bin/z3", "-T:%d" % t, path],
    "cvc5": lambda path, t: ["cvc5", "--lang", "smt2", "--produce-models", "--tlimit=%d" % (t * 1000), path],
}
MAXSPLIT = 6
_pool = ThreadPoolExecutor(max_workers=int(os.environ.get("VERIF_JOBS", "4")))
STATS = dict(queries=0, solver_s=0.0, closed_without_solver=0, by_verdict={})

def _num(c):
    return str(c) if c >= 0 else "(- %d)" % (-c)

def _name(m):
    return "|" + "*".join(m) + "|"

class Problem:
    def __init__(self, ctx):
        self.ctx = ctx
        self.defs, self.full, self.expand = ctx.expander()
        self.atoms = {}
        self._base = None
        self.zero = set()      # eliminated digits proven to be 0 (dead remainders, e.g. Montgomery low halves)
        # (var, Poly[, 'goal']): contract definitions + proven equalities with a unit pivot (Gaussian step), in order.
        # A contract variable that was later refined into digits (v = d0 + 2^s d1 + ...) is re-pivoted on its lowest digit.
        self.var_elim = []
        for ent in getattr(ctx, 'extra_defs', []):
            v, repl = ent[0], ent[1]
            rv = ctx.resolve(Poly.var(v))
            if len(rv.t) == 1 and (v,) in rv.t:
                self.var_elim.append(ent); continue
            low = [m for m, c in rv.t.items() if len(m) == 1 and c == 1]
            if not low:
                self.var_elim.append(ent); continue
            d0 = low[0][0]
            rest = Poly({m: c for m, c in rv.t.items() if m != (d0,)})
            self.var_elim.append((d0, repl - rest) + tuple(ent[2:]))
        self.lemma_log = []

    def dead_digits(self, roots):
        """eliminated lowest digits that no other definition, side condition or root polynomial mentions"""
        ctx = self.ctx
        used = set()
        for p in roots: used |= ctx.resolve(p).vars()
        for key in ctx.order: used |= ctx.resolve(ctx.dec[key]["x"]).vars()
        def cvars(c):
            if c.k in ("not",): return cvars(c.a[0])
            if c.k in ("and", "or"): return cvars(c.a[0]) | cvars(c.a[1])
            if c.k == "cmp": return ctx.resolve(c.a[1]).vars() | ctx.resolve(c.a[2]).vars()
            if c.k in ("modne", "modeq"): return ctx.resolve(c.a[0]).vars()
            return set()
        for sd in ctx.side: used |= cvars(sd[2] if sd[0] == "booldef" else sd[1])
        for a in ctx.assume: used |= cvars(a)
        out = [v for v, repl, c1 in self.defs if v not in used and c1 is not None]
        # dropped top digits (e.g. a carry-out that is masked away) are free variables used nowhere else
        for key in ctx.order:
            D = ctx.dec[key]
            for d in D["digs"][1:]:
                if d not in used and d not in ctx.split: out.append(d)
        return out

    def auto_zero_lemmas(self, roots, timeout_s=2, solver="z3", passes=2):
        """try to prove each dead remainder digit is identically 0 (all candidates of a pass in parallel);
        proven ones become equalities and, where a unit pivot exists, eliminate a further variable"""
        cands = []
        for v in self.dead_digits(roots):
            lo, hi = self.ctx.bounds[v]
            if hi - lo == 1: cands += [(v, lo), (v, hi)]     # booleans / sign digits: either constant value
            elif lo <= 0 <= hi: cands.append((v, 0))
        for ps in range(passes):
            if not cands: break
            jobs = []
            for v, cst in cands:
                if v in self.zero or any(e[0] == v for e in self.var_elim): continue
                txt = self.text(Cond("cmp", "ne", Poly.var(v), Poly.const(cst)), (), None, want_model=False)
                jobs.append((v, cst, txt))
            res = list(_pool.map(lambda j: ("unsat", None) if j[2] is None else run_solver(j[2], solver, timeout_s), jobs))
            proven = [(v, cst) for (v, cst, _), (verdict, _) in zip(jobs, res) if verdict == "unsat"]
            for (v, cst, _), (verdict, _) in zip(jobs, res): self.lemma_log.append((v, verdict, ps, cst))
            if not proven: break
            done = set()
            for v, cst in proven:
                if v in done: continue
                done.add(v); self._add_const(v, cst)
            cands = [(v, cst) for (v, cst, _), (verdict, _) in zip(jobs, res) if verdict == "unknown" and v not in done]
        return self.lemma_log

    def _add_const(self, v, cst):
        if cst == 0: return self._add_zero(v)
        if v not in self.full:
            self.var_elim.append((v, Poly.const(cst))); return
        # eliminated digit with a proven non-zero constant value: keep as an equality constraint
        self.ctx.side.append(("cond", Cond("cmp", "eq", Poly.var(v), Poly.const(cst))))

    def _add_zero(self, v):
        from math import gcd
        if v not in self.full:
            # a free digit proven 0: substitute
            self.var_elim.append((v, ZERO)); return
        self.zero.add(v)
        E = self.ex(Poly.var(v))          # == 0
        if E.is_zero(): return
        g = 0
        for c in E.t.values(): g = gcd(g, abs(c))
        if g > 1: E = E.divexact(g)
        cands = [(m, c) for m, c in E.t.items() if len(m) == 1 and abs(c) == 1 and m[0][0] == "d"
                 and m[0] not in self.ctx.__dict__.get("_signdef", {})]
        if cands:
            m, c = max(cands, key=lambda mc: int(mc[0][0][1:]))
            rest = Poly({mm: cc for mm, cc in E.t.items() if mm != m})
            self.var_elim.append((m[0], rest.scale(-c)))      # c*v + rest = 0  ->  v = -rest/c

    # ---------------------------------------------------------------- term printing
    def lin(self, poly, fixed=None):
        """SMT-LIB term for an (already expanded) Poly"""
        terms = []
        for m, c in poly.t.items():
            if not m: terms.append(_num(c)); continue
            self.atoms[m] = True
            terms.append("(* %s %s)" % (_num(c), _name(m)) if c != 1 else _name(m))
        if not terms: return "0"
        return "(+ %s)" % " ".join(terms) if len(terms) > 1 else terms[0]

    def ex(self, poly, fixed=None, goal=False):
        """expand to free variables; `goal`: also apply rewrite rules that are only valid/meant for modular goals"""
        p = self.expand(poly)
        if self.var_elim:
            for _ in range(4 * len(self.var_elim) + 4):
                vs = p.vars()
                hit = [e for e in self.var_elim if e[0] in vs and (goal or len(e) == 2)]
                if not hit: break
                v, repl = hit[-1][0], hit[-1][1]
                p = self.expand(p.subst(v, repl))
            else:
                raise RuntimeError("var_elim substitution did not converge")
        if fixed:
            for v, val in fixed.items(): p = p.subst(v, Poly.const(val))
        return p

    def cond(self, c, fixed=None):
        k = c.k
        if k == "const": return "true" if c.a[0] else "false"
        if k == "not": return "(not %s)" % self.cond(c.a[0], fixed)
        if k == "and": return "(and %s %s)" % (self.cond(c.a[0], fixed), self.cond(c.a[1], fixed))
        if k == "or": return "(or %s %s)" % (self.cond(c.a[0], fixed), self.cond(c.a[1], fixed))
        if k == "cmp":
            pred, A, B = c.a
            d = self.ex(A - B, fixed)
            if d.is_const():
                v = d.cval()
                return "true" if {"eq": v == 0, "ne": v != 0, "lt": v < 0, "le": v <= 0, "gt": v > 0, "ge": v >= 0}[pred] else "false"
            t = self.lin(d)
            return {"eq": "(= %s 0)", "ne": "(not (= %s 0))", "lt": "(< %s 0)", "le": "(<= %s 0)", "gt": "(> %s 0)", "ge": "(>= %s 0)"}[pred] % t
        if k in ("modne", "modeq"):
            A, M = c.a
            d = self.ex(A, fixed, goal=True)
            d = Poly({m: cc % M for m, cc in d.t.items() if cc % M})
            if d.is_const():
                z = d.cval() % M == 0
                return "true" if (z == (k == "modeq")) else "false"
            t = "(= (mod %s %d) 0)" % (self.lin(d), M)
            return t if k == "modeq" else "(not %s)" % t
        raise ValueError("cond kind " + k)

    def cond_polys(self, c):
        if c.k in ("not",): return self.cond_polys(c.a[0])
        if c.k in ("and", "or"): return self.cond_polys(c.a[0]) + self.cond_polys(c.a[1])
        if c.k == "cmp": return [self.expand(c.a[1] - c.a[2])]
        if c.k in ("modne", "modeq"):
            d = self.ex(c.a[0], None, goal=True); M = c.a[1]
            return [Poly({m: cc % M for m, cc in d.t.items() if cc % M})]
        return []

    def base(self, fixed, light=False):
        ctx = self.ctx
        out = []
        for v, repl, c1 in ([] if light else self.defs):
            e = self.ex(Poly.var(v), fixed)
            lo, hi = ctx.bounds[v]
            if v in self.zero: lo = hi = 0
            if e.is_const():
                if not (lo <= e.cval() <= hi): out.append("false")
                continue
            t = self.lin(e)
            if lo == hi: out.append("(= %s %s)" % (t, _num(lo)))
            else: out.append("(>= %s %s)" % (t, _num(lo))); out.append("(<= %s %s)" % (t, _num(hi)))
        for i, ent in enumerate(self.var_elim):
            if len(ent) == 3: continue       # goal-only rewrite: the variable stays free in the constraint system
            if light: continue
            v, repl = ent
            lo, hi = ctx.bounds[v]
            e = self.ex(repl, fixed)
            if e.is_const():
                if not (lo <= e.cval() <= hi): out.append("false")
                continue
            t = self.lin(e)
            out.append("(>= %s %s)" % (t, _num(lo))); out.append("(<= %s %s)" % (t, _num(hi)))
        side = list(ctx.side)
        if light:
            # definitions of booleans that occur nowhere else are dropped (a definition constrains only its own
            # variable): keep a boolean definition only if its variable is needed by the goal / kept constraints
            need = set(self._light_need)
            def cv(c):
                if c.k == "not": return cv(c.a[0])
                if c.k in ("and", "or"): return cv(c.a[0]) | cv(c.a[1])
                if c.k == "cmp": return self.ex(c.a[1] - c.a[2], fixed).vars()
                if c.k in ("modne", "modeq"): return self.ex(c.a[0], fixed).vars()
                return set()
            for sd in side:
                if sd[0] == "cond": need |= cv(sd[1])
            for a in ctx.assume: need |= cv(a)
            changed = True; keep = set()
            while changed:
                changed = False
                for i, sd in enumerate(side):
                    if sd[0] == "booldef" and i not in keep and self.ex(Poly.var(sd[1]), fixed).vars() & need:
                        keep.add(i); need |= cv(sd[2]); changed = True
            side = [sd for i, sd in enumerate(side) if sd[0] != "booldef" or i in keep]
        for s in side:
            if s[0] == "booldef":
                _, v, c = s
                e = self.ex(Poly.var(v), fixed)
                lhs = ("true" if e.cval() == 1 else "false") if e.is_const() else "(= %s 1)" % self.lin(e)
                out.append("(= %s %s)" % (lhs, self.cond(c, fixed)))
            elif s[0] == "cond":
                out.append(self.cond(s[1], fixed))
        for a in ctx.assume:
            out.append(self.cond(a, fixed))
        return out

    def text(self, violated, extra=(), fixed=None, want_model=True, pin_env=None, light=False):
        self.atoms = {}
        self._light_need = set()
        if light:
            for p in self.cond_polys(violated): self._light_need |= p.vars()
            for e in extra:
                for p in self.cond_polys(e): self._light_need |= p.vars()
        body = self.base(fixed, light)
        for e in extra: body.append(self.cond(e, fixed))
        body.append(self.cond(violated, fixed))
        if "false" in body: return None
        decls = []; bnds = []
        ctx = self.ctx
        done = set()
        work = list(self.atoms)
        while work:
            m = work.pop()
            if m in done: continue
            done.add(m); self.atoms[m] = True
            decls.append("(declare-const %s Int)" % _name(m))
            lo, hi = ctx.interval(Poly({m: 1}))
            bnds.append("(assert (and (>= %s %s) (<= %s %s)))" % (_name(m), _num(lo), _name(m), _num(hi)))
            if len(m) >= 2:
                bl = [x for x in m if ctx.bounds.get(x) == (0, 1)]
                if bl:
                    # exact linearisation of c * rest for a 0/1 variable c:  rest - hi(1-c) <= a <= rest - lo(1-c),  lo*c <= a <= hi*c
                    c = bl[0]; rest = list(m); rest.remove(c); rest = tuple(rest)
                    if c in rest: rest = tuple(x for x in rest if x != c) or (c,)      # c*c = c
                    if rest == (c,):
                        for mm in ((c,),):
                            if mm not in done: work.append(mm)
                        bnds.append("(assert (= %s %s))" % (_name(m), _name((c,))))
                        continue
                    for mm in ((c,), rest):
                        if mm not in done: work.append(mm)
                    rlo, rhi = ctx.interval(Poly({rest: 1}))
                    A, C, Rn = _name(m), _name((c,)), _name(rest)
                    bnds.append("(assert (<= %s (* %s %s)))" % (A, _num(rhi), C)); bnds.append("(assert (>= %s (* %s %s)))" % (A, _num(rlo), C))
                    bnds.append("(assert (<= %s (- %s (* %s (- 1 %s)))))" % (A, Rn, _num(rlo), C)); bnds.append("(assert (>= %s (- %s (* %s (- 1 %s)))))" % (A, Rn, _num(rhi), C))
        if pin_env:
            for m in self.atoms:
                if all(x in pin_env for x in m):
                    val = 1
                    for x in m: val *= pin_env[x]
                    bnds.append("(assert (= %s %s))" % (_name(m), _num(val)))
        lines = ["(set-logic ALL)"] + decls + bnds + ["(assert %s)" % b for b in body if b != "true"] + ["(check-sat)"]
        if want_model:
            singles = [m for m in self.atoms if len(m) == 1]
            if singles: lines.append("(get-value (%s))" % " ".join(_name(m) for m in singles))
        return "\n".join(lines) + "\n"

    # ---------------------------------------------------------------- solving
    def check(self, violated, extra=(), timeout_s=60, solver="z3", split=True, also=(), pin_env=None, light=False):
        """returns (verdict, model_env or None, seconds, info) ; verdict in unsat/sat/unknown/error"""
        t0 = time.time()
        ctx = self.ctx
        fixsets = [dict()]
        if split:
            bv = set()
            for p in self.cond_polys(violated):
                for v in p.vars():
                    if ctx.bounds.get(v) == (0, 1): bv.add(v)
            bv = sorted(bv)
            if 0 < len(bv) <= MAXSPLIT:
                fixsets = [dict(zip(bv, bits)) for bits in itertools.product((0, 1), repeat=len(bv))]
        jobs = []
        closed = 0
        for fx in fixsets:
            txt = self.text(violated, extra, fx, pin_env=pin_env, light=light)
            if txt is None: closed += 1; continue
            jobs.append((fx, txt))
        STATS["closed_without_solver"] += closed
        results = list(_pool.map(lambda j: run_solver(j[1], solver, timeout_s), jobs)) if jobs else []
        verdict = "unsat"; model = None
        for (fx, txt), (v, mdl) in zip(jobs, results):
            if v == "sat":
                verdict = "sat"; model = dict(mdl or {}); model.update(fx); self.last_text = txt; break
            if v != "unsat" and verdict == "unsat": verdict = v
        info = dict(cases=len(fixsets), solver_calls=len(jobs), closed_syntactically=closed)
        if verdict == "unsat" and also:
            for s2 in also:
                for fx, txt in jobs:
                    v2, _ = run_solver(txt, s2, timeout_s)
                    if v2 != "unsat":
                        info["cross_" + s2] = v2
                        if v2 in ("sat", "error"): verdict = "error"
                info.setdefault("cross_" + s2, "unsat")
        dt = time.time() - t0
        STATS["queries"] += 1; STATS["solver_s"] += dt
        STATS["by_verdict"][verdict] = STATS["by_verdict"].get(verdict, 0) + 1
        return verdict, model, dt, info

PORTFOLIO = {
    # tried concurrently when the first attempt runs into its time limit: other random seeds of the same solver, the distribution's
    # older z3 and cvc5.  A definite answer (sat / unsat) of any member is an answer; they are all complete decision procedures for
    # QF_LIA and an answer is never overridden by a time-out.
    "z3": [lambda path, t: ["z3-new", "-T:%d" % t, "smt.random_seed=7", "sat.random_seed=7", "smt.arith.random_initial_value=true", path],
           lambda path, t: ["z3-new", "-T:%d" % t, "smt.random_seed=31", "smt.arith.solver=2", path],
           lambda path, t: ["/usr/bin/z3", "-T:%d" % t, path],
           lambda path, t: ["cvc5", "--lang", "smt2", "--produce-models", "--tlimit=%d" % (t * 1000), path]],
}
FIRST_TRY_S = int(os.environ.get("VERIF_SOLVER_FIRST_TRY", "20"))

def run_solver(text, solver="z3", timeout_s=60):
    """first attempt under min(timeout, FIRST_TRY_S); on a time-out the portfolio runs concurrently for the full timeout"""
    if solver not in PORTFOLIO or timeout_s <= FIRST_TRY_S: return run_solver1(text, SOLVERS[solver], timeout_s)
    v, m = run_solver1(text, SOLVERS[solver], FIRST_TRY_S)
    if v != "unknown": return v, m
    STATS["portfolio_runs"] = STATS.get("portfolio_runs", 0) + 1
    import concurrent.futures as cf
    ex = ThreadPoolExecutor(max_workers=len(PORTFOLIO[solver]) + 1)
    futs = [ex.submit(run_solver1, text, mk, timeout_s) for mk in [SOLVERS[solver]] + PORTFOLIO[solver]]
    best = ("unknown", None)
    try:
        for f in cf.as_completed(futs):
            v, m = f.result()
            if v in ("sat", "unsat"): best = (v, m); break
            if v == "error" and best[0] == "unknown": best = (v, m)
    finally:
        ex.shutdown(wait=False, cancel_futures=True)
        for pr in list(_LIVE):
            if pr.args[-1] in _PORTFOLIO_FILES.get(text.__hash__(), ()):   # stop the losers
                try: pr.kill()
                except Exception: pass
    return best

_LIVE = set(); _PORTFOLIO_FILES = {}

def run_solver1(text, mkcmd, timeout_s=60):
    wd = os.environ.get("VERIF_WORK") or "/var/tmp"
    with tempfile.NamedTemporaryFile("w", suffix=".smt2", delete=False, dir=wd) as f:
        f.write(text); path = f.name
    try:
        cmd = mkcmd(path, max(1, int(timeout_s)))
        _PORTFOLIO_FILES.setdefault(text.__hash__(), set()).add(path)
        pr = subprocess.Popen(cmd, stdout=subprocess.PIPE, stderr=subprocess.PIPE, text=True); _LIVE.add(pr)
        try:
            out = pr.communicate(timeout=timeout_s + 5)[0]
        except subprocess.TimeoutExpired:
            pr.kill(); pr.communicate()
            return "unknown", None
        finally:
            _LIVE.discard(pr)
        if pr.returncode is not None and pr.returncode < 0 and not out.strip(): return "unknown", None      # killed (portfolio loser)
        if "(error" in out and "model is not available" not in out: return "error", None
        verdict = "unknown"
        for line in out.splitlines():
            line = line.strip()
            if line in ("unsat", "sat", "unknown"): verdict = line; break
            if line == "timeout": verdict = "unknown"; break
        model = None
        if verdict == "sat":
            model = {}
            for m in re.finditer(r'\(\|([^|]+)\|\s+(\(-\s*\d+\)|-?\d+)\)', out):
                v = m.group(2)
                model[m.group(1)] = -int(re.sub(r'[^\d]', '', v)) if v.startswith("(") else int(v)
        return verdict, model
    finally:
        _PORTFOLIO_FILES.get(text.__hash__(), set()).discard(path)
        try: os.unlink(path)
        except OSError: pass
