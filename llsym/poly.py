"""Integer polynomials with interval bounds, bit-slice views, chained digit decompositions and
definitional-equality elimination (DESIGN.md 3.1.2 / 3.1.3).

A `Poly` denotes an exact mathematical integer as a polynomial over named integer variables.
`Ctx` owns variable bounds, the decompositions `x = sum_j digit_j * 2^cut_j` introduced when a value is
cut at a bit position (wrap-around, shifts, masks, truncations), the refinements of single variables into
digits, boolean side definitions, and produces the final SMT problem after eliminating every
definitional equality.
"""
import itertools

class Poly:
    __slots__ = ("t", "_iv")
    def __init__(self, t=None):
        self.t = t if t is not None else {}
        self._iv = None
    @staticmethod
    def const(c): return Poly({(): c} if c else {})
    @staticmethod
    def var(v): return Poly({(v,): 1})
    def is_const(self): return not self.t or (len(self.t) == 1 and () in self.t)
    def cval(self): return self.t.get((), 0)
    def is_zero(self): return not self.t
    def __add__(self, o):
        if not o.t: return self
        if not self.t: return o
        t = dict(self.t)
        for m, c in o.t.items():
            v = t.get(m, 0) + c
            if v: t[m] = v
            else: del t[m]
        return Poly(t)
    def scale(self, k):
        if k == 1: return self
        return Poly({m: c * k for m, c in self.t.items()} if k else {})
    def __neg__(self): return self.scale(-1)
    def __sub__(self, o): return self + o.scale(-1)
    def __mul__(self, o):
        if o.is_const(): return self.scale(o.cval())
        if self.is_const(): return o.scale(self.cval())
        t = {}
        for m1, c1 in self.t.items():
            for m2, c2 in o.t.items():
                m = tuple(sorted(m1 + m2)) if m1 and m2 else (m1 or m2)
                v = t.get(m, 0) + c1 * c2
                if v: t[m] = v
                else: del t[m]
        return Poly(t)
    def addc(self, c): return self + Poly.const(c)
    def vars(self):
        s = set()
        for m in self.t: s.update(m)
        return s
    def key(self): return tuple(sorted(self.t.items()))
    def degree(self): return max((len(m) for m in self.t), default=0)
    def tz(self):
        """2-adic valuation common to all coefficients (value is a multiple of 2^tz)"""
        if not self.t: return 10**9
        g = 0
        for c in self.t.values(): g |= abs(c)
        return (g & -g).bit_length() - 1
    def divexact(self, k):
        return Poly({m: c // k for m, c in self.t.items()})
    def subst(self, var, repl):
        if not any(var in m for m in self.t): return self
        out = {}
        acc = Poly()
        for m, c in self.t.items():
            if var in m:
                n = m.count(var)
                rest = tuple(x for x in m if x != var)
                p = Poly({rest: c})
                for _ in range(n): p = p * repl
                acc = acc + p
            else:
                out[m] = out.get(m, 0) + c
        return Poly(out) + acc
    def eval(self, env):
        tot = 0
        for m, c in self.t.items():
            v = c
            for x in m: v *= env[x]
            tot += v
        return tot
    def __repr__(self):
        if not self.t: return "0"
        items = sorted(self.t.items(), key=lambda kv: (len(kv[0]), kv[0]))
        s = " + ".join((str(c) if not m else (("" if c == 1 else str(c) + "*") + "*".join(m))) for m, c in items[:8])
        return s + (" + ...(%d terms)" % len(items) if len(items) > 8 else "")

ZERO = Poly()
ONE = Poly.const(1)

class Slice:
    """bits [a,b) of the non-negative integer x (Poly); b None = all higher bits"""
    __slots__ = ("x", "a", "b")
    def __init__(self, x, a, b): self.x, self.a, self.b = x, a, b
    def __repr__(self): return "bits[%s,%s)(%r)" % (self.a, self.b, self.x)

class Ctx:
    def __init__(self):
        self.bounds = {}       # var -> (lo, hi)
        self.n = 0
        self.split = {}        # var -> Poly (var refined into lower digits)
        self.dec = {}          # key(x) -> decomposition dict
        self.order = []        # creation order of decomposition keys
        self.owner = {}        # digit var -> decomposition key
        self.side = []         # side constraints: tuples understood by smt.py
        self.assume = []       # extra assumptions (same format)
        self.stats = dict(cuts_positional=0, cuts_generic=0, vars=0)
        self.trace_vars = {}   # var -> description (for counterexample printing)
        self.shadow = None     # optional dict var -> int: concrete shadow execution (encoder self-test)

    # ------------------------------------------------------------------ variables
    def fresh(self, pfx, lo, hi, desc=None):
        self.n += 1
        v = "%s%d" % (pfx, self.n)
        self.bounds[v] = (lo, hi)
        if desc: self.trace_vars[v] = desc
        return v
    def input(self, name, lo, hi, shadow=None):
        self.bounds[name] = (lo, hi)
        if self.shadow is not None and shadow is not None: self.shadow[name] = shadow
        return Poly.var(name)
    def sh(self, p):
        """value of p under the shadow assignment"""
        return self.resolve(p).eval(self.shadow) if False else p.eval(self.shadow)

    def resolve(self, p):
        if not self.split: return p
        guard = 0
        while True:
            hit = None
            for m in p.t:
                for v in m:
                    if v in self.split: hit = v; break
                if hit: break
            if hit is None: return p
            p = p.subst(hit, self.split[hit])
            guard += 1
            if guard > 100000: raise RuntimeError("resolve loop")

    def interval(self, p):
        sd = self.__dict__.get("_signdef")
        if sd:
            svars = [v for v in p.vars() if v in sd]
            if svars and len(svars) <= 3:
                return self._interval_signs(p, svars)
        return self._interval0(p)

    def _interval_signs(self, p, svars):
        """case split on sign booleans s = [L_s < 0] (sound refinement of plain interval arithmetic)"""
        s = svars[0]; Ls = self._signdef[s]
        lo_all = None; hi_all = None
        l_lo, l_hi = self._interval0(Ls) if not any(v in self._signdef for v in Ls.vars()) else self.interval(Ls)
        for val in (0, 1):
            if val == 0 and l_hi < 0: continue
            if val == 1 and l_lo >= 0: continue
            pv = p.subst(s, Poly.const(val))
            q = pv - Ls
            # pv = Ls + q, with Ls restricted by the case
            rng = (max(l_lo, 0), l_hi) if val == 0 else (l_lo, min(l_hi, -1))
            if len(q.t) < len(pv.t):
                qlo, qhi = self.interval(q) if svars[1:] else self._interval0(q)
                a, b = qlo + rng[0], qhi + rng[1]
            else:
                a, b = self.interval(pv) if svars[1:] else self._interval0(pv)
            lo_all = a if lo_all is None else min(lo_all, a)
            hi_all = b if hi_all is None else max(hi_all, b)
        if lo_all is None: return self._interval0(p)
        return lo_all, hi_all

    def _interval0(self, p):
        lo = hi = 0
        b = self.bounds
        for m, c in p.t.items():
            if not m:
                lo += c; hi += c; continue
            ml, mh = 1, 1
            first = True
            for v in m:
                l, h = b[v]
                if first: ml, mh = l, h; first = False
                else:
                    cands = (ml * l, ml * h, mh * l, mh * h)
                    ml, mh = min(cands), max(cands)
            # squares are non-negative
            if len(m) == 2 and m[0] == m[1] and ml < 0: ml = 0
            if c >= 0: lo += c * ml; hi += c * mh
            else: lo += c * mh; hi += c * ml
        return lo, hi

    # ------------------------------------------------------------------ cutting
    def split_var(self, v, s):
        """refine variable v (0 <= v) at bit s: v = lo + 2^s*hi ; returns (hi_poly, lo_poly)"""
        lo_b, hi_b = self.bounds[v]
        if lo_b >= 0 and hi_b < (1 << s): return ZERO, Poly.var(v)
        if lo_b >= -1 and hi_b <= 0:
            # sign digit (0 or -1): -1 = (2^s - 1) + 2^s * (-1): no new variables needed
            return Poly.var(v), Poly.var(v).scale(-((1 << s) - 1))
        key = self.owner.get(v)
        if (lo_b >> s) == (hi_b >> s):
            qq = lo_b >> s
            lo_v = self.fresh("d", lo_b - (qq << s), hi_b - (qq << s))
        else:
            lo_v = self.fresh("d", 0, (1 << s) - 1)
        hi_v = self.fresh("d", lo_b >> s, hi_b >> s)
        if self.shadow is not None and v in self.shadow:
            val = self.shadow[v]
            self.shadow[hi_v] = val >> s; self.shadow[lo_v] = val - ((val >> s) << s)
        self.split[v] = Poly.var(lo_v) + Poly.var(hi_v).scale(1 << s)
        if key is not None:
            D = self.dec[key]
            j = D["digs"].index(v)
            base = D["cuts"][j]
            D["digs"][j] = lo_v
            D["cuts"].insert(j + 1, base + s); D["digs"].insert(j + 1, hi_v)
            self.owner[lo_v] = key; self.owner[hi_v] = key
        self.stats["cuts_positional"] += 1
        return Poly.var(hi_v), Poly.var(lo_v)

    def cut(self, x, k):
        """(q, r) with x = q*2^k + r, 0 <= r < 2^k, for a Poly x known to be >= 0"""
        if k == 0: return x, ZERO
        x = self.resolve(x)
        if x.is_const():
            c = x.cval(); return Poly.const(c >> k), Poly.const(c & ((1 << k) - 1))
        lo, hi = self.interval(x)
        if lo >= 0 and hi < (1 << k): return ZERO, x
        K = 1 << k
        H = {}; L = {}
        for m, c in x.t.items():
            (H if c % K == 0 else L)[m] = c
        Hp = Poly({m: c // K for m, c in H.items()}); Lp = Poly(L)
        if not L: return Hp, ZERO
        llo, lhi = self.interval(Lp)
        if llo >= 0 and lhi < K: return Hp, Lp
        r = self._structural_cut(Hp, Lp, L, k, llo)
        if r is not None: return r
        # choose the representative of L modulo 2^k whose range lies in [0,2^k) or, failing that, in [-2^k,2^k)
        j = llo >> k
        if lhi - j * K >= K:
            j += 1
            if not (llo - j * K >= -K and lhi - j * K < K): j = None
        if j:
            Lp = Lp.addc(-j * K); Hp = Hp.addc(j); llo -= j * K; lhi -= j * K; L = Lp.t
            if llo >= 0 and lhi < K: return Hp, Lp
            r = self._structural_cut(Hp, Lp, L, k, llo)
            if r is not None: return r
        # generic: chained digit decomposition of L
        q, r = self._generic_cut(Lp, k)
        return Hp + q, r

    def _structural_cut(self, Hp, Lp, L, k, llo):
        """exact cuts that need no new definitional equation: L = A + 2^j*B with 0 <= A < 2^j, or a single variable"""
        nc = [(m, c) for m, c in L.items() if m]
        if len(nc) == 1 and len(nc[0][0]) == 1:
            v = nc[0][0][0]; c = nc[0][1]; lb, hb = self.bounds[v]
            if hb - lb == 1 and lb in (0, -1):
                # two-valued term: L takes the value c0 (v = 0) or c0 + C (v = +-1): slice both constants
                c0 = L.get((), 0)
                b = Poly.var(v) if lb == 0 else Poly.var(v).scale(-1)     # 0/1 indicator
                C = c if lb == 0 else -c
                K = 1 << k
                q0, r0 = c0 >> k, c0 & (K - 1)
                q1, r1 = (c0 + C) >> k, (c0 + C) & (K - 1)
                return Hp.addc(q0) + b.scale(q1 - q0), Poly.const(r0) + b.scale(r1 - r0)
        if len(L) == 1:
            (m, c), = L.items()
            if len(m) == 1 and c > 0 and (c & (c - 1)) == 0:
                lb, hb = self.bounds[m[0]]
                if lb >= -1 and hb <= 0:       # sign digit: floor and remainder need no new variable
                    j = c.bit_length() - 1
                    qv, rv = self.split_var(m[0], k - j)
                    return Hp + qv, rv.scale(c)
        if llo < 0: return None
        vals = sorted(set((abs(c) & -abs(c)).bit_length() - 1 for c in L.values()), reverse=True)
        for j in vals:
            if j == 0 or j >= k: continue
            J = 1 << j
            A = Poly({m: c for m, c in L.items() if c % J != 0})
            B = Poly({m: c // J for m, c in L.items() if c % J == 0})
            if A.is_zero(): alo = ahi = 0
            else: alo, ahi = self.interval(A)
            blo, _ = self.interval(B)
            if alo >= 0 and ahi < J and blo >= 0:
                qB, rB = self.cut(B, k - j)
                return Hp + qB, A + rB.scale(J)
        if len(L) == 1:
            (m, c), = L.items()
            if len(m) == 1 and c > 0 and (c & (c - 1)) == 0:
                j = c.bit_length() - 1
                qv, rv = self.split_var(m[0], k - j)
                return Hp + qv, rv.scale(c)
        return None

    def sign_bool(self, L, K=None):
        """Poly (0/1 variable) equal to [L < 0]; one variable per distinct L"""
        key = L.key()
        cache = self.__dict__.setdefault("_signcache", {})
        neg = -L
        nlo, nhi = self.interval(neg)
        if nlo >= 0 and nhi <= 1: return neg          # L = -(boolean): [L<0] is that boolean
        if key not in cache:
            v = self.fresh("s", 0, 1)
            if self.shadow is not None: self.shadow[v] = 1 if L.eval(self.shadow) < 0 else 0
            self.__dict__.setdefault("_signdef", {})[v] = L
            from .lsym import Cond
            if K is None:
                self.side.append(("booldef", v, Cond("cmp", "lt", L, ZERO)))
            else:
                # -K <= L < K: s = [L<0]  <=>  0 <= L + K*s < K  (pure range constraint, like a digit)
                e = L + Poly.var(v).scale(K)
                self.side.append(("cond", Cond("and", Cond("cmp", "ge", e, ZERO), Cond("cmp", "lt", e, Poly.const(K)))))
            cache[key] = Poly.var(v)
            self.stats["sign_bools"] = self.stats.get("sign_bools", 0) + 1
        return cache[key]

    def _generic_cut(self, x, k):
        key = x.key()
        D = self.dec.get(key)
        if D is None:
            lo, hi = self.interval(x)
            off = 0
            top = self.fresh("d", lo, hi)
            if self.shadow is not None: self.shadow[top] = x.eval(self.shadow)
            D = dict(x=x, cuts=[0], digs=[top])
            self.dec[key] = D; self.order.append(key); self.owner[top] = key
            self.stats["cuts_generic"] += 1
            if lo < 0:
                # cut a possibly negative value first at its tight width m (x in [-2^m, 2^m)): everything above
                # bit m is then one sign digit, and later cuts above m need no further variables
                m = max((-lo - 1).bit_length(), hi.bit_length())
                if 0 < m < k: self.split_var(top, m)
        q = ZERO; r = ZERO
        cuts, digs = list(D["cuts"]), list(D["digs"])
        for i, (c, d) in enumerate(zip(cuts, digs)):
            nxt = cuts[i + 1] if i + 1 < len(cuts) else None
            if c >= k: q = q + Poly.var(d).scale(1 << (c - k))
            elif nxt is not None and nxt <= k: r = r + Poly.var(d).scale(1 << c)
            else:
                # digit d covers bit k (or is the top digit): split it at k - c
                lo_b, hi_b = self.bounds[d]
                if nxt is None and lo_b >= 0 and hi_b < (1 << (k - c)):
                    r = r + Poly.var(d).scale(1 << c)
                else:
                    qv, rv = self.split_var(d, k - c)
                    q = q + qv; r = r + rv.scale(1 << c)
        return q, r

    def bits(self, x, a, b):
        """Poly for bits [a,b) of x >= 0 (b None: all bits from a up)"""
        if b is not None and b <= a: return ZERO
        q = self.cut(x, a)[0] if a else self.resolve(x)
        if b is None: return q
        return self.cut(q, b - a)[1]

    def wrap(self, x, w):
        """x mod 2^w for possibly negative x"""
        x = self.resolve(x)
        lo, hi = self.interval(x)
        if lo >= 0 and hi < (1 << w): return x
        if lo < 0:
            K = (-lo + (1 << w) - 1) >> w
            x = x.addc(K << w)
        return self.cut(x, w)[1]

    # ------------------------------------------------------------------ elimination
    def definitions(self):
        """[(eliminated_var, defining Poly)] in creation order, using final digit lists"""
        defs = []
        for key in self.order:
            D = self.dec[key]
            x = self.resolve(D["x"])
            rest = ZERO
            for c, d in list(zip(D["cuts"], D["digs"]))[1:]:
                rest = rest + Poly.var(d).scale(1 << c)
            defs.append((D["digs"][0], x - rest, D["cuts"][1] if len(D["cuts"]) > 1 else None))
        return defs

    def expander(self):
        defs = self.definitions()
        cache = {}
        full = {}
        # expand definitions front to back so each is expressed over free variables only
        for v, repl, _ in defs:
            p = self.resolve(repl)
            for u in list(p.vars()):
                if u in full: p = p.subst(u, full[u])
            full[v] = p
        def expand(p):
            p = self.resolve(p)
            for u in [v for v in p.vars() if v in full]:
                p = p.subst(u, full[u])
            return p
        return defs, full, expand
