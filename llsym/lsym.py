"""llsym layer-L executor: symbolic execution of optimised (O3) LLVM IR with integer-polynomial values.

Every iN value is an exact mathematical integer in [0, 2^N) represented as a Poly (or a lazy bit Slice of
one); wrap-around, shifts, masks and truncations become cuts (poly.Ctx); vectors are lists of lanes.
Branches must fold to constants, except branches into panic blocks, which become proof obligations
("this edge is infeasible").  Anything outside the supported subset raises ir.Unsupported.
"""
import re
from .ir import Unsupported, vec_type, int_width, split_top
from .poly import Poly, Slice, Ctx, ZERO, ONE

class PanicReached(Exception): pass
class Ptr:
    __slots__ = ("r", "o")
    def __init__(s, r, o): s.r, s.o = r, o
    def __repr__(s): return "&%s+%d" % (s.r, s.o)
class SymPtr:
    """pointer r + o + idx*stride with a symbolic element index idx in [lo, hi] (layer G: bucket arrays indexed by a digit)"""
    __slots__ = ("r", "o", "idx", "stride", "lo", "hi")
    def __init__(s, r, o, idx, stride, lo, hi): s.r, s.o, s.idx, s.stride, s.lo, s.hi = r, o, idx, stride, lo, hi
    def __repr__(s): return "&%s+%d+[%r in %d..%d]*%d" % (s.r, s.o, s.idx, s.lo, s.hi, s.stride)
class FnPtr:
    def __init__(s, name): s.name = name

class Cond:
    """boolean term over exact integers"""
    __slots__ = ("k", "a")
    def __init__(s, k, *a): s.k, s.a = k, a
    def __repr__(s): return "(%s %s)" % (s.k, " ".join(repr(x) for x in s.a))
TRUE = Cond("const", True); FALSE = Cond("const", False)
def c_not(c):
    if c.k == "const": return Cond("const", not c.a[0])
    if c.k == "not": return c.a[0]
    return Cond("not", c)
def c_and(a, b):
    if a.k == "const": return b if a.a[0] else FALSE
    if b.k == "const": return a if b.a[0] else FALSE
    return Cond("and", a, b)
def c_or(a, b):
    if a.k == "const": return TRUE if a.a[0] else b
    if b.k == "const": return TRUE if b.a[0] else a
    return Cond("or", a, b)

class XorNode:
    __slots__ = ("x", "y", "w")
    def __init__(s, x, y, w): s.x, s.y, s.w = x, y, w
class MaskedXor:
    __slots__ = ("x", "y", "c", "w")
    def __init__(s, x, y, c, w): s.x, s.y, s.c, s.w = x, y, c, w
class Undef:
    pass
UNDEF = Undef()

def runs_of_ones(c):
    out = []; i = 0
    while c >> i:
        if (c >> i) & 1:
            j = i
            while (c >> j) & 1: j += 1
            out.append((i, j)); i = j
        else: i += 1
    return out

_MISSING = object()
class CellDict(dict):
    """memory cells of one region; while a write log is active (fork/merge of branch arms) the previous content of
    every cell is recorded before its first modification"""
    __slots__ = ("wl", "rname")
    def __setitem__(self, k, v):
        wl = self.wl
        if wl[0] is not None:
            key = (self.rname, k)
            if key not in wl[0]: wl[0][key] = dict.get(self, k, _MISSING)
        dict.__setitem__(self, k, v)
    def pop(self, k, *d):
        wl = self.wl
        if wl[0] is not None and k in self:
            key = (self.rname, k)
            if key not in wl[0]: wl[0][key] = dict.get(self, k, _MISSING)
        return dict.pop(self, k, *d)

_V0_INHERENT = re.compile(r'(?<![\w>])<([A-Za-z_][\w:]*)>::')      # not the generic-argument list of a path (LookupTable<T>::select)
class Region:
    def __init__(self, name, size=None, zero=False, kind="mem", wl=None):
        self.name, self.size, self.zero, self.kind = name, size, zero, kind
        self.b = CellDict()          # byte offset -> (value, byte index k within value, value size in bytes)
        self.b.wl = wl if wl is not None else [None]; self.b.rname = name
        self.freed = False

class LSym:
    def __init__(self, mod, ctx=None, intercept=None, max_steps=5_000_000):
        self.mod = mod
        self.ctx = ctx or Ctx()
        self.regions = {}
        self.nreg = 0
        self.obligations = []     # (description, Cond that must be unsatisfiable, path assumptions snapshot)
        self.path = []            # Conds assumed along the path (negated panic edges)
        self.intercept = intercept or []
        self.steps = 0; self.max_steps = max_steps
        self.calls = {}
        self.doomed_cache = {}
        self.block_hook = None    # f(self, fn, label, env, prev) -> None
        self.allow_symbolic_branch = None  # callback(fn, cond) -> bool or None
        self.trace = None
        self.heap = []
        self.fake_bases = {}
        self.panic_edges_closed = 0   # branches into panic blocks decided infeasible by interval arithmetic alone
        self.events = []          # ('branch', fn, cond) / ('addr', ...) records for relational checks
        self.record_events = False
        self.n_branches = 0; self.n_addrs = 0; self.cur_call_rty = None
        self.wl = [None]          # active write log (shared with every region's CellDict)
        self.merges = 0; self._ipdom = {}

    # ------------------------------------------------------------------ memory
    def new_region(self, tag, size=None, zero=False, kind="mem"):
        self.nreg += 1
        name = "%s#%d" % (tag, self.nreg)
        self.regions[name] = Region(name, size, zero, kind, wl=self.wl)
        return Ptr(name, 0)
    def global_region(self, gname):
        name = "global:" + gname
        if gname in getattr(self.mod, "ambiguous", ()): raise Unsupported("global %s is defined differently in two linked modules" % gname)
        if name not in self.regions:
            size, items = self.mod.global_init(gname)
            R = Region(name, size, kind="global", wl=self.wl); self.regions[name] = R
            for off, kind, payload in items:
                if kind == "bytes":
                    for i, bv in enumerate(payload): R.b[off + i] = (Poly.const(bv), 0, 1)
                else:
                    pv = self.const_ptr(payload)
                    for i in range(8): R.b[off + i] = (pv, i, 8)
        return Ptr(name, 0)
    def const_ptr(self, txt):
        txt = txt.strip()
        if txt.startswith("@"):
            g = txt[1:].strip('"')
            g = self.mod.aliases.get(g, g)
            if g in self.mod.funcs or g in self.mod.decls: return FnPtr(g)
            return self.global_region(g)
        m = re.match(r'getelementptr\s+(?:inbounds\s+|nuw\s+|nusw\s+)*\((.*)\)$', txt)
        if m:
            parts = split_top(m.group(1))
            ty = parts[0]; base = self.const_ptr(parts[1].split(None, 1)[1])
            off = 0; cur = ty
            idx = [int(p.split()[-1]) for p in parts[2:]]
            off += idx[0] * self.mod.sizeof(ty)
            for i in idx[1:]:
                o, cur = self.mod.field_offset(cur, i); off += o
            return Ptr(base.r, base.o + off)
        m = re.match(r'inttoptr\s*\(i64\s+(\d+)\s+to\s+ptr\)$', txt)
        if m: return Ptr("null", int(m.group(1)))       # dangling pointer of an empty Vec / ZST
        raise Unsupported("constant pointer expression " + txt[:80])

    def store(self, p, v, size):
        if not isinstance(p, Ptr): raise Unsupported("store through non-pointer %r" % (p,))
        R = self.regions[p.r]
        if R.kind == "global" and False: raise Unsupported("store to global")
        if isinstance(v, list):
            es = size // len(v)
            for i, lane in enumerate(v): self.store(Ptr(p.r, p.o + i * es), lane, es)
            return
        for k in range(size): R.b[p.o + k] = (v, k, size)
    def load(self, p, size, lanes=None):
        if not isinstance(p, Ptr): raise Unsupported("load through non-pointer %r" % (p,))
        if lanes:
            es = size // lanes
            return [self.load(Ptr(p.r, p.o + i * es), es) for i in range(lanes)]
        R = self.regions[p.r]
        ents = [R.b.get(p.o + k) for k in range(size)]
        if any(e is None for e in ents):
            if R.zero: ents = [e if e is not None else (ZERO, 0, 1) for e in ents]
            elif all(e is None for e in ents): return UNDEF
            else: ents = [e if e is not None else (UNDEF, 0, 1) for e in ents]
        v0, k0, s0 = ents[0]
        if s0 == size and k0 == 0 and all(e[0] is v0 and e[1] == i for i, e in enumerate(ents)): return v0
        # composite
        total = ZERO; i = 0
        while i < size:
            v, k, s = ents[i]
            n = 1
            while i + n < size and ents[i + n][0] is v and ents[i + n][1] == k + n: n += 1
            if isinstance(v, (Ptr, FnPtr)): raise Unsupported("partial load of a pointer")
            if v is UNDEF: raise Unsupported("partial load of undef at %r" % (p,))
            part = self.P(v) if (k == 0 and n == s) else self.ctx.bits(self.P(v), 8 * k, 8 * (k + n))
            total = total + part.scale(1 << (8 * i))
            i += n
        return total
    def memcpy(self, d, s, n):
        S = self.regions[s.r]; D = self.regions[d.r]
        items = [(k, S.b.get(s.o + k)) for k in range(n)]
        for k, e in items:
            if e is None:
                if S.zero: D.b[d.o + k] = (ZERO, 0, 1)
                else: D.b.pop(d.o + k, None)
            else: D.b[d.o + k] = e
    def memset(self, d, val, n):
        D = self.regions[d.r]
        v = self.P(val)
        for k in range(n): D.b[d.o + k] = (v, 0, 1)

    # ------------------------------------------------------------------ values
    def P(self, v):
        """materialise a scalar value as a Poly"""
        if isinstance(v, Poly): return v
        if isinstance(v, int): return Poly.const(v)
        if isinstance(v, Slice): return self.ctx.bits(v.x, v.a, v.b)
        if isinstance(v, Cond): return self.boolvar(v)
        if v is UNDEF:
            u = self.ctx.fresh("u", 0, (1 << 64) - 1)
            if self.ctx.shadow is not None: self.ctx.shadow[u] = 0
            return Poly.var(u)
        if isinstance(v, MaskedXor) or isinstance(v, XorNode):
            raise Unsupported("xor value used arithmetically")
        raise Unsupported("cannot use %r as integer" % (v,))
    def U(self, v, w):
        """a Poly congruent to v modulo 2^w (does not force the canonical representative)"""
        if isinstance(v, Slice) and v.a == 0 and (v.b is None or v.b >= w): return v.x
        return self.P(v)
    def boolvar(self, c):
        r = self.eval_cond(c)
        if r is not None: return ONE if r else ZERO
        key = repr(c)
        cache = self.ctx.__dict__.setdefault("_boolcache", {})
        if key in cache: return cache[key]
        v = self.ctx.fresh("c", 0, 1)
        if self.ctx.shadow is not None: self.ctx.shadow[v] = 1 if self.shadow_cond(c) else 0
        self.ctx.side.append(("booldef", v, c))
        cache[key] = Poly.var(v)
        return cache[key]
    def shadow_cond(self, c):
        k = c.k; sh = self.ctx.shadow
        if k == "const": return c.a[0]
        if k == "not": return not self.shadow_cond(c.a[0])
        if k == "and": return self.shadow_cond(c.a[0]) and self.shadow_cond(c.a[1])
        if k == "or": return self.shadow_cond(c.a[0]) or self.shadow_cond(c.a[1])
        if k == "cmp":
            v = self.ctx.resolve(c.a[1] - c.a[2]).eval(sh)
            return {"eq": v == 0, "ne": v != 0, "lt": v < 0, "le": v <= 0, "gt": v > 0, "ge": v >= 0}[c.a[0]]
        if k in ("modne", "modeq"):
            z = self.ctx.resolve(c.a[0]).eval(sh) % c.a[1] == 0
            return z == (k == "modeq")
        raise ValueError(k)
    def is_bool(self, p):
        p = self.ctx.resolve(p)
        lo, hi = self.ctx.interval(p)
        if lo >= 0 and hi <= 1: return True
        # polynomial over 0/1 variables (e.g. hb - hb*x): exhaustive evaluation over its variables
        vs = sorted(p.vars())
        bs = [self.ctx.bounds.get(v) for v in vs]
        if 0 < len(vs) <= 10 and all(b is not None and b[1] - b[0] <= 1 for b in bs):
            import itertools
            for vals in itertools.product(*[range(b[0], b[1] + 1) for b in bs]):
                if p.eval(dict(zip(vs, vals))) not in (0, 1): return False
            return True
        return False
    def as_mask(self, p, w):
        """if p == m*(2^w-1) with boolean m, return m"""
        p = self.ctx.resolve(p)
        M = (1 << w) - 1
        if p.is_zero(): return None
        if all(c % M == 0 for c in p.t.values()):
            m = p.divexact(M)
            if self.is_bool(m): return m
        return None
    def mk_slice(self, v, a, b, w=None):
        if isinstance(v, Slice):
            na = v.a + a
            nb = None if b is None else v.a + b
            if v.b is not None: nb = v.b if nb is None else min(nb, v.b)
            if nb is not None and nb <= na: return ZERO
            return Slice(v.x, na, nb)
        p = self.P(v)
        if p.is_const():
            c = p.cval() >> a
            if b is not None: c &= (1 << (b - a)) - 1
            return Poly.const(c)
        return Slice(p, a, b)
    def wrapv(self, r, w):
        r = self.ctx.resolve(r)
        lo, hi = self.ctx.interval(r)
        if lo >= 0 and hi < (1 << w): return r
        W = 1 << w
        # coefficients are only meaningful modulo 2^w: use the symmetric representative (e.g. 2^w-1 -> -1)
        if any(m and (c % W) > (W >> 1) and (c % W) != c - W * (c // W) + 0 or (m and not (-(W >> 1) < c <= (W >> 1))) for m, c in r.t.items()):
            t = {}
            for m, c in r.t.items():
                if m:
                    c2 = c % W
                    if c2 > (W >> 1): c2 -= W
                    if c2: t[m] = c2
                else: t[m] = c
            r = Poly(t); lo, hi = self.ctx.interval(r)
            if lo >= 0 and hi < W: return r
        if hi - lo < 2 * W:
            j = lo >> w
            if hi - j * W >= W:
                j += 1
                if not (lo - j * W >= -W and hi - j * W < W): j = None
            if j is not None:
                r = r.addc(-j * W); lo -= j * W; hi -= j * W
                if lo >= 0: return r
                return Slice(r.addc(W), 0, w)
        if lo < 0:
            K = (-lo + W - 1) >> w
            r = r.addc(K << w)
        return Slice(r, 0, w)

    def eval_cond(self, c):
        """True/False if decided by intervals, else None"""
        k = c.k
        if k == "const": return c.a[0]
        if k == "not":
            r = self.eval_cond(c.a[0]); return None if r is None else (not r)
        if k == "and":
            a, b = self.eval_cond(c.a[0]), self.eval_cond(c.a[1])
            if a is False or b is False: return False
            if a is True and b is True: return True
            return None
        if k == "or":
            a, b = self.eval_cond(c.a[0]), self.eval_cond(c.a[1])
            if a is True or b is True: return True
            if a is False and b is False: return False
            return None
        if k == "cmp":
            pred, A, B = c.a
            d = self.ctx.resolve(A - B)
            if d.is_const():
                v = d.cval()
                return {"eq": v == 0, "ne": v != 0, "lt": v < 0, "le": v <= 0, "gt": v > 0, "ge": v >= 0}[pred]
            lo, hi = self.ctx.interval(d)
            if pred == "eq": return False if (lo > 0 or hi < 0) else None
            if pred == "ne": return True if (lo > 0 or hi < 0) else None
            if pred == "lt": return True if hi < 0 else (False if lo >= 0 else None)
            if pred == "le": return True if hi <= 0 else (False if lo > 0 else None)
            if pred == "gt": return True if lo > 0 else (False if hi <= 0 else None)
            if pred == "ge": return True if lo >= 0 else (False if hi < 0 else None)
        return None

    def signed(self, p, w):
        t = self.ctx.bits(p, w - 1, w)
        return p - t.scale(1 << w)

    # ------------------------------------------------------------------ scalar ops
    def binop(self, op, w, a, b, flags):
        if isinstance(a, list) or isinstance(b, list):
            n = len(a) if isinstance(a, list) else len(b)
            if not isinstance(a, list): a = [a] * n
            if not isinstance(b, list): b = [b] * n
            # a lane computed from an undef / poison lane is poison (LLVM leaves the lanes it does not need undefined); it is never used
            return [(UNDEF if (x is UNDEF or y is UNDEF) else self.binop(op, w, x, y, flags)) for x, y in zip(a, b)]
        ctx = self.ctx
        if op == "xor": return self.op_xor(w, a, b)
        if op == "and": return self.op_and(w, a, b)
        if op == "or": return self.op_or(w, a, b, flags)
        if op == "lshr":
            kb = self.P(b)
            if not kb.is_const(): raise Unsupported("lshr by symbolic amount")
            k = kb.cval()
            if k >= w: return ZERO
            if isinstance(a, Slice): return self.mk_slice(a, k, None)
            pa = self.P(a)
            return self.mk_slice(pa, k, None)
        if op == "shl":
            kb = self.P(b)
            if not kb.is_const(): raise Unsupported("shl by symbolic amount")
            k = kb.cval()
            if k >= w: return ZERO
            if isinstance(a, Slice) and a.b is None and False: pass
            pa = self.P(self.mk_slice(a, 0, w - k)) if not isinstance(a, int) else Poly.const(a & ((1 << (w - k)) - 1))
            return pa.scale(1 << k)
        if op == "ashr":
            kb = self.P(b)
            if not kb.is_const(): raise Unsupported("ashr by symbolic amount")
            k = kb.cval(); pa = self.P(a)
            t = ctx.bits(pa, w - 1, w)
            hi = ctx.bits(pa, k, w)
            return hi + t.scale((1 << w) - (1 << (w - k)))
        if op in ("add", "sub", "mul"):
            # ring operations commute with reduction mod 2^w: use the unwrapped representative of lazily
            # wrapped operands, so chains of wrapping_add/sub (Karatsuba) need no wrap digits at all
            ua, ub = self.U(a, w), self.U(b, w)
            if op == "add": return self.wrapv(ua + ub, w)
            if op == "sub":
                if ua.is_zero() and self.is_bool(ub): return ub.scale((1 << w) - 1)
                return self.wrapv(ua - ub, w)
            return self.wrapv(ua * ub, w)
        pa, pb = self.P(a), self.P(b)
        if op in ("udiv", "urem"):
            if pb.is_const() and pb.cval() > 0 and (pb.cval() & (pb.cval() - 1)) == 0:
                k = pb.cval().bit_length() - 1
                q, r = ctx.cut(pa, k)
                return q if op == "udiv" else r
            if pa.is_const() and pb.is_const() and pb.cval():
                return Poly.const(pa.cval() // pb.cval() if op == "udiv" else pa.cval() % pb.cval())
            raise Unsupported("division by non power of two")
        raise Unsupported("binop " + op)

    def op_and(self, w, a, b):
        if isinstance(a, XorNode) or isinstance(b, XorNode):
            x, o = (a, b) if isinstance(a, XorNode) else (b, a)
            m = self.as_mask(self.P(o), w)
            if m is None:
                po = self.P(o)
                if po.is_const() and po.cval() == (1 << w) - 1: return x
                raise Unsupported("and of xor-node with non-mask")
            return MaskedXor(x.x, x.y, m, w)
        pa_c = isinstance(a, (int,)) or (isinstance(a, Poly) and a.is_const())
        pb_c = isinstance(b, (int,)) or (isinstance(b, Poly) and b.is_const())
        if pa_c and not pb_c: a, b, pa_c, pb_c = b, a, pb_c, pa_c
        if pb_c:
            c = self.P(b).cval() & ((1 << w) - 1)
            if c == 0: return ZERO
            if pa_c: return Poly.const(self.P(a).cval() & c)
            runs = runs_of_ones(c)
            if len(runs) == 1 and runs[0][0] == 0: return self.mk_slice(a, 0, runs[0][1])
            tot = ZERO
            for lo, hi in runs:
                tot = tot + self.P(self.mk_slice(a, lo, hi)).scale(1 << lo)
            return tot
        pa, pb = self.P(a), self.P(b)
        m = self.as_mask(pa, w)
        if m is not None: return m * pb
        m = self.as_mask(pb, w)
        if m is not None: return m * pa
        if self.is_bool(pa) and self.is_bool(pb): return pa * pb
        if self.is_bool(pa): return pa * self.ctx.bits(pb, 0, 1)
        if self.is_bool(pb): return pb * self.ctx.bits(pa, 0, 1)
        raise Unsupported("and of two symbolic non-mask values %r, %r" % (pa, pb))

    def op_or(self, w, a, b, flags):
        pa, pb = self.P(a), self.P(b)
        if pa.is_zero(): return pb
        if pb.is_zero(): return pa
        if pa.is_const() and pb.is_const(): return Poly.const(pa.cval() | pb.cval())
        if "disjoint" in flags: return pa + pb
        ra, rb = self.ctx.resolve(pa), self.ctx.resolve(pb)
        la, ha = self.ctx.interval(ra); lb, hb = self.ctx.interval(rb)
        if la >= 0 and ha < (1 << min(rb.tz(), 4096)): return pa + pb
        if lb >= 0 and hb < (1 << min(ra.tz(), 4096)): return pa + pb
        if self.is_bool(pa) and self.is_bool(pb): return pa + pb - pa * pb
        # x | c  for a constant c:  x - (x & c) + c   (the bits of c are forced to one)
        if pb.is_const() or pa.is_const():
            x, c = (pa, pb) if pb.is_const() else (pb, pa)
            return x - self.P(self.op_and(w, x, c)) + c
        raise Unsupported("or of overlapping symbolic values")

    def op_xor(self, w, a, b):
        if isinstance(b, MaskedXor): a, b = b, a
        if isinstance(a, MaskedXor):
            pb = self.P(b)
            px, py = self.P(a.x), self.P(a.y)
            if (pb - px).is_zero(): return px + a.c * (py - px)
            if (pb - py).is_zero(): return py + a.c * (px - py)
            raise Unsupported("masked xor pattern mismatch")
        if isinstance(a, XorNode) or isinstance(b, XorNode):
            x, o = (a, b) if isinstance(a, XorNode) else (b, a)
            po = self.P(o)
            if (po - self.P(x.x)).is_zero(): return x.y
            if (po - self.P(x.y)).is_zero(): return x.x
            raise Unsupported("xor of xor-node")
        pa, pb = self.P(a), self.P(b)
        if pa.is_const() and not pb.is_const(): pa, pb = pb, pa
        if pb.is_const():
            c = pb.cval() & ((1 << w) - 1)
            if pa.is_const(): return Poly.const(pa.cval() ^ c)
            if c == 0: return pa
            if c == (1 << w) - 1: return Poly.const(c) - pa
            if self.is_bool(pa) and c == 1: return ONE - pa
            tot = pa
            for lo, hi in runs_of_ones(c):
                s = self.ctx.bits(pa, lo, hi)
                tot = tot + (Poly.const((1 << (hi - lo)) - 1) - s - s).scale(1 << lo)
            return tot
        if (pa - pb).is_zero(): return ZERO
        if self.is_bool(pa) and self.is_bool(pb): return pa + pb - (pa * pb).scale(2)
        ra, rb = self.ctx.resolve(pa), self.ctx.resolve(pb)
        la, ha = self.ctx.interval(ra); lb, hb = self.ctx.interval(rb)
        if la >= 0 and ha < (1 << min(rb.tz(), 4096)): return pa + pb      # disjoint bit supports: xor = add
        if lb >= 0 and hb < (1 << min(ra.tz(), 4096)): return pa + pb
        return XorNode(pa, pb, w)

    def icmp(self, pred, ty, a, b):
        if isinstance(a, list) or isinstance(b, list):
            n = len(a) if isinstance(a, list) else len(b)
            if not isinstance(a, list): a = [a] * n
            if not isinstance(b, list): b = [b] * n
            et = vec_type(ty)[1]
            return [self.icmp(pred, et, x, y) for x, y in zip(a, b)]
        if isinstance(a, (Ptr, FnPtr)) or isinstance(b, (Ptr, FnPtr)):
            def pk(x):
                if isinstance(x, Ptr): return (x.r, x.o)
                if isinstance(x, FnPtr): return ("fn", x.name)
                px = self.P(x)
                if px.is_const() and px.cval() == 0: return ("null", 0)
                raise Unsupported("pointer compared with integer")
            ka, kb = pk(a), pk(b)
            if pred == "eq": return Cond("const", ka == kb)
            if pred == "ne": return Cond("const", ka != kb)
            if ka[0] == kb[0]:
                return Cond("const", {"ult": ka[1] < kb[1], "ule": ka[1] <= kb[1], "ugt": ka[1] > kb[1], "uge": ka[1] >= kb[1]}[pred])
            if isinstance(a, Ptr) and isinstance(b, Ptr) and "null" not in (a.r, b.r):
                # pointers into DIFFERENT objects are only ordered by overlap pre-condition checks (copy_nonoverlapping under debug assertions):
                # distinct objects are disjoint whatever their order, so the fake base addresses (distinct, 2^24 apart) decide it
                xa = self.fake_bases.setdefault(a.r, (len(self.fake_bases) + 1) << 24) + a.o
                xb = self.fake_bases.setdefault(b.r, (len(self.fake_bases) + 1) << 24) + b.o
                return Cond("const", {"ult": xa < xb, "ule": xa <= xb, "ugt": xa > xb, "uge": xa >= xb}[pred])
            raise Unsupported("ordering of pointers into different objects")
        w = int_width(ty)
        if isinstance(a, XorNode) and pred in ("eq", "ne"):
            pb = self.P(b)
            if pb.is_zero():
                c = Cond("cmp", "eq", a.x, a.y); return c if pred == "eq" else c_not(c)
        if isinstance(a, Cond) and isinstance(b, (int, Poly)) :
            pb = self.P(b)
            if pb.is_const() and pred in ("eq", "ne"):
                t = (pb.cval() & 1) == 1
                c = a if t else c_not(a)
                return c if pred == "eq" else c_not(c)
        pa, pb = self.P(a), self.P(b)
        if pred[0] == "s":
            pa, pb = self.signed(pa, w), self.signed(pb, w)
        mp = {"eq": "eq", "ne": "ne", "ult": "lt", "ule": "le", "ugt": "gt", "uge": "ge",
              "slt": "lt", "sle": "le", "sgt": "gt", "sge": "ge"}[pred]
        c = Cond("cmp", mp, pa, pb)
        r = self.eval_cond(c)
        return c if r is None else Cond("const", r)

    def select(self, c, a, b):
        if isinstance(c, list):
            if not isinstance(a, list): a = [a] * len(c)
            if not isinstance(b, list): b = [b] * len(c)
            return [self.select(x, y, z) for x, y, z in zip(c, a, b)]
        if isinstance(a, list):
            return [self.select(c, y, z) for y, z in zip(a, b)]
        cc = self.to_cond(c)
        r = self.eval_cond(cc)
        if r is not None: return a if r else b
        if isinstance(a, (Ptr, FnPtr)) or isinstance(b, (Ptr, FnPtr)):
            raise Unsupported("select between pointers on symbolic condition")
        cv = self.boolvar(cc)
        pa, pb = self.P(a), self.P(b)
        return pb + cv * (pa - pb)
    def to_cond(self, v):
        if isinstance(v, Cond): return v
        p = self.P(v)
        if p.is_const(): return Cond("const", bool(p.cval() & 1))
        if self.is_bool(p): return Cond("cmp", "ne", p, ZERO)
        return Cond("cmp", "ne", self.ctx.bits(p, 0, 1), ZERO)

    def cast(self, kind, fty, v, tty):
        if isinstance(v, list) and kind != "bitcast":
            et = vec_type(fty)[1]; tt = vec_type(tty)[1]
            return [self.cast(kind, et, x, tt) for x in v]
        if kind == "freeze": return v
        if kind == "ptrtoint":
            if isinstance(v, Ptr):
                # only alignment / null tests consume pointer integers in the code under analysis: every object
                # gets a distinct, 4096-aligned fake base address
                if v.r == "null": return Poly.const(v.o)
                base = self.fake_bases.setdefault(v.r, (len(self.fake_bases) + 1) << 24)
                return Poly.const(base + v.o)
            return v
        if kind == "inttoptr":
            if isinstance(v, (Ptr, FnPtr)): return v
            pv = self.P(v)
            if pv.is_const():
                for r, b in self.fake_bases.items():
                    if b <= pv.cval() < b + (1 << 24): return Ptr(r, pv.cval() - b)
                return Ptr("null", pv.cval())
            raise Unsupported("inttoptr of symbolic integer")
        if kind == "bitcast":
            fv, tv = vec_type(fty), vec_type(tty)
            if fty == tty or (not fv and not tv): return v
            lanes = v if isinstance(v, list) else [v]
            fw = int_width(fv[1]) if fv else int_width(fty)
            tw = int_width(tv[1]) if tv else int_width(tty)
            out = []
            if fw < tw:
                g = tw // fw
                for i in range(0, len(lanes), g):
                    tot = ZERO
                    for j in range(g): tot = tot + self.P(lanes[i + j]).scale(1 << (fw * j))
                    out.append(tot)
            elif fw > tw:
                g = fw // tw
                for x in lanes:
                    for j in range(g): out.append(self.mk_slice(x, tw * j, tw * (j + 1)))
            else: out = lanes
            return out if tv else out[0]
        fw, tw = int_width(fty), int_width(tty)
        if kind == "zext":
            if isinstance(v, Cond): return self.boolvar(v)
            return v
        if kind == "trunc":
            if isinstance(v, (XorNode, MaskedXor)): raise Unsupported("trunc of xor node")
            if tw == 1:
                if isinstance(v, Cond): return v
                return self.mk_slice(v, 0, 1)
            if isinstance(v, Cond): return self.boolvar(v)
            return self.mk_slice(v, 0, tw)
        if kind == "sext":
            if isinstance(v, Cond) or fw == 1:
                return self.P(v).scale((1 << tw) - 1)
            p = self.P(v)
            t = self.ctx.bits(p, fw - 1, fw)
            return p + t.scale((1 << tw) - (1 << fw))
        raise Unsupported("cast " + kind)

    # ------------------------------------------------------------------ operands
    def const_of_type(self, ty, what):
        v = vec_type(ty)
        if v: return [self.const_of_type(v[1], what) for _ in range(v[0])]
        if ty == "ptr": return Ptr("null", 0) if what == "zero" else UNDEF
        return ZERO if what == "zero" else UNDEF
    def opval(self, env, o, ty=None):
        k = o[0]
        if k == "r":
            try: return env[o[1]]
            except KeyError: raise Unsupported("use of undefined register " + o[1])
        if k == "i":
            if ty and ty != "ptr" and not vec_type(ty):
                w = int_width(ty); return Poly.const(o[1] & ((1 << w) - 1))
            return Poly.const(o[1])
        if k == "g": return self.const_ptr("@" + o[1])
        if k == "null": return Ptr("null", 0)
        if k == "undef": return self.const_of_type(ty, "undef") if ty else UNDEF
        if k == "zero": return self.const_of_type(ty, "zero") if ty else ZERO
        if k == "vec":
            et = vec_type(ty)[1] if ty and vec_type(ty) else None
            return [self.opval(env, x, et) for x in o[1]]
        if k == "splat":
            n, et = vec_type(ty)
            v = self.opval(env, o[1], et)
            return [v] * n
        if k == "cexpr": return self.const_ptr(o[1])
        if k == "agg": return [self.opval(env, x, t) for t, x in o[1]]
        raise Unsupported("operand kind " + k)

    # ------------------------------------------------------------------ control
    def doomed(self, fn):
        """set of block labels from which every path ends in `unreachable` (panic blocks)"""
        d = self.doomed_cache.get(fn.name)
        if d is not None: return d
        succ = {}
        term = {}
        for lab in fn.order:
            ins = fn.block(lab)
            t = ins[-1]
            term[lab] = t[0]
            if t[0] == "br": succ[lab] = [t[2]]
            elif t[0] == "condbr": succ[lab] = [t[3], t[4]]
            elif t[0] == "switch": succ[lab] = [t[4]] + [c[1] for c in t[5]]
            elif t[0] == "invoke": succ[lab] = [t[5], t[6]]
            else: succ[lab] = []
        d = set(l for l in fn.order if term[l] == "unreachable")
        # resume blocks (unwinding) also count as non-returning for our purposes
        d |= set(l for l in fn.order if term[l] == "resume")
        changed = True
        while changed:
            changed = False
            for l in fn.order:
                if l not in d and succ[l] and all(s in d for s in succ[l]):
                    d.add(l); changed = True
        self.doomed_cache[fn.name] = d
        return d

    def call(self, name, args, comment=None):
        if name in getattr(self.mod, "ambiguous", ()): raise Unsupported("symbol %s is defined differently in two linked modules" % name)
        name = self.mod.aliases.get(name, name)
        self.calls[name] = self.calls.get(name, 0) + 1
        if comment and "<" in comment:
            # the nightly (v0) demangling writes inherent methods as <path::Type>::method; the interceptor patterns use path::Type::method
            comment = _V0_INHERENT.sub(r'\1::', comment)
        for pat, f in self.intercept:
            if re.search(pat, name) or (comment and re.search(pat, comment)):
                return f(self, args, comment or name)
        if name.startswith("llvm."): return self.intrinsic(name, args)
        fn = self.mod.funcs.get(name)
        if fn is None:
            if "panic" in name or "expect_failed" in name or "unwrap_failed" in name or "slice_index" in name \
               or "_fail" in name or "handle_alloc_error" in name or "capacity_overflow" in name:
                raise PanicReached(name)
            return self.external(name, args)
        return self.run(fn, args)

    def external(self, name, args):
        if name in ("__rust_alloc", "__rust_alloc_zeroed") or name.endswith("__rust_alloc") or name.endswith("__rust_alloc_zeroed") \
           or "__rust_alloc" in name and "realloc" not in name and "dealloc" not in name:
            n = self.P(args[0])
            if not n.is_const(): raise Unsupported("allocation of symbolic size")
            p = self.new_region("heap", n.cval(), zero=("zeroed" in name), kind="heap")
            self.heap.append(p.r)
            return p
        if "__rust_realloc" in name:
            # (ptr, old_size, align, new_size): a fresh block, the common prefix copied, the old block released
            p = args[0]; old = self.P(args[1]); new = self.P(args[3])
            if not (isinstance(p, Ptr) and old.is_const() and new.is_const()): raise Unsupported("realloc of symbolic size")
            q = self.new_region("heap", new.cval(), kind="heap"); self.heap.append(q.r)
            src = self.regions[p.r]; dst = self.regions[q.r]
            for o, e in list(src.b.items()):
                if o < min(old.cval(), new.cval()): dst.b[o] = e
            self.on_dealloc(p, [p, args[1], args[2]])
            src.freed = True
            return q
        if "__rust_dealloc" in name:
            p = args[0]
            if isinstance(p, Ptr) and p.r in self.regions:
                self.on_dealloc(p, args)
                self.regions[p.r].freed = True
            return None
        if "__rust_no_alloc_shim_is_unstable" in name: return None
        if name in ("memcmp", "bcmp"):
            n = self.P(args[2])
            if not n.is_const(): raise Unsupported("memcmp of symbolic length")
            xs = [self.P(self.load(Ptr(args[0].r, args[0].o + k), 1)) for k in range(n.cval())]
            ys = [self.P(self.load(Ptr(args[1].r, args[1].o + k), 1)) for k in range(n.cval())]
            diffs = [self.ctx.resolve(x - y) for x, y in zip(xs, ys)]
            for d in diffs:
                if d.is_zero(): continue
                if d.is_const(): return Poly.const(1 if d.cval() > 0 else (1 << 32) - 1)
                return self.symbolic_memcmp(xs, ys, diffs)
            return ZERO
        raise Unsupported("call to external function " + name)
    def symbolic_memcmp(self, xs, ys, diffs):
        raise Unsupported("memcmp of symbolic bytes")
    def on_dealloc(self, p, args): pass
    # hooks of the taint engine (llsym/tsym.py): the base engine has no secret values
    def sym_gep(self, base, idx, stride): return None
    def is_secret(self, v): return False
    def leak(self, kind, what, fn=None, lab=None, ins=None): raise Unsupported(what)

    def intrinsic(self, name, a):
        if name.startswith("llvm.lifetime") or name.startswith("llvm.experimental.noalias") or name.startswith("llvm.dbg") \
           or name.startswith("llvm.assume") or name.startswith("llvm.prefetch"): return None
        if name.startswith("llvm.memcpy") or name.startswith("llvm.memmove"):
            n = self.P(a[2])
            if not n.is_const(): raise Unsupported("memcpy of symbolic length")
            self.memcpy(a[0], a[1], n.cval()); return None
        if name.startswith("llvm.memset"):
            n = self.P(a[2])
            if not n.is_const(): raise Unsupported("memset of symbolic length")
            self.memset(a[0], a[1], n.cval()); return None
        m = re.match(r'llvm\.(u|s)(add|sub|mul)\.with\.overflow\.i(\d+)', name)
        if m:
            sg, op, w = m.group(1), m.group(2), int(m.group(3))
            pa, pb = self.P(a[0]), self.P(a[1])
            if sg == "s": pa, pb = self.signed(pa, w), self.signed(pb, w)
            r = pa + pb if op == "add" else (pa - pb if op == "sub" else pa * pb)
            if sg == "u":
                ov = c_or(Cond("cmp", "lt", r, ZERO), Cond("cmp", "ge", r, Poly.const(1 << w)))
            else:
                ov = c_or(Cond("cmp", "lt", r, Poly.const(-(1 << (w - 1)))), Cond("cmp", "ge", r, Poly.const(1 << (w - 1))))
            e = self.eval_cond(ov)
            if e is not None: ov = Cond("const", e)
            return [self.wrapv(r, w), ov]
        m = re.match(r'llvm\.fsh(l|r)\.i(\d+)', name)
        if m:
            w = int(m.group(2)); k = self.P(a[2])
            if not k.is_const(): raise Unsupported("funnel shift by symbolic amount")
            k = k.cval() % w
            if m.group(1) == "r": k = (w - k) % w
            if k == 0: return a[0]
            hi = self.P(self.mk_slice(a[0], 0, w - k)).scale(1 << k)
            lo = self.P(self.mk_slice(a[1], w - k, w))
            return hi + lo
        m = re.match(r'llvm\.u(add|sub)\.sat\.i(\d+)', name)
        if m:
            w = int(m.group(2)); pa, pb = self.P(a[0]), self.P(a[1])
            if m.group(1) == "add":
                r = pa + pb; c = Cond("cmp", "ge", r, Poly.const(1 << w))
                return self.select(c, Poly.const((1 << w) - 1), r)
            r = pa - pb; c = Cond("cmp", "lt", r, ZERO)
            return self.select(c, ZERO, r)
        m = re.match(r'llvm\.s(add|sub)\.sat\.i(\d+)', name)
        if m:
            w = int(m.group(2)); pa, pb = self.signed(self.P(a[0]), w), self.signed(self.P(a[1]), w)
            r = pa + pb if m.group(1) == "add" else pa - pb
            hi = Cond("cmp", "ge", r, Poly.const(1 << (w - 1))); lo = Cond("cmp", "lt", r, Poly.const(-(1 << (w - 1))))
            eh, el = self.eval_cond(hi), self.eval_cond(lo)
            if eh is True: return Poly.const((1 << (w - 1)) - 1)
            if el is True: return Poly.const(1 << (w - 1))
            v = self.wrapv(r, w)
            if eh is not False: v = self.select(hi, Poly.const((1 << (w - 1)) - 1), v)
            if el is not False: v = self.select(lo, Poly.const(1 << (w - 1)), v)
            return v
        m = re.match(r'llvm\.(umin|umax)\.i(\d+)', name)
        if m:
            pa, pb = self.P(a[0]), self.P(a[1])
            c = Cond("cmp", "lt", pa, pb)
            return self.select(c, a[0], a[1]) if m.group(1) == "umin" else self.select(c, a[1], a[0])
        m = re.match(r'llvm\.(smin|smax)\.i(\d+)', name)
        if m:
            w = int(m.group(2))
            c = Cond("cmp", "lt", self.signed(self.P(a[0]), w), self.signed(self.P(a[1]), w))
            return self.select(c, a[0], a[1]) if m.group(1) == "smin" else self.select(c, a[1], a[0])
        m = re.match(r'llvm\.(ctpop|cttz|ctlz)\.i(\d+)', name)
        if m:
            pa = self.P(a[0]); w = int(m.group(2))
            if not pa.is_const(): raise Unsupported("bit counting of symbolic value")
            v = pa.cval()
            if m.group(1) == "ctpop": return Poly.const(bin(v).count("1"))
            if m.group(1) == "cttz": return Poly.const(w if v == 0 else (v & -v).bit_length() - 1)
            return Poly.const(w - v.bit_length())
        m = re.match(r'llvm\.bswap\.i(\d+)', name)
        if m:
            w = int(m.group(1)); n = w // 8; p = self.P(a[0]); tot = ZERO
            for i in range(n): tot = tot + self.ctx.bits(p, 8 * i, 8 * i + 8).scale(1 << (8 * (n - 1 - i)))
            return tot
        m = re.match(r'llvm\.(u|s)cmp\.i(\d+)\.i(\d+)', name)
        if m:
            rw, w = int(m.group(2)), int(m.group(3))
            pa, pb = self.P(a[0]), self.P(a[1])
            if m.group(1) == "s": pa, pb = self.signed(pa, w), self.signed(pb, w)
            lt = self.boolvar(Cond("cmp", "lt", pa, pb)); gt = self.boolvar(Cond("cmp", "gt", pa, pb))
            return gt + lt.scale((1 << rw) - 1)
        if name.startswith("llvm.x86."):
            from . import x86
            return x86.intrinsic(self, name, a)
        m = re.match(r'llvm\.vector\.reduce\.(add|or|and|xor)\.v(\d+)i(\d+)', name)
        if m:
            w = int(m.group(3)); acc = a[0][0]
            for x in a[0][1:]: acc = self.binop(m.group(1), w, acc, x, set())
            return acc
        raise Unsupported("intrinsic " + name)

    def run(self, fn, args):
        env = {}
        for p, v in zip(fn.params, args): env[p] = v
        return self.run_blocks(fn, env, fn.order[0], None, None)[1]

    def run_blocks(self, fn, env, lab, prev, stop):
        """execute from block `lab` until the function returns -> ("ret", value) or control reaches block `stop` -> ("stop", predecessor)"""
        doomed = None
        while True:
            if stop is not None and lab == stop: return ("stop", prev)
            if self.block_hook: self.block_hook(self, fn, lab, env, prev)
            ins_list = fn.block(lab)
            # phis first (parallel)
            i = 0
            if ins_list and ins_list[0][0] == "phi":
                newv = {}
                while i < len(ins_list) and ins_list[i][0] == "phi":
                    _, dst, ty, inc = ins_list[i]
                    for o, l in inc:
                        if l == prev: newv[dst] = self.opval(env, o, ty); break
                    else: raise Unsupported("phi without matching predecessor in " + fn.name)
                    i += 1
                env.update(newv)
            nxt = None
            for ins in ins_list[i:]:
                self.steps += 1
                if self.steps > self.max_steps: raise Unsupported("step budget exceeded")
                op = ins[0]
                if op in _SIMPLE:
                    try:
                        _SIMPLE[op](self, env, ins)
                    except Unsupported as e:
                        if " [in " not in str(e): raise type(e)("%s [in %s: %s]" % (e, fn.name[-70:], str(ins)[:160]))
                        raise
                    continue
                if op == "call":
                    _, dst, rty, callee, cargs, comment = ins
                    if callee[0] == "g": cname = callee[1]
                    else:
                        f = env[callee[1]]
                        if not isinstance(f, FnPtr): raise Unsupported("indirect call through non-function value")
                        cname = f.name
                    vals = [self.opval(env, o, t) for t, o in cargs]
                    self.cur_call_rty = rty
                    r = self.call(cname, vals, comment)
                    if dst: env[dst] = r
                    continue
                if op == "invoke":
                    _, dst, rty, callee, cargs, ok, unw, comment = ins
                    cname = callee[1] if callee[0] == "g" else env[callee[1]].name
                    vals = [self.opval(env, o, t) for t, o in cargs]
                    r = self.call(cname, vals, comment)
                    if dst: env[dst] = r
                    nxt = ok; break
                if op == "asm": continue
                if op == "br": nxt = ins[2]; break
                if op == "condbr":
                    self.n_branches += 1
                    cv_ = self.opval(env, ins[2], "i1")
                    if self.is_secret(cv_): self.leak("branch", "conditional branch on a secret-dependent value", fn, lab, ins)
                    c = self.to_cond(cv_)
                    r = self.eval_cond(c)
                    if r is not None:
                        nxt = ins[3] if r else ins[4]
                        if self.record_events: self.events.append(("br", fn.name, lab, nxt))
                        if doomed is None: doomed = self.doomed(fn)
                        if (ins[4] if r else ins[3]) in doomed and nxt not in doomed: self.panic_edges_closed += 1
                        break
                    if doomed is None: doomed = self.doomed(fn)
                    t_d, f_d = ins[3] in doomed, ins[4] in doomed
                    if t_d and not f_d:
                        self.obligations.append(("panic edge %s:%s->%s" % (fn.name[-60:], lab, ins[3]), c, list(self.path)))
                        self.path.append(c_not(c)); nxt = ins[4]; break
                    if f_d and not t_d:
                        self.obligations.append(("panic edge %s:%s->%s" % (fn.name[-60:], lab, ins[4]), c_not(c), list(self.path)))
                        self.path.append(c); nxt = ins[3]; break
                    arms = self.condbr_arms(fn, lab, c, ins)
                    if arms is not None:
                        r = self.fork_merge(fn, env, lab, arms)
                        if r[0] == "ret": return r
                        nxt = r[2]
                        break
                    if self.allow_symbolic_branch:
                        d = self.allow_symbolic_branch(self, fn, lab, c, ins)
                        if d is not None: nxt = d; break
                    raise Unsupported("branch on symbolic condition in %s:%s  %r" % (fn.name, lab, c))
                if op == "switch":
                    self.n_branches += 1
                    sv_ = self.opval(env, ins[3], ins[2])
                    if self.is_secret(sv_): self.leak("branch", "switch on a secret-dependent value", fn, lab, ins)
                    arms = self.switch_arms(sv_, ins)
                    if arms is not None:
                        r = self.fork_merge(fn, env, lab, arms)
                        if r[0] == "ret": return r
                        nxt = r[2]      # continue at the join block (it has no phi nodes: checked by fork_merge)
                        break
                    v = self.P(sv_)
                    if not v.is_const(): raise Unsupported("switch on symbolic value in " + fn.name)
                    w = int_width(ins[2]); cv = v.cval()
                    nxt = ins[4]
                    for cval, l in ins[5]:
                        if (cval & ((1 << w) - 1)) == cv: nxt = l; break
                    if self.record_events: self.events.append(("br", fn.name, lab, nxt))
                    break
                if op == "ret":
                    return ("ret", None if ins[2] is None else self.opval(env, ins[3], ins[2]))
                if op == "unreachable": raise PanicReached("unreachable in " + fn.name)
                if op == "resume": raise PanicReached("resume in " + fn.name)
                if op == "landingpad":
                    env[ins[1]] = UNDEF; continue
                raise Unsupported("instruction kind " + op)
            if nxt is None: raise Unsupported("fell off block %s in %s" % (lab, fn.name))
            prev, lab = lab, nxt

    # ------------------------------------------------------------------ fork / merge of branch arms (veritesting-style)
    def condbr_arms(self, fn, lab, c, ins):
        """None: ordinary two-way branch.  Subclasses return [(target, arm descriptor), (target, arm descriptor)] for a branch on a comparison
        whose two sides are to be executed separately and merged at the join point (only offered when the region up to the join is acyclic)"""
        return None
    def succs(self, fn, l):
        t = fn.block(l)[-1]; op = t[0]
        if op == "br": return [t[2]]
        if op == "condbr": return [t[3], t[4]]
        if op == "switch": return [t[4]] + [x[1] for x in t[5]]
        if op == "invoke": return [t[5], t[6]]
        return []
    def loop_heads(self, fn):
        """targets of back edges of fn's control-flow graph"""
        c = self.__dict__.setdefault("_loop_heads", {})
        if fn.name not in c:
            entry = fn.order[0]; color = {entry: 1}; heads = set(); stack = [(entry, iter(self.succs(fn, entry)))]
            while stack:
                n, itr = stack[-1]
                for sx in itr:
                    cc = color.get(sx, 0)
                    if cc == 0: color[sx] = 1; stack.append((sx, iter(self.succs(fn, sx)))); break
                    if cc == 1: heads.add(sx)
                else:
                    color[n] = 2; stack.pop()
            c[fn.name] = heads
        return c[fn.name]
    def acyclic_region(self, fn, lab, targets):
        """the blocks reachable from the targets without passing the immediate post-dominator of lab contain no loop header and do not leave the function"""
        join = self.ipdom(fn, lab)
        if join is None or join == "%%exit": return False
        heads = self.loop_heads(fn); dm = self.doomed(fn)
        seen = set(); todo = [t for t in targets if t != join]
        while todo:
            b = todo.pop()
            if b in seen or b in dm: continue
            seen.add(b)
            if b in heads or b == lab: return False
            if len(seen) > 64: return False
            ss = self.succs(fn, b)
            if not ss and fn.block(b)[-1][0] == "ret": return False
            for x in ss:
                if x != join: todo.append(x)
        return True
    def switch_arms(self, v, ins):
        """None: ordinary switch.  Subclasses return [(target label, arm descriptor)] for a switch on an abstract value whose arms
        are to be executed separately and merged at the join point"""
        return None
    def enter_arm(self, desc): return None
    def leave_arm(self, desc, token): pass
    def merge_cell(self, base, vals):
        """vals: [(arm descriptor, cell entry)] with at least two different entries -> merged cell entry"""
        raise Unsupported("memory cell differs between merged branch arms and cannot be merged")
    def ipdom(self, fn, lab):
        key = fn.name
        pd = self._ipdom.get(key)
        if pd is None:
            succ = {}
            dm = self.doomed(fn)
            for l in fn.order:
                t = fn.block(l)[-1]; op = t[0]
                if op == "br": ss = [t[2]]
                elif op == "condbr": ss = [t[3], t[4]]
                elif op == "switch": ss = [t[4]] + [x[1] for x in t[5]]
                elif op == "invoke": ss = [t[5], t[6]]
                else: ss = []
                succ[l] = [x for x in ss if x not in dm] if l not in dm else []
            EXIT = "%%exit"
            nodes = list(fn.order) + [EXIT]
            pdom = {n: set(nodes) for n in nodes}; pdom[EXIT] = {EXIT}
            changed = True
            while changed:
                changed = False
                for n in reversed(fn.order):
                    ss = succ[n] or [EXIT]
                    new = set.intersection(*[pdom[x] for x in ss]) | {n}
                    if new != pdom[n]: pdom[n] = new; changed = True
            pd = {}
            for n in fn.order:
                cands = pdom[n] - {n}
                # immediate post-dominator: the candidate that is post-dominated by all other candidates
                best = None
                for c in cands:
                    if all((o == c) or (o in pdom[c]) for o in cands): best = c; break
                pd[n] = best
            self._ipdom[key] = pd
        return pd.get(lab)
    def fork_merge(self, fn, env, lab, arms):
        join = self.ipdom(fn, lab)
        if join is None or join == "%%exit": raise Unsupported("no join point for the symbolic switch in %s:%s" % (fn.name[-60:], lab))
        jb = fn.block(join)
        if jb and jb[0][0] == "phi": raise Unsupported("join block of a merged switch starts with phi (optimised IR)")
        outer = self.wl[0]
        results = []
        for target, desc in arms:
            self.wl[0] = {}
            tok = self.enter_arm(desc)
            try:
                r = self.run_blocks(fn, dict(env), target, lab, join)
            finally:
                self.leave_arm(desc, tok)
            log = self.wl[0]; self.wl[0] = None
            if r[0] == "ret": raise Unsupported("a merged branch arm returns from the function")
            vals = {}
            for (rn, k), old in log.items():
                vals[(rn, k)] = dict.get(self.regions[rn].b, k, _MISSING)
                if old is _MISSING: dict.pop(self.regions[rn].b, k, None)
                else: dict.__setitem__(self.regions[rn].b, k, old)
            results.append((desc, vals, log))
        self.wl[0] = outer
        self._mcache = {}
        cells = set()
        for _, vals, _ in results: cells.update(vals)
        for cell in cells:
            rn, k = cell
            base = dict.get(self.regions[rn].b, k, _MISSING)
            per = [(d, vals.get(cell, base)) for d, vals, _ in results]
            first = per[0][1]
            if all(self.same_cell(first, v) for _, v in per[1:]): new = first
            else: new = self.merge_cell(base, per)
            if new is _MISSING: self.regions[rn].b.pop(k, None)
            else: self.regions[rn].b[k] = new
        self.merges += 1
        return ("stop", "%merged", join)
    def same_cell(self, a, b):
        if a is b: return True
        if a is _MISSING or b is _MISSING: return False
        if a[1] != b[1] or a[2] != b[2]: return False
        x, y = a[0], b[0]
        if x is y: return True
        if isinstance(x, Poly) and isinstance(y, Poly): return x.t == y.t
        if isinstance(x, Ptr) and isinstance(y, Ptr): return x.r == y.r and x.o == y.o
        return False

# ---- simple instruction handlers --------------------------------------------------------------
def _i_binop(self, env, ins):
    op, dst, ty, a, b, flags = ins
    v = vec_type(ty)
    w = int_width(ty)
    env[dst] = self.binop(op, w, self.opval(env, a, ty), self.opval(env, b, ty), flags)
def _i_cast(self, env, ins):
    _, dst, kind, fty, o, tty = ins
    env[dst] = self.cast(kind, fty, self.opval(env, o, fty), tty)
def _i_icmp(self, env, ins):
    _, dst, pred, ty, a, b = ins
    env[dst] = self.icmp(pred, ty, self.opval(env, a, ty), self.opval(env, b, ty))
def _i_select(self, env, ins):
    _, dst, ct, c, ty, a, b = ins
    env[dst] = self.select(self.opval(env, c, ct), self.opval(env, a, ty), self.opval(env, b, ty))
def _i_load(self, env, ins):
    _, dst, ty, p, vol = ins
    ptr = self.opval(env, p, "ptr")
    v = vec_type(ty)
    size = self.mod.sizeof(ty)
    self.n_addrs += 1
    if self.record_events and isinstance(ptr, Ptr): self.events.append(("ld", ptr.r, ptr.o))
    if ty == "ptr":
        r = self.load(ptr, 8)
        env[dst] = r
    elif v: env[dst] = self.load(ptr, size, v[0])
    elif ty.startswith("{") or ty.startswith("["):
        raise Unsupported("aggregate load " + ty)
    else:
        r = self.load(ptr, size)
        w = int_width(ty)
        if w == 1 and not isinstance(r, Cond) and r is not UNDEF: r = self.mk_slice(r, 0, 1)
        env[dst] = r
def _i_store(self, env, ins):
    _, _, ty, v, p, vol = ins
    ptr = self.opval(env, p, "ptr")
    val = self.opval(env, v, ty)
    self.n_addrs += 1
    if self.record_events and isinstance(ptr, Ptr): self.events.append(("st", ptr.r, ptr.o))
    if ty.startswith("{") or ty.startswith("["):
        raise Unsupported("aggregate store " + ty)
    size = self.mod.sizeof(ty)
    if isinstance(val, Cond): val = self.boolvar(val)
    if isinstance(val, (XorNode, MaskedXor)): raise Unsupported("store of unresolved xor node")
    self.store(ptr, val, size)
def _i_gep(self, env, ins):
    _, dst, ty, p, idx = ins
    base = self.opval(env, p, "ptr")
    if isinstance(base, SymPtr):
        off = 0; cur = ty
        for n, (it, o) in enumerate(idx):
            iv = self.P(self.opval(env, o, it))
            if not iv.is_const(): raise Unsupported("second symbolic index on a symbolic pointer")
            i = iv.cval(); w = int_width(it)
            if i >> (w - 1): i -= 1 << w
            if n == 0: off += i * self.mod.sizeof(ty)
            else:
                o2, cur = self.mod.field_offset(cur, i); off += o2
        env[dst] = SymPtr(base.r, base.o + off, base.idx, base.stride, base.lo, base.hi); return
    if not isinstance(base, Ptr): raise Unsupported("gep on non-pointer")
    off = 0; cur = ty
    for n, (it, o) in enumerate(idx):
        ov_ = self.opval(env, o, it)
        if self.is_secret(ov_): self.leak("address", "address computed from a secret-dependent index (getelementptr)", None, None, ins)
        iv = self.P(ov_)
        if not iv.is_const():
            sp = self.sym_gep(base, iv, self.mod.sizeof(ty)) if (n == 0 and len(idx) == 1) else None
            if sp is not None: env[dst] = sp; return
            raise Unsupported("symbolic address (gep index) ")
        i = iv.cval()
        w = int_width(it)
        if i >> (w - 1): i -= 1 << w
        if n == 0: off += i * self.mod.sizeof(ty)
        else:
            o2, cur = self.mod.field_offset(cur, i); off += o2
    env[dst] = Ptr(base.r, base.o + off)
def _i_alloca(self, env, ins):
    _, dst, ty, n = ins
    env[dst] = self.new_region("alloca" + dst, kind="stack")
def _i_extractvalue(self, env, ins):
    _, dst, ty, o, idx = ins
    v = self.opval(env, o, ty)
    for i in idx: v = v[i]
    env[dst] = v
def _i_insertvalue(self, env, ins):
    _, dst, ty, o, t2, o2, idx = ins
    v = self.opval(env, o, ty)
    if v is UNDEF or not isinstance(v, list):
        n = len(split_top((self.mod.types.get(ty, ty)).strip()[1:-1]))
        v = [UNDEF] * n
    v = list(v)
    if len(idx) != 1: raise Unsupported("nested insertvalue")
    v[idx[0]] = self.opval(env, o2, t2)
    env[dst] = v
def _i_extractelement(self, env, ins):
    _, dst, ty, o, io = ins
    v = self.opval(env, o, ty); i = self.P(self.opval(env, io))
    if not i.is_const(): raise Unsupported("extractelement with symbolic index")
    env[dst] = v[i.cval()]
def _i_insertelement(self, env, ins):
    _, dst, ty, o, eo, io = ins
    v = list(self.opval(env, o, ty)); i = self.P(self.opval(env, io))
    if not i.is_const(): raise Unsupported("insertelement with symbolic index")
    v[i.cval()] = self.opval(env, eo, vec_type(ty)[1]); env[dst] = v
def _i_shuffle(self, env, ins):
    _, dst, ty, a, b, m = ins
    va = self.opval(env, a, ty); vb = self.opval(env, b, ty)
    n = vec_type(ty)[0]
    if m[0] == "zero": idx = [0] * n      # zeroinitializer mask = broadcast lane 0; length from result: same as n here
    elif m[0] == "vec": idx = [(x[1] if x[0] == "i" else None) for x in m[1]]
    elif m[0] == "splat": idx = None
    else: raise Unsupported("shuffle mask")
    if idx is None: raise Unsupported("splat shuffle mask")
    allv = list(va) + list(vb)
    env[dst] = [(allv[i] if i is not None else UNDEF) for i in idx]

_SIMPLE = {op: _i_binop for op in ("add", "sub", "mul", "and", "or", "xor", "shl", "lshr", "ashr", "udiv", "urem", "sdiv", "srem")}
_SIMPLE.update({"cast": _i_cast, "icmp": _i_icmp, "select": _i_select, "load": _i_load, "store": _i_store, "gep": _i_gep,
                "alloca": _i_alloca, "extractvalue": _i_extractvalue, "insertvalue": _i_insertvalue,
                "extractelement": _i_extractelement, "insertelement": _i_insertelement, "shufflevector": _i_shuffle})
