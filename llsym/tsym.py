"""Layer T - secret-independence of control flow and memory addresses (C10) on the optimised LLVM IR.

The optimised IR of an operation is executed with every secret input replaced by the single abstract value SECRET
('some value that depends on the secrets'); public inputs (lengths, public bytes) stay concrete.  Every integer
operation with a SECRET operand yields SECRET (except where the result is a constant for every operand value), so
the execution follows ONE control-flow path and touches ONE sequence of addresses for all secrets simultaneously
exactly when no branch condition, switch selector, address computation, memory-intrinsic length, division or
call target is SECRET.  This is the self-composition (two runs with different secrets stay in lock-step) in its
degenerate form: both copies share every public value by construction.  Where a SECRET value reaches one of
those sinks the engine stops with a Leak; the harness then searches a pair of secrets whose concrete executions of
the same IR differ in their branch / address trace (the replayed counterexample)."""
import re
from .ir import Unsupported, vec_type, int_width, split_top
from .poly import Poly, ZERO
from .lsym import LSym, Ptr, FnPtr, Cond, UNDEF

class Secret:
    """a secret-dependent integer; hi = known unsigned upper bound of its value (None: unknown), so that comparisons
    whose outcome is the same for every value in [0, hi] stay public (Option<bool> niche tests, masked bits)"""
    __slots__ = ("hi",)
    def __init__(self, hi=None): self.hi = hi
    def __repr__(self): return "SECRET" if self.hi is None else "SECRET<=%d" % self.hi
SECRET = Secret()
def sec(hi=None):
    return SECRET if hi is None else Secret(hi)

class Leak(Exception):
    def __init__(self, kind, what, where):
        super().__init__("%s: %s @ %s" % (kind, what, where)); self.kind, self.what, self.where = kind, what, where

def tainted(v):
    if isinstance(v, Secret): return True
    if isinstance(v, list): return any(tainted(x) for x in v)
    return False

PURE = re.compile(r'^llvm\.((u|s)(add|sub|mul)\.with\.overflow|fsh[lr]|u(min|max)|s(min|max)|ctpop|cttz|ctlz|bswap|bitreverse|abs|(u|s)cmp|'
                  r'(u|s)(add|sub)\.sat|vector\.reduce\.|x86\.(avx2|avx|sse2|sse41|ssse3|avx512)\.)')
GATHER = re.compile(r'gather|scatter|maskload|maskstore')

class TSym(LSym):
    def __init__(self, mod, **kw):
        kw.setdefault("max_steps", 400_000_000)
        super().__init__(mod, **kw)
        self.stack = []
        self.secret_ops = 0
    def is_secret(self, v): return tainted(v)
    def leak(self, kind, what, fn=None, lab=None, ins=None):
        where = "%s:%s" % (fn.name if fn is not None else (self.stack[-1] if self.stack else "?"), lab or "")
        raise Leak(kind, what + ("  [%s]" % (str(ins)[:140],) if ins is not None else ""), where)
    def secret_region(self, name, size):
        p = self.new_region(name, size)
        for k in range(size): self.store(Ptr(p.r, k), SECRET, 1)
        return p
    def public_region(self, name, data):
        p = self.new_region(name, len(data))
        for k, b in enumerate(data): self.store(Ptr(p.r, k), Poly.const(b), 1)
        return p
    def secret_of_type(self, ty):
        if ty is None: return SECRET
        v = vec_type(ty)
        if v: return [SECRET] * v[0]
        t = self.mod.types.get(ty, ty).strip()
        if t.startswith("{"): return [self.secret_of_type(x) for x in split_top(t[1:-1])]
        if t.startswith("["):
            m = re.match(r'^\[(\d+) x (.*)\]$', t)
            return [self.secret_of_type(m.group(2))] * int(m.group(1))
        return SECRET

    # ---- values
    def P(self, v):
        if isinstance(v, Secret): raise Unsupported("a secret value reached an operation the taint engine does not model")
        return super().P(v)
    def call(self, name, args, comment=None):
        self.stack.append(comment or name)
        try: return super().call(name, args, comment)
        finally: self.stack.pop()
    def binop(self, op, w, a, b, flags):
        if isinstance(a, list) or isinstance(b, list):
            n = len(a) if isinstance(a, list) else len(b)
            if not isinstance(a, list): a = [a] * n
            if not isinstance(b, list): b = [b] * n
            return [self.binop(op, w, x, y, flags) for x, y in zip(a, b)]
        sa, sb = isinstance(a, Secret), isinstance(b, Secret)
        if sa or sb:
            self.secret_ops += 1
            if op in ("udiv", "urem", "sdiv", "srem"):
                self.leak("latency", "division/remainder with a secret operand (variable latency on x86-64)")
            o = b if sa else a
            full = (1 << w) - 1
            if not isinstance(o, Secret) and isinstance(o, (Poly, int)):
                c = super().P(o)
                if c.is_const():
                    cv = c.cval() & full
                    if op in ("and", "mul") and cv == 0: return ZERO
                    if op == "and": return sec(cv if (a if sa else b).hi is None else min(cv, (a if sa else b).hi))
                    if sa and op == "lshr":
                        if cv >= w: return ZERO
                        return sec(((a.hi if a.hi is not None else full) & full) >> cv)
                    if sa and op == "shl" and cv >= w: return ZERO
                    if sa and op == "shl" and a.hi is not None and (a.hi << cv) <= full: return sec(a.hi << cv)
                    if op in ("or", "xor", "add") and (a if sa else b).hi is not None:
                        h = (a if sa else b).hi
                        if op == "add" and h + cv <= full: return sec(h + cv)
                        if op in ("or", "xor"): return sec((1 << max(h.bit_length(), cv.bit_length())) - 1)
            elif sa and sb and a.hi is not None and b.hi is not None:
                if op == "and": return sec(min(a.hi, b.hi))
                if op in ("or", "xor"): return sec((1 << max(a.hi.bit_length(), b.hi.bit_length())) - 1)
                if op == "add" and a.hi + b.hi <= full: return sec(a.hi + b.hi)
            return SECRET
        if a is UNDEF or b is UNDEF: return UNDEF if op not in ("and", "or", "xor", "add", "sub", "mul", "shl", "lshr", "ashr") else super().binop(op, w, a, b, flags)
        return super().binop(op, w, a, b, flags)
    def icmp(self, pred, ty, a, b):
        if isinstance(a, list) or isinstance(b, list): return super().icmp(pred, ty, a, b)
        sa, sb = isinstance(a, Secret), isinstance(b, Secret)
        if sa or sb:
            # a comparison with a public constant that every value in [0, hi] decides the same way is public
            x, o = (a, b) if sa else (b, a)
            if not (sa and sb) and x.hi is not None and isinstance(o, (Poly, int)):
                c = super().P(o)
                if c.is_const():
                    cv = c.cval(); pr = pred if sa else {"ult": "ugt", "ugt": "ult", "ule": "uge", "uge": "ule"}.get(pred, pred)
                    if pr == "eq" and cv > x.hi: return Cond("const", False)
                    if pr == "ne" and cv > x.hi: return Cond("const", True)
                    if pr == "ult" and cv > x.hi: return Cond("const", True)
                    if pr == "ule" and cv >= x.hi: return Cond("const", True)
                    if pr == "ugt" and cv >= x.hi: return Cond("const", False)
                    if pr == "uge" and cv > x.hi: return Cond("const", False)
            return sec(1)
        return super().icmp(pred, ty, a, b)
    def select(self, c, a, b):
        if isinstance(c, list) or (isinstance(a, list) and not tainted(c)): return super().select(c, a, b)
        if isinstance(c, Secret):
            if isinstance(a, list): return [self.select(c, y, z) for y, z in zip(a, b)]
            if isinstance(a, (Ptr, FnPtr)) or isinstance(b, (Ptr, FnPtr)):
                self.leak("address", "select between two pointers on a secret condition (secret-dependent address / call target)")
            his = []
            for x in (a, b):
                if isinstance(x, Secret): his.append(x.hi)
                elif isinstance(x, (Poly, int)) and super().P(x).is_const(): his.append(super().P(x).cval())
                else: his.append(None)
            return sec(None if None in his else max(his))
        return super().select(c, a, b)
    def cast(self, kind, fty, v, tty):
        if isinstance(v, list):
            if kind == "bitcast":
                if tainted(v): return self.secret_of_type(tty)
                return super().cast(kind, fty, v, tty)
            return super().cast(kind, fty, v, tty)
        if isinstance(v, Secret):
            if kind == "inttoptr": self.leak("address", "pointer made from a secret integer")
            if kind == "bitcast": return self.secret_of_type(tty)
            if kind == "zext" or kind == "freeze": return v
            if kind == "trunc":
                tw = int_width(tty); m = (1 << tw) - 1
                return sec(m if v.hi is None or v.hi > m else v.hi)
            if kind == "sext":
                fw = int_width(fty)
                if v.hi is not None and v.hi < (1 << (fw - 1)): return v
            return SECRET
        return super().cast(kind, fty, v, tty)
    def to_cond(self, v):
        if isinstance(v, Secret): raise Unsupported("secret used as a condition outside select/branch")
        return super().to_cond(v)
    def load(self, p, size, lanes=None):
        if lanes: return super().load(p, size, lanes)
        if isinstance(p, Ptr):
            R = self.regions[p.r]
            e0 = R.b.get(p.o)
            if e0 is not None and isinstance(e0[0], Secret) and e0[1] == 0 and e0[2] == size and \
               all((R.b.get(p.o + k) or (None, None, None))[0] is e0[0] and R.b[p.o + k][1] == k for k in range(size)): return e0[0]
            for k in range(size):
                e = R.b.get(p.o + k)
                if e is not None and isinstance(e[0], Secret): return SECRET
        return super().load(p, size, lanes)
    def memset(self, d, val, n):
        if isinstance(val, Secret):
            D = self.regions[d.r]
            for k in range(n): D.b[d.o + k] = (SECRET, 0, 1)
            return
        return super().memset(d, val, n)
    def intrinsic(self, name, a):
        if name.startswith("llvm.memcpy") or name.startswith("llvm.memmove") or name.startswith("llvm.memset"):
            if tainted(a[2]): self.leak("address", "memory intrinsic %s with a secret length" % name)
            if tainted(a[0]) or (not name.startswith("llvm.memset") and tainted(a[1])): self.leak("address", "memory intrinsic on a secret address")
            return super().intrinsic(name, a)
        if any(tainted(x) for x in a):
            if GATHER.search(name): self.leak("address", "vector gather/scatter/masked memory access with secret operands: " + name)
            if PURE.match(name):
                self.secret_ops += 1
                return self.secret_of_type(self.cur_call_rty)
            raise Unsupported("intrinsic %s with secret operands" % name)
        if name.startswith("llvm.x86.") or name.startswith("llvm.vector.reduce"):
            # public vector data (constants being shuffled): not modelled bit-precisely; treated as secret (conservative)
            return self.secret_of_type(self.cur_call_rty)
        try:
            return super().intrinsic(name, a)
        except Unsupported:
            if PURE.match(name): return self.secret_of_type(self.cur_call_rty)
            raise
    def external(self, name, args):
        if name in ("memcmp", "bcmp"):
            n = args[2]
            if tainted(n): self.leak("address", "memcmp with a secret length")
            for base in args[:2]:
                for k in range(super().P(n).cval()):
                    e = self.regions[base.r].b.get(base.o + k)
                    if e is not None and isinstance(e[0], Secret):
                        self.leak("branch", "memcmp/bcmp over secret bytes (early-exit comparison)")
        if "__rust_alloc" in name or "__rust_realloc" in name:
            if any(tainted(x) for x in args): self.leak("address", "allocation size depends on a secret")
        return super().external(name, args)
