"""llsym layer F: execution of rustc -C opt-level=0 LLVM IR with field operations intercepted as ring
operations (DESIGN 3.1.4).

A field element is an abstract ring element: a polynomial with coefficients mod p = 2^255-19 over the harness
inputs and over fresh symbols for uninterpreted results (inverse, square-root-of-ratio).  Constants are read
from the IR's global initialisers (the actual limbs of the tree) and enter as numbers mod p.  Predicates that
the code turns into `Choice`s (ct_eq, is_negative, is_zero, was_square) are decided by an *oracle*: every
combination of outcomes is enumerated (path enumeration), each path carrying the algebraic facts it assumed;
the per-path verification conditions are polynomial identities modulo those facts.
"""
import re
from .ir import Unsupported
from .poly import Poly, ZERO, ONE
from .lsym import LSym, Ptr, Cond, UNDEF, PanicReached

P = 2**255 - 19

def fnorm(p):
    t = {}
    for m, c in p.t.items():
        c %= P
        if c: t[m] = c
    return Poly(t)

class FE:
    """abstract field element"""
    __slots__ = ("p", "hi")
    def __init__(self, p, hi=None):
        self.p = fnorm(p); self.hi = hi     # hi: optional per-limb upper bounds (headroom tracking, C11)
    def __repr__(self): return "FE(%r)" % (self.p,)

class Infeasible(Exception): pass

class Oracle:
    def __init__(self, decisions=None):
        self.decisions = list(decisions or [])
        self.idx = 0
        self.memo = {}
        self.trace = []      # (key description, value)
    def decide(self, key, desc):
        if key in self.memo: return self.memo[key]
        if self.idx < len(self.decisions): v = self.decisions[self.idx]
        else:
            v = 0; self.decisions.append(0)
        self.idx += 1
        self.memo[key] = v
        self.trace.append((desc, v))
        return v
    def next_decisions(self):
        """DFS successor of the executed decision vector (None when exhausted)"""
        d = self.decisions[:self.idx]
        while d and d[-1] == 1: d.pop()
        if not d: return None
        d[-1] = 1
        return d

class FSym(LSym):
    """O0 interpreter with field elements as abstract ring values"""
    def __init__(self, mod, oracle=None, layout=None, intercept_extra=None, sqrt_contract=True, invert_contract=True):
        super().__init__(mod, max_steps=20_000_000)
        self.oracle = oracle or Oracle()
        self.cell, self.nl, self.weights = layout or (8, 5, [51 * i for i in range(5)])
        self.fesize = self.cell * self.nl
        self.rel = []        # polynomials known to be 0 on this path
        self.nonzero = []    # polynomials known to be != 0 on this path
        self.facts = []      # structured facts: ('neg', poly, v), ('eqz', poly, v), ('sqrt', u, v, ok, r), ('inv', x, sym)
        self.nsym = 0
        self.sqrt_contract = sqrt_contract
        self.invert_contract = invert_contract
        self.kcalls = {}
        self.bytestrings = {}   # id(byte poly object) -> (ByteString, index)
        self.canonbytes = {}    # id(byte poly object) -> (field poly, index): bytes produced by as_bytes
        self.canon = []         # (field poly, [32 byte polys]) facts: bytes are the canonical encoding of poly
        self.headroom = None   # optional callback(opname, [FE...]) -> per-limb bounds of the result (C11)
        FEre = r'(curve25519_dalek::backend::serial::\w+::field::FieldElement\w+)'
        I = self.intercept
        I.append((r'^<&' + FEre + r' as core::ops::arith::Mul>::mul$', lambda it, a, n: it.op3(a, "mul")))
        I.append((r'^<&' + FEre + r' as core::ops::arith::Add>::add$', lambda it, a, n: it.op3(a, "add")))
        I.append((r'^<&' + FEre + r' as core::ops::arith::Sub>::sub$', lambda it, a, n: it.op3(a, "sub")))
        I.append((r'^<&' + FEre + r' as core::ops::arith::Neg>::neg$', lambda it, a, n: it.op2(a, "neg")))
        I.append((r'^<' + FEre + r' as core::ops::arith::AddAssign<.*>>::add_assign$', lambda it, a, n: it.opassign(a, "add")))
        I.append((r'^<' + FEre + r' as core::ops::arith::SubAssign<.*>>::sub_assign$', lambda it, a, n: it.opassign(a, "sub")))
        I.append((r'^<' + FEre + r' as core::ops::arith::MulAssign<.*>>::mul_assign$', lambda it, a, n: it.opassign(a, "mul")))
        I.append((r'^' + FEre + r'::square$', lambda it, a, n: it.op2(a, "square")))
        I.append((r'^' + FEre + r'::square2$', lambda it, a, n: it.op2(a, "square2")))
        I.append((r'^' + FEre + r'::pow2k$', lambda it, a, n: it.pow2k(a)))
        I.append((r'^' + FEre + r'::negate$', lambda it, a, n: it.negate(a)))
        I.append((r'^' + FEre + r'::as_bytes$', lambda it, a, n: it.as_bytes(a)))
        I.append((r'^' + FEre + r'::from_bytes$', lambda it, a, n: it.from_bytes(a)))
        I.append((r'^<' + FEre + r' as subtle::ConditionallySelectable>::conditional_select$', lambda it, a, n: it.csel(a)))
        I.append((r'^<' + FEre + r' as subtle::ConditionallySelectable>::conditional_assign$', lambda it, a, n: it.cassign(a)))
        I.append((r'^<' + FEre + r' as subtle::ConditionallySelectable>::conditional_swap$', lambda it, a, n: it.cswap(a)))
        I.append((r'^curve25519_dalek::field::<impl subtle::ConstantTimeEq for .*>::ct_eq$', lambda it, a, n: it.ct_eq(a)))
        I.append((r'^curve25519_dalek::field::<impl .*FieldElement\w+>::is_negative$', lambda it, a, n: it.is_negative(a)))
        I.append((r'^curve25519_dalek::field::<impl .*FieldElement\w+>::is_zero$', lambda it, a, n: it.is_zero(a)))
        I.append((r'^<' + FEre + r' as zeroize::Zeroize>::zeroize$', lambda it, a, n: it.put(a[0], FE(ZERO))))
        I.append((r'^<' + FEre + r' as core::clone::Clone>::clone$', lambda it, a, n: it.put(a[0], it.get(a[1]))))
        if invert_contract:
            I.append((r'^curve25519_dalek::field::<impl .*FieldElement\w+>::invert$', lambda it, a, n: it.invert(a)))
        if sqrt_contract:
            I.append((r'^curve25519_dalek::field::<impl .*FieldElement\w+>::sqrt_ratio_i$', lambda it, a, n: it.sqrt_ratio_i(a)))
        I.append((r'^<\[T\] as subtle::ConstantTimeEq>::ct_eq$', lambda it, a, n: it.slice_ct_eq(a)))
        for e in (intercept_extra or []): I.append(e)
        self.allow_symbolic_branch = FSym._branch

    # LSym.call matches intercept patterns against the mangled name OR the demangled call comment
    # ------------------------------------------------------------------ helpers
    def count(self, k): self.kcalls[k] = self.kcalls.get(k, 0) + 1
    def sym(self, pfx):
        self.nsym += 1
        return Poly.var("%s%d" % (pfx, self.nsym))
    def get(self, p):
        """field element stored at pointer p (abstract object, or constant limbs decoded mod p)"""
        if not isinstance(p, Ptr): raise Unsupported("field operand is not a pointer")
        R = self.regions[p.r]
        e = R.b.get(p.o)
        if e is not None and isinstance(e[0], FE) and e[1] == 0: return e[0]
        tot = 0
        for i in range(self.nl):
            v = self.load(Ptr(p.r, p.o + self.cell * i), self.cell)
            if v is UNDEF: raise Unsupported("field operand with undefined limbs at %r" % (p,))
            pv = self.P(v)
            if not pv.is_const(): raise Unsupported("field operand with symbolic raw limbs at %r" % (p,))
            tot += pv.cval() << self.weights[i]
        return FE(Poly.const(tot % P))
    def put(self, p, fe):
        if not isinstance(fe, FE): raise Unsupported("put of non field element")
        R = self.regions[p.r]
        for k in range(self.fesize): R.b[p.o + k] = (fe, k, self.fesize)
        return None
    def binop_fe(self, op, x, y):
        if op == "mul": r = FE(x.p * y.p)
        elif op == "add": r = FE(x.p + y.p)
        elif op == "sub": r = FE(x.p - y.p)
        else: raise Unsupported(op)
        if self.headroom: r.hi = self.headroom(op, [x, y])
        return r
    def op3(self, a, op):
        self.count(op); self.put(a[0], self.binop_fe(op, self.get(a[1]), self.get(a[2])))
    def opassign(self, a, op):
        self.count(op); self.put(a[0], self.binop_fe(op, self.get(a[0]), self.get(a[1])))
    def unop_fe(self, op, x):
        if op == "neg": r = FE(-x.p)
        elif op == "square": r = FE(x.p * x.p)
        elif op == "square2": r = FE((x.p * x.p).scale(2))
        else: raise Unsupported(op)
        if self.headroom: r.hi = self.headroom(op, [x])
        return r
    def op2(self, a, op):
        self.count(op); self.put(a[0], self.unop_fe(op, self.get(a[1])))
    def negate(self, a):
        self.count("neg"); self.put(a[0], self.unop_fe("neg", self.get(a[0])))
    def pow2k(self, a):
        k = self.P(a[2])
        if not k.is_const(): raise Unsupported("pow2k with symbolic k")
        x = self.get(a[1])
        for _ in range(k.cval()):
            self.count("square"); x = self.unop_fe("square", x)
        self.put(a[0], x)
    def choice(self, v):
        return Poly.const(1 if v else 0)
    def cval(self, c):
        pc = self.ctx.resolve(self.P(c))
        if pc.is_const(): return pc.cval() & 1
        # a symbolic boolean input (e.g. a sign bit): the oracle fixes it for this path, and the variable is pinned
        if len(pc.t) == 1:
            (m, cf), = pc.t.items()
            if cf == 1 and len(m) == 1 and self.ctx.bounds.get(m[0]) == (0, 1):
                v = self.oracle.decide(("bool", m[0]), "bit %s" % m[0])
                self.ctx.split[m[0]] = Poly.const(v)
                self.facts.append(("bool", m[0], v))
                return v
        raise Unsupported("symbolic Choice %r reached a field-level select" % (pc,))
    def csel(self, a):
        self.count("select"); self.put(a[0], self.get(a[2]) if self.cval(a[3]) else self.get(a[1]))
    def cassign(self, a):
        self.count("select")
        if self.cval(a[2]): self.put(a[0], self.get(a[1]))
        else: self.put(a[0], self.get(a[0]))      # normalises the representation to an abstract object
    def cswap(self, a):
        self.count("select")
        x, y = self.get(a[0]), self.get(a[1])
        if self.cval(a[2]): self.put(a[0], y); self.put(a[1], x)
        else: self.put(a[0], x); self.put(a[1], y)
    def _branch(self, fn, lab, c, ins):
        """branch on a symbolic boolean (bool::from(Choice) of a symbolic bit): the oracle decides, the bit is pinned"""
        if c.k == "cmp" and c.a[0] in ("ne", "eq"):
            d = self.ctx.resolve(c.a[1] - c.a[2])
            nz = [(m, cf) for m, cf in d.t.items() if m]
            if len(nz) == 1 and len(nz[0][0]) == 1 and self.ctx.bounds.get(nz[0][0][0]) == (0, 1):
                var = nz[0][0][0]
                v = self.oracle.decide(("bool", var), "bit %s" % var)
                self.ctx.split[var] = Poly.const(v); self.facts.append(("bool", var, v))
                r = self.eval_cond(c)
                if r is not None: return ins[3] if r else ins[4]
        return None
    def symbolic_memcmp(self, xs, ys, diffs):
        """byte-string comparison through memcmp/bcmp (array `==`): only equality is observable downstream"""
        self.count("memcmp")
        key = ("byteseq", tuple(d.key() for d in diffs))
        v = self.oracle.decide(key, "bytes_eq(%d bytes, memcmp)" % len(diffs))
        if not any(f[0] == "byteseq" and f[3] == key for f in self.facts): self.facts.append(("byteseq", xs, ys, key, v))
        return ZERO if v else ONE
    def slice_ct_eq(self, a):
        """<[u8] as ConstantTimeEq>::ct_eq on byte strings: equal iff all bytes equal (predicate over byte polys)"""
        self.count("bytes_ct_eq")
        pa, la, pb, lb = a[0], self.P(a[1]), a[2], self.P(a[3])
        if not (la.is_const() and lb.is_const()): raise Unsupported("ct_eq on slices of symbolic length")
        if la.cval() != lb.cval(): return self.choice(0)
        n = la.cval()
        xs = [self.P(self.load(Ptr(pa.r, pa.o + k), 1)) for k in range(n)]
        ys = [self.P(self.load(Ptr(pb.r, pb.o + k), 1)) for k in range(n)]
        diffs = [self.ctx.resolve(x - y) for x, y in zip(xs, ys)]
        if all(d.is_zero() for d in diffs): return self.choice(1)
        if any(d.is_const() and d.cval() != 0 for d in diffs): return self.choice(0)
        key = ("byteseq", tuple(d.key() for d in diffs))
        v = self.oracle.decide(key, "bytes_eq(%d bytes)" % n)
        if not any(f[0] == "byteseq" and f[3] == key for f in self.facts): self.facts.append(("byteseq", xs, ys, key, v))
        return self.choice(v)
    # ---- predicates
    def eqz(self, p, why="eqz"):
        p = fnorm(p)
        if p.is_zero(): return 1
        if p.is_const(): return 0
        if known_nonzero(p, self.nonzero): return 0
        k1 = p.key(); k2 = fnorm(-p).key()
        key = ("eqz", min(k1, k2))
        v = self.oracle.decide(key, "%s(%r)" % (why, p))
        if ("eqz", key, v) not in [(f[0], f[3], f[2]) for f in self.facts if f[0] == "eqz"]:
            self.facts.append(("eqz", p, v, key))
            (self.rel if v else self.nonzero).append(p)
        return v
    def isneg(self, p):
        p = fnorm(p)
        if p.is_const():
            return p.cval() & 1
        key = ("neg", p.key())
        v = self.oracle.decide(key, "is_negative(%r)" % (p,))
        if not any(f[0] == "neg" and f[3] == key for f in self.facts): self.facts.append(("neg", p, v, key))
        return v
    def ct_eq(self, a):
        self.count("ct_eq")
        return self.choice(self.eqz(self.get(a[0]).p - self.get(a[1]).p, "ct_eq"))
    def is_zero(self, a):
        self.count("is_zero"); return self.choice(self.eqz(self.get(a[0]).p, "is_zero"))
    def is_negative(self, a):
        self.count("is_negative"); return self.choice(self.isneg(self.get(a[0]).p))
    # ---- encodings: bytes are carried as an abstract object ("canonical bytes of x")
    def as_bytes(self, a):
        self.count("as_bytes")
        x = self.get(a[1])
        R = self.regions[a[0].r]
        if x.p.is_const():
            v = x.p.cval() % P
            for k in range(32): R.b[a[0].o + k] = (Poly.const((v >> (8 * k)) & 255), 0, 1)
            return None
        for p0, bs in self.canon:
            if (p0 - x.p).is_zero():
                for k in range(32): R.b[a[0].o + k] = (bs[k], 0, 1)
                return None
        self.nsym += 1
        bs = []
        for k in range(32):
            v = self.ctx.input("cb%d_%d" % (self.nsym, k), 0, 127 if k == 31 else 255)
            self.canonbytes[id(v)] = (x.p, k); bs.append(v)
            R.b[a[0].o + k] = (v, 0, 1)
        self.canon.append((x.p, bs))
    def from_bytes(self, a):
        self.count("from_bytes")
        src = a[1]; R = self.regions[src.r]
        e = R.b.get(src.o)
        if e is not None and isinstance(e[0], CanonBytes) and e[1] == 0:
            self.put(a[0], FE(e[0].p)); return None
        ents = [R.b.get(src.o + k) for k in range(32)]
        if all(x is not None for x in ents):
            own = [self.bytestrings.get(id(x[0])) for x in ents]
            if all(o is not None for o in own) and all(o[0] is own[0][0] and o[1] == k for k, o in enumerate(own)):
                self.put(a[0], FE(own[0][0].low)); return None
            cb = [self.canonbytes.get(id(x[0])) for x in ents]
            if all(o is not None for o in cb) and all(o[0] is cb[0][0] and o[1] == k for k, o in enumerate(cb)):
                self.put(a[0], FE(cb[0][0])); return None
            # canonical bytes whose bit 255 was modified afterwards (sign bit or-ed / xor-ed in): from_bytes ignores it
            if all(o is not None for o in cb[:31]) and all(o[0] is cb[0][0] and o[1] == k for k, o in enumerate(cb[:31])):
                owner = [c for c in self.canon if c[0] is cb[0][0]]
                if owner:
                    d = self.ctx.resolve(self.P(ents[31][0]) - owner[0][1][31])
                    if d.is_zero() or (all(cc % 128 == 0 for cc in d.t.values()) and self.is_bool(d.divexact(128))):
                        self.put(a[0], FE(cb[0][0])); return None
        tot = ZERO
        for k in range(32):
            v = self.ctx.resolve(self.P(self.load(Ptr(src.r, src.o + k), 1)))
            if k == 31: v = self.ctx.cut(v, 7)[1]          # bit 255 is ignored
            tot = tot + v.scale(1 << (8 * k))
        tot = self.ctx.resolve(tot)
        if not tot.is_const(): raise Unsupported("from_bytes of symbolic raw bytes (use ByteString)")
        self.put(a[0], FE(Poly.const(tot.cval() % P)))
    # ---- contracts
    def invert(self, a):
        self.count("invert")
        x = self.get(a[1])
        if x.p.is_const():
            self.put(a[0], FE(Poly.const(pow(x.p.cval(), P - 2, P)))); return None
        if self.eqz(x.p, "invert:is_zero"):
            self.put(a[0], FE(ZERO)); return None
        for f in self.facts:
            if f[0] == "inv" and (f[1] - x.p).is_zero():
                self.put(a[0], FE(f[2])); return None
        s = self.sym("inv")
        self.facts.append(("inv", x.p, s))
        self.rel.append(fnorm(s * x.p - ONE))
        self.put(a[0], FE(s))
    def sqrt_ratio_i(self, a):
        """contract of FieldElement::sqrt_ratio_i (established by the C01 layer-F harness on its own IR):
           u = 0            -> (1, 0)
           v = 0, u != 0    -> (0, 0)
           u/v square       -> (1, r)  r^2 v = u,   r nonnegative
           u/v nonsquare    -> (0, r)  r^2 v = i u, r nonnegative"""
        self.count("sqrt_ratio_i")
        # sret pair (Choice, FieldElement): layout {u8 choice @0 ... FE @8}; returned via sret pointer a[0]
        out, u, v = a[0], self.get(a[1]), self.get(a[2])
        ok, r = self.sqrt_contract_value(u.p, v.p)
        self.store_choice_fe(out, ok, r)
    def sqrt_contract_value(self, u, v):
        if self.eqz(u, "sqrt:u_is_zero"): return 1, FE(ZERO)
        if self.eqz(v, "sqrt:v_is_zero"): return 0, FE(ZERO)
        key = ("sq", fnorm(u).key(), fnorm(v).key())
        ok = self.oracle.decide(key, "was_square(%r / %r)" % (u, v))
        for f in self.facts:
            if f[0] == "sqrt" and f[5] == key: return ok, FE(f[4])
        r = self.sym("r")
        self.facts.append(("sqrt", u, v, ok, r, key))
        from . import fconst
        self.rel.append(fnorm(r * r * v - (u if ok else u.scale(fconst.SQRT_M1))))
        self.nonzero.append(r)
        self.facts.append(("neg", fnorm(r), 0, ("neg", fnorm(r).key())))
        self.oracle.memo[("neg", fnorm(r).key())] = 0
        return ok, FE(r)
    def store_choice_fe(self, out, ok, fe):
        """(Choice, FieldElement) tuple as rustc lays it out at O0: { Choice @0, FieldElement @align(FE) }"""
        self.store(Ptr(out.r, out.o), Poly.const(ok), 1)
        self.put(Ptr(out.r, out.o + self.cell), fe)

class CanonBytes:
    """the 32-byte canonical encoding of a field element (abstract)"""
    def __init__(self, p): self.p = fnorm(p)
class ByteString:
    """a symbolic 32-byte input string b: `low` = the field-element symbol for (b mod 2^255) (NOT reduced mod p:
    its canonicity is a separate predicate), 32 byte polys for byte-level access, `top` = bit 255"""
    def __init__(self, it, name):
        self.name = name
        self.low = Poly.var(name)
        ctx = it.ctx
        self.bytes = [ctx.input("%s_b%d" % (name, k), 0, 255) for k in range(31)]
        self.lo7 = ctx.input("%s_b31lo" % name, 0, 127)
        self.top = ctx.input("%s_top" % name, 0, 1)
        self.bytes.append(self.lo7 + self.top.scale(128))
        for k, b in enumerate(self.bytes): it.bytestrings[id(b)] = (self, k)
    def store(self, it, p):
        for k, b in enumerate(self.bytes): it.store(Ptr(p.r, p.o + k), b, 1)

# ------------------------------------------------------------------------------- ideal membership
def lead(p, order):
    """leading monomial under a lex order given by variable rank (higher rank = bigger)"""
    best = None; bk = None
    for m in p.t:
        k = tuple(sorted(((order.get(v, 0), v) for v in m), reverse=True))
        # compare as multisets in lex: build exponent vector by rank order
        if bk is None or k > bk: best, bk = m, k
    return best

def mono_div(m, d):
    """m / d for monomials (tuples), or None"""
    l = list(m)
    for v in d:
        if v in l: l.remove(v)
        else: return None
    return tuple(l)

def reduce_mod(p, rels, order, max_steps=20000):
    """remainder of p modulo the relation polynomials (multivariate division, coefficients mod P)"""
    p = fnorm(p)
    leads = []
    for r in rels:
        r = fnorm(r)
        if r.is_zero(): continue
        lm = lead(r, order); leads.append((lm, r, pow(r.t[lm], P - 2, P)))
    steps = 0
    rem = ZERO
    while not p.is_zero():
        steps += 1
        if steps > max_steps: raise Unsupported("polynomial reduction did not terminate")
        lm = lead(p, order); c = p.t[lm]
        done = False
        for dl, r, inv in leads:
            q = mono_div(lm, dl)
            if q is not None:
                f = (c * inv) % P
                p = fnorm(p - (Poly({q: 1}) * r).scale(f)); done = True; break
        if not done:
            rem = rem + Poly({lm: c}); p = fnorm(p - Poly({lm: c}))
    return fnorm(rem)

def exact_div(p, q):
    """p / q if q divides p exactly (coefficients mod P), else None"""
    p = fnorm(p); q = fnorm(q)
    if q.is_zero(): return None
    vs = sorted(p.vars() | q.vars())
    order = {v: i + 1 for i, v in enumerate(vs)}
    lq = lead(q, order); inv = pow(q.t[lq], P - 2, P)
    quo = ZERO; steps = 0
    while not p.is_zero():
        steps += 1
        if steps > 5000: return None
        lm = lead(p, order)
        d = mono_div(lm, lq)
        if d is None: return None
        f = (p.t[lm] * inv) % P
        t = Poly({d: f})
        quo = quo + t; p = fnorm(p - t * q)
    return fnorm(quo)

def known_nonzero(p, nonzero, depth=0):
    """p is a product of polynomials assumed non-zero (GF(p) is an integral domain)"""
    p = fnorm(p)
    if p.is_zero(): return False
    if p.is_const(): return True
    if depth > 12: return False
    for q in nonzero:
        d = exact_div(p, q)
        if d is not None and known_nonzero(d, nonzero, depth + 1): return True
    return False

def is_zero_mod(p, rels, prefer=()):
    """True if p reduces to 0 modulo rels under one of a few variable orders"""
    p = fnorm(p)
    if p.is_zero(): return True
    vs = set(p.vars())
    for r in rels: vs |= r.vars()
    fresh = sorted(v for v in vs if re.match(r'^(inv|r)\d+$', v))
    others = sorted(v for v in vs if v not in fresh)
    orders = []
    for perm in (fresh, list(reversed(fresh))):
        o = {}
        for i, v in enumerate(others): o[v] = i + 1
        for i, v in enumerate(perm): o[v] = 1000 + i
        orders.append(o)
        o2 = dict(o)
        for i, v in enumerate(reversed(others)): o2[v] = i + 1
        orders.append(o2)
    for o in orders:
        try:
            if reduce_mod(p, rels, o).is_zero(): return True
        except Unsupported:
            continue
    return False
