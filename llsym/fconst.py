"""Specification constants of Curve25519 / edwards25519 / ristretto255, computed from their definitions
(never read from the repository)."""
P = 2**255 - 19
L = 2**252 + 27742317777372353535851937790883648493
def inv(x): return pow(x, P - 2, P)
D = (-121665 * inv(121666)) % P
D2 = (2 * D) % P
SQRT_M1 = pow(2, (P - 1) // 4, P)           # RFC 8032 / RFC 9496: 2^((p-1)/4), the non-negative (even) root
assert SQRT_M1 * SQRT_M1 % P == P - 1 and SQRT_M1 % 2 == 0
A = 486662
A24 = 121666                                  # (A+2)/4 as used by RFC 7748 ladder with the dalek formula (APLUS2_OVER_FOUR)
def sqrt(x):
    """a square root of x mod p or None"""
    r = pow(x, (P + 3) // 8, P)
    if r * r % P == x % P: return r
    r = r * SQRT_M1 % P
    if r * r % P == x % P: return r
    return None
def nonneg(x):
    x %= P
    return x if x % 2 == 0 else P - x
ONE_MINUS_D_SQ = (1 - D * D) % P
D_MINUS_ONE_SQ = (D - 1) * (D - 1) % P
SQRT_AD_MINUS_ONE = 25063068953384623474111414158702152701244531502492656460079210482610430750235  # RFC 9496 4.1 picks this root of a*d-1 (a=-1); it is the odd one
assert SQRT_AD_MINUS_ONE * SQRT_AD_MINUS_ONE % P == (-D - 1) % P
INVSQRT_A_MINUS_D = nonneg(sqrt(inv((-1 - D) % P)))        # 1/sqrt(a-d)
# RFC 9496 section 4.1 decimal values (independent transcription) for cross-checking the formulas above
RFC9496 = dict(
    D=37095705934669439343138083508754565189542113879843219016388785533085940283555,
    SQRT_M1=19681161376707505956807079304988542015446066515923890162744021073123829784752,
    SQRT_AD_MINUS_ONE=25063068953384623474111414158702152701244531502492656460079210482610430750235,
    INVSQRT_A_MINUS_D=54469307008909316920995813868745141605393597292927456921205312896311721017578,
    ONE_MINUS_D_SQ=1159843021668779879193775521855586647937357759715417654439879720876111806838,
    D_MINUS_ONE_SQ=40440834346308536858101042469323190826248399146238708352240133220865137265952)
# base point
BY = 4 * inv(5) % P
_bx = sqrt((BY * BY - 1) * inv(D * BY * BY + 1) % P)
BX = _bx if _bx % 2 == 0 else P - _bx
def ed_add(p1, p2):
    x1, y1 = p1; x2, y2 = p2
    t = D * x1 * x2 * y1 * y2 % P
    return ((x1 * y2 + y1 * x2) * inv(1 + t) % P, (y1 * y2 + x1 * x2) * inv(1 - t) % P)
def ed_mul(k, pt):
    r = (0, 1); q = pt
    while k:
        if k & 1: r = ed_add(r, q)
        q = ed_add(q, q); k >>= 1
    return r
