"""vp replay <violation.json> : re-runs the recorded counterexample(s) against the natively compiled crate
(built now from /repo with the hooks) and prints what the real code computes next to what the check recorded."""
import json, sys
from vp import native, build

def main(argv):
    if not argv: print("usage: vp replay <path>"); return 2
    rec = json.load(open(argv[0]))
    print("harness:", rec.get("harness"), "| function:", rec.get("function"), "| config:", rec.get("config"))
    print("status recorded:", rec.get("status"), "|", rec.get("why", ""))
    n = 0
    for g in rec.get("goals", []):
        if g.get("verdict") != "sat": continue
        print("violated goal:", g.get("goal"))
        print("  inputs (model):", g.get("model"))
        rp = g.get("replay") or {}
        nc = rp.get("native_call")
        if nc:
            for profile in ("release", "debug"):
                try:
                    out = native.run(nc["config"], [(nc["fn"], [bytes.fromhex(a) for a in nc["args_hex"]])], profile=profile)[0]
                except build.BuildError as e:
                    print("  native (%s): build failed: %s" % (profile, str(e)[-300:])); continue
                if isinstance(out, tuple): print("  native (%s): %s %s" % (profile, out[0], out[1]))
                elif out is None: print("  native (%s): wrapper unknown" % profile)
                else: print("  native (%s) output limbs/bytes: %s" % (profile, native.bytes_limbs(out[:nc["out_size"]], nc["out_cell"])))
            print("  recorded interpreter outputs:", rp.get("llsym_concrete_outputs"))
            n += 1
    # group-level / protocol-level records keep one native call at the top level: {native_call, args (hex) | scalar ..., native_result, specification}
    rp = rec.get("replay")
    if isinstance(rp, dict) and rp.get("native_call") and isinstance(rp.get("args"), list):
        cfg = rec.get("config") or "serial64"
        for profile in ((rp.get("native_profile", "release").split()[0],) if rp.get("native_profile") else ("release",)):
            try:
                out = native.run(cfg, [(rp["native_call"], [bytes.fromhex(a) for a in rp["args"]])], profile=profile)[0]
                print("  native %s (%s, %s): %s" % (rp["native_call"], cfg, profile, out.hex() if isinstance(out, bytes) else out))
            except Exception as e: print("  native run failed:", str(e)[:300])
        print("  recorded native result:", rp.get("native_result"), "| specification:", rp.get("specification"))
        n += 1
    elif rp is not None:
        print("replay record:", json.dumps(rp, default=str)[:1500])
    for p in rec.get("failing_paths", []):
        print("failing path:", p)
    build.cleanup()
    return 0
