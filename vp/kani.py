"""Runs Kani proof harnesses that are compiled inside the crates through the cfg-guarded include hook.
One `cargo kani` invocation per (crate, config, feature set) with -j; per-harness verdicts are parsed from the
terse output.  A harness counts as passed only if Kani reports VERIFICATION:- SUCCESSFUL for it *and* all its
cover properties are satisfied (vacuity witness); anything else (FAILED, ERROR, timeout, not reported) is
reported as such."""
import os, re, subprocess, time, sys, hashlib
from vp import build

def run(crate, config, harnesses, features=None, no_default=False, stubbing=False, timeout_s=900, jobs=10, unwind=None):
    """returns dict harness -> dict(status, time_s, checks, failed, covers, detail)"""
    key = hashlib.sha1(repr((crate, config, tuple(features or ()), no_default)).encode()).hexdigest()[:8]
    tdir = os.path.join(build.workdir(), "kani-%s-%s" % (crate, key))
    env = build.hook_env()
    # Kani's compiler is a nightly: raise the macro recursion limit (stacked #[kani::stub] attributes nest deeply; the crates cannot be edited)
    env["RUSTFLAGS"] = "--cfg curve25519_dalek_verif " + build.CONFIGS[config] + ' -Zcrate-attr=recursion_limit="1024"' 
    cmd = ["cargo", "kani", "--target-dir", tdir, "-j", str(jobs), "--output-format", "terse"]
    if stubbing: cmd += ["-Z", "stubbing"]
    if no_default: cmd.append("--no-default-features")
    if features: cmd += ["--features", ",".join(features)]
    for h in harnesses: cmd += ["--harness", h]
    t0 = time.time()
    try:
        r = subprocess.run(["timeout", str(timeout_s)] + cmd, cwd=os.path.join(build.REPO, crate), env=env, capture_output=True, text=True)
        out = r.stdout + "\n" + r.stderr
        timed_out = (r.returncode == 124)
    except Exception as e:
        out = str(e); timed_out = False
    wall = time.time() - t0
    res = {}
    cur = {}      # thread -> harness
    last = None
    blocks = {}   # harness -> text
    for line in out.splitlines():
        m = re.match(r'^(?:Thread (\d+): )?Checking harness ([\w:]+)\.\.\.', line)
        if m:
            t = m.group(1) or "0"; h = m.group(2).split("::")[-1]; cur[t] = h; blocks.setdefault(h, ""); last = h; continue
        m = re.match(r'^Thread (\d+):\s*$', line)
        if m: last = cur.get(m.group(1)); continue
        if last is not None: blocks[last] = blocks.get(last, "") + line + "\n"
    for h in harnesses:
        names = [k for k in blocks if k == h or k.startswith(h)]
        if not names:
            res[h] = dict(status="not reported" + (" (timeout)" if timed_out else ""), detail=out[-600:] if not blocks else ""); continue
        for k in names:
            b = blocks[k]
            st = "unknown"
            if "VERIFICATION:- SUCCESSFUL" in b: st = "successful"
            elif "VERIFICATION:- FAILED" in b: st = "failed"
            elif not b.strip(): st = "no result" + (" (timeout)" if timed_out else "")
            m = re.search(r'\*\* (\d+) of (\d+) failed', b)
            cv = re.search(r'\*\* (\d+) of (\d+) cover properties satisfied', b)
            tm = re.search(r'Verification Time: ([\d.]+)s', b)
            d = dict(status=st, failed=int(m.group(1)) if m else None, checks=int(m.group(2)) if m else None,
                     covers=(int(cv.group(1)), int(cv.group(2))) if cv else None, time_s=float(tm.group(1)) if tm else None)
            if st == "successful" and cv and int(cv.group(1)) < int(cv.group(2)):
                d["status"] = "vacuous (cover unsatisfied)"
            if st == "failed":
                d["detail"] = "\n".join(l for l in b.splitlines() if "Failed Checks" in l or "FAILURE" in l or "File:" in l)[:1500]
            res[k] = d
    res["_wall_s"] = wall
    if not blocks and "error" in out.lower():
        res["_build_error"] = out[-3000:]
    return res

def record(rep, prop_cfg, results, wanted, meta):
    """turn Kani results into report entries. meta: harness -> dict(function, bounds, stubs, what)"""
    for h in wanted:
        names = [k for k in results if not k.startswith("_") and (k == h or k.startswith(h))]
        if not names: names = [h]
        for k in names:
            r = results.get(k, dict(status="not reported"))
            m = meta.get(h, {})
            st = "ok" if r["status"] == "successful" else ("violation" if r["status"] == "failed" else "inconclusive")
            rec = dict(harness="kani:%s/%s" % (prop_cfg, k), config=prop_cfg, function=m.get("function", k), status=st,
                       why="" if st == "ok" else ("Kani: " + r["status"] + " " + (r.get("detail") or "")[:600]),
                       bounds=m.get("bounds", ""), wall_s=r.get("time_s") or 0.0, assumptions=m.get("stubs", []),
                       goals=[dict(goal=m.get("what", k), verdict="unsat" if st == "ok" else ("sat" if st == "violation" else "unknown"),
                                   solver_s=r.get("time_s") or 0.0, cases=1, solver_calls=1, kind="CBMC/SAT", checks=r.get("checks"), covers=r.get("covers"))])
            if "_build_error" in results and st != "ok": rec["why"] += " | build: " + results["_build_error"][-800:]
            rep.add(**rec); rep.functions.add(rec["function"]); rep.configs.add(prop_cfg)
