"""Layer-L harness helpers: run one `vp_*` wrapper of an O3 IR module symbolically and discharge goals.

A harness = (module, entry symbol, argument layout with limb bounds / assumptions, goals).
Result records go into a shared Report (evidence).  Verdicts:
  ok            every goal unsat (holds for all values within the bounds), vacuity witness sat
  violation     a goal is sat AND the model reproduces in llsym's concrete mode (native replay is done by
                the caller where a native entry point exists)
  inconclusive  unknown / solver error / unsupported IR / model does not reproduce  -> exit 2, never a pass
"""
import time, traceback, json, os
from llsym import ir, lsym, smt
from llsym.poly import Poly, Ctx, ZERO
from llsym.lsym import Cond, Ptr, c_not, c_and, c_or

P25519 = 2**255 - 19
ELL = 2**252 + 27742317777372353535851937790883648493

_modcache = {}
def module(path):
    m = _modcache.get(path)
    if m is None:
        m = ir.Module(open(path).read()); _modcache[path] = m
    return m

class OffPath(Exception):
    """a sampled input vector does not follow the path under analysis (path-forked harnesses)"""

class ContractViolation(lsym.PanicReached):
    """an admissible concrete input drives a summarised callee outside its contract's precondition"""

class Layout:
    """limb layout of a backend type: cell size in bytes, bit weight of each limb"""
    def __init__(self, name, cell, weights):
        self.name, self.cell, self.weights, self.n = name, cell, weights, len(weights)
    def value(self, limbs):
        tot = ZERO
        for w, x in zip(self.weights, limbs): tot = tot + x.scale(1 << w)
        return tot
    def size(self): return self.cell * self.n
    def off(self, i): return self.cell * i

FE51 = Layout("FieldElement51", 8, [51 * i for i in range(5)])
FE2625 = Layout("FieldElement2625", 4, [0, 26, 51, 77, 102, 128, 153, 179, 204, 230])
SC52 = Layout("Scalar52", 8, [52 * i for i in range(5)])
SC29 = Layout("Scalar29", 4, [29 * i for i in range(9)])
BYTES32 = Layout("[u8;32]", 1, [8 * i for i in range(32)])
BYTES64 = Layout("[u8;64]", 1, [8 * i for i in range(64)])

class Run:
    """one symbolic execution of an entry point"""
    def __init__(self, mod, intercept=None):
        self.mod = mod
        self.it = lsym.LSym(mod, intercept=intercept)
        self.ctx = self.it.ctx
        self.inputs = {}     # name -> (layout, [Poly], ptr)
        self.exec_s = 0.0
        self.concrete = None  # dict var -> int : concrete mode (all inputs constants)
        self.shadow = None    # dict var -> int : symbolic mode with a concrete shadow execution (self-test)
    def arg(self, name, layout, bounds, prefix=None):
        """allocate an argument object with symbolic limbs; bounds: list of inclusive max per limb (or int)"""
        p = self.it.new_region(name, layout.size())
        if isinstance(bounds, int): bounds = [bounds] * layout.n
        limbs = []
        for i in range(layout.n):
            vn = "%s%d" % (prefix or name, i)
            if self.concrete is not None: v = Poly.const(self.concrete[vn])
            elif self.shadow is not None:
                if self.ctx.shadow is None: self.ctx.shadow = {}
                v = self.ctx.input(vn, 0, bounds[i], shadow=self.shadow[vn])
            else: v = self.ctx.input(vn, 0, bounds[i])
            self.it.store(Ptr(p.r, layout.off(i)), v, layout.cell); limbs.append(v)
        self.inputs[name] = (layout, limbs, p)
        return p, limbs
    def const_arg(self, name, layout, values):
        p = self.it.new_region(name, layout.size())
        for i, v in enumerate(values): self.it.store(Ptr(p.r, layout.off(i)), Poly.const(v), layout.cell)
        return p
    def out(self, name, layout):
        p = self.it.new_region(name, layout.size())
        return p
    def call(self, fn, args):
        t0 = time.time()
        r = self.it.call(fn, args)
        self.exec_s += time.time() - t0
        return r
    def read(self, p, layout):
        return [self.it.P(self.it.load(Ptr(p.r, p.o + layout.off(i)), layout.cell)) for i in range(layout.n)]
    def assume(self, cond): self.ctx.assume.append(cond)

def lt(a, b): return Cond("cmp", "lt", a, b if isinstance(b, Poly) else Poly.const(b))
def le(a, b): return Cond("cmp", "le", a, b if isinstance(b, Poly) else Poly.const(b))
def ge(a, b): return Cond("cmp", "ge", a, b if isinstance(b, Poly) else Poly.const(b))
def eq(a, b): return Cond("cmp", "eq", a, b if isinstance(b, Poly) else Poly.const(b))
def ne(a, b): return Cond("cmp", "ne", a, b if isinstance(b, Poly) else Poly.const(b))
def modne(a, m): return Cond("modne", a, m)

class Report:
    """collects per-harness results for the evidence file"""
    def __init__(self, prop):
        self.prop = prop
        self.items = []
        self.t0 = time.time()
        self.violations = []
        self.inconclusive = []
        self.functions = set()
        self.configs = set()
    def add(self, **kw):
        self.items.append(kw)
        st = kw.get("status")
        if st == "violation": self.violations.append(kw)
        elif st != "ok": self.inconclusive.append(kw)
    def ok(self): return not self.violations and not self.inconclusive

def eval_concrete(run, cond):
    """truth value of a Cond whose polynomials are all constants (concrete mode)"""
    k = cond.k
    if k == "const": return cond.a[0]
    if k == "not": return not eval_concrete(run, cond.a[0])
    if k == "and": return eval_concrete(run, cond.a[0]) and eval_concrete(run, cond.a[1])
    if k == "or": return eval_concrete(run, cond.a[0]) or eval_concrete(run, cond.a[1])
    if k == "cmp":
        d = run.ctx.resolve(cond.a[1] - cond.a[2])
        if not d.is_const(): raise ValueError("non-constant value in concrete mode")
        v = d.cval()
        return {"eq": v == 0, "ne": v != 0, "lt": v < 0, "le": v <= 0, "gt": v > 0, "ge": v >= 0}[cond.a[0]]
    if k in ("modne", "modeq"):
        d = run.ctx.resolve(cond.a[0])
        if not d.is_const(): raise ValueError("non-constant value in concrete mode")
        z = d.cval() % cond.a[1] == 0
        return z == (k == "modeq")
    raise ValueError(k)

def concretize(run, model, seed_env=None):
    """full input assignment from a solver model; inputs that were refined into digits are rebuilt from the
    digit values (variables absent from the model are unconstrained there: lower bound is used)"""
    env = {}
    ctx = run.ctx
    def val(v):
        lo, hi = ctx.bounds[v]
        x = model.get(v) if model else None
        if x is None: x = lo if lo > 0 or hi < 0 else 0
        return min(max(x, lo), hi)
    for name, (layout, limbs, p) in run.inputs.items():
        for x in limbs:
            if x.is_const(): continue
            (m, c), = x.t.items(); v = m[0]
            r = ctx.resolve(x)
            env[v] = r.eval({u: val(u) for u in r.vars()})
    return env

def candidate_vectors(run, n):
    """input vectors satisfying the harness assumptions: all-max, all-min, per-limb extremes, random"""
    import random
    ctx = run.ctx
    rnd = random.Random(int(os.environ.get("VERIF_SEED", "0") or 0) + 777)
    names = []
    for name, (layout, limbs, p) in run.inputs.items():
        for x in limbs:
            if x.is_const(): continue
            (m, c), = x.t.items(); names.append(m[0])
    out = []
    def ok(env):
        for a in ctx.assume:
            try:
                if not _eval_cond_env(a, env): return False
            except KeyError: continue      # path condition over internal variables: checked by the shadow run
        return True
    modes = ["max", "min"] + ["rand"] * (n // 2) + ["edge"] * (n // 2)
    for mode in modes:
        env = {}
        for v in names:
            lo, hi = ctx.bounds.get(v, (0, 0))
            if mode == "max": env[v] = hi
            elif mode == "min": env[v] = lo
            elif mode == "rand": env[v] = rnd.randint(lo, hi)
            else: env[v] = rnd.choice([hi, hi, hi - rnd.randint(0, 3), lo, (hi + 1) // 2, rnd.randint(lo, hi)])
            env[v] = min(max(env[v], lo), hi)
        if ok(env): out.append(env)
    # structured integer values for every input taken as a whole (boundaries of the group order and of the prime, powers of two)
    Lq = 2**252 + 27742317777372353535851937790883648493; Pq = 2**255 - 19
    specials = [Lq - 1, Lq, Lq + 1, 2**252, 2**252 - 1, 2**252 + 1, 2 * Lq - 1, 2 * Lq, 2**253 - 1, 2**253, 8 * Lq - 1, 8 * Lq, 2**255 - 1, 2**255, 2**256 - 1, Pq - 1, Pq, Pq + 1, 2 * Pq, 0, 1,
                Lq * Lq - 1, Lq * Lq, 2**512 - 1, (Lq - 1) << 256]
    for sp in specials:
        for tgt in run.inputs:
            env = {}; fits = True
            for name, (layout, limbs, p_) in run.inputs.items():
                val = sp if name == tgt else rnd.choice([0, 1, Lq - 1])
                for i, x in enumerate(limbs):
                    if x.is_const(): continue
                    (m, c), = x.t.items(); v = m[0]
                    lo, hi = ctx.bounds.get(v, (0, 0))
                    w = layout.weights[i]; w2 = layout.weights[i + 1] if i + 1 < len(layout.weights) else None
                    piece = (val >> w) if w2 is None else ((val >> w) & ((1 << (w2 - w)) - 1))
                    if not (lo <= piece <= hi): fits = False; break
                    env[v] = piece
                if not fits: break
            if fits and ok(env): out.append(env)
    return out

def native_outputs(nat, run_c, env):
    """run the natively compiled wrapper on the concrete inputs of run_c. nat = (config, fn, out_layout, profile)"""
    from vp import native
    cfg, fn, out_layout = nat[0], nat[1], nat[2]
    profile = nat[3] if len(nat) > 3 else "release"
    args = []
    for name, (layout, limbs, p) in run_c.inputs.items():
        args.append(native.limbs_bytes([x.cval() for x in limbs], layout.cell))
    r = native.run(cfg, [(fn, args)], profile=profile)[0]
    native_outputs.last_call = dict(config=cfg, fn=fn, profile=profile, args_hex=[a.hex() for a in args], out_cell=out_layout.cell, out_size=out_layout.size())
    if r is None: return None, "wrapper unknown to the native runner"
    if isinstance(r, tuple): return None, "native " + r[0] + " " + r[1]
    return native.bytes_limbs(r[:out_layout.size()], out_layout.cell), None

def encoder_selftest(run, pr, roots, rebuild, model, timeout_s, nat=None):
    """Translator validation (DESIGN 5.2) without the solver: re-run the harness symbolically with a concrete
    *shadow* value for every variable (inputs sampled, digits computed from their definitions) and check that
    the emitted constraint system admits that execution - every variable within its declared bounds, every
    side condition and assumption true - and that the symbolic outputs evaluate to the outputs of llsym's
    concrete mode.  rebuild(concrete=env | shadow=env) -> (run2, goals2, outs2)."""
    import random
    ctx = run.ctx
    rnd = random.Random(int(os.environ.get("VERIF_SEED", "0") or 0) + 12345)
    vectors = [("model", concretize(run, model))] if model else []
    for tag in ("rand", "max", "rand2", "min"):
        env = {}
        for name, (layout, limbs, p) in run.inputs.items():
            for x in limbs:
                if x.is_const(): continue
                (m, c), = x.t.items(); v = m[0]
                lo, hi = ctx.bounds[v] if v in ctx.bounds else (0, 0)
                env[v] = hi if tag == "max" else (lo if tag == "min" else rnd.randint(lo, hi))
        ok = True
        for a in ctx.assume:
            try:
                if not _eval_cond_env(a, env): ok = False
            except KeyError: pass          # path condition over internal variables: checked by the shadow run
        if ok: vectors.append((tag, env))
    res = dict(ok=True, vectors=[], method="shadow execution: constraint system evaluated under concrete digit values")
    if not vectors:
        for env in candidate_vectors(run, 64)[:2]: vectors.append(("candidate", env))
    if not vectors and not getattr(rebuild, "path_forked", False):
        res["ok"] = False; res["why"] = "no admissible input vector found (assumptions may be unsatisfiable)"; return res
    if getattr(rebuild, "path_forked", False):
        vectors = vectors + [("cand%d" % i, e) for i, e in enumerate(candidate_vectors(run, 200))]
        if model is None:
            mv = pr.check(Cond("const", True), timeout_s=min(timeout_s, 60), split=False)
            if mv[0] == "sat": vectors.insert(0, ("solver model", concretize(run, mv[1])))
            elif mv[0] == "unsat":
                # the path condition itself is unsatisfiable: no input follows this path, every goal on it holds vacuously
                res["infeasible_path"] = True; res["method"] = "path condition unsatisfiable (solver): path cannot be taken by any input"
                return res
    on_path = 0
    for tag, env in vectors:
        if getattr(rebuild, "path_forked", False):
            if on_path >= 2: break
            try:
                rebuild(shadow=env)
            except OffPath:
                continue
            except lsym.PanicReached:
                pass
            on_path += 1
        try:
            rc, gc, oc = rebuild(concrete=env)
        except lsym.PanicReached as e:
            res["ok"] = False; res["panic_witness"] = dict(vector=tag, inputs=env, panic=str(e))
            res["why"] = "concrete execution of admissible vector %s %s: %s" % (tag, "violates a callee contract" if isinstance(e, ContractViolation) else "panics", e)
            return res
        outs_c = [x.cval() for x in oc]
        rs, gs, osym = rebuild(shadow=env)
        sh = rs.ctx.shadow; c2 = rs.ctx
        bad = None
        for v, (lo, hi) in c2.bounds.items():
            if v not in sh: bad = "variable %s has no shadow value" % v; break
            if not (lo <= sh[v] <= hi): bad = "variable %s = %d outside its declared bounds [%d, %d]" % (v, sh[v], lo, hi); break
        if bad is None:
            for sd in c2.side:
                if sd[0] == "booldef":
                    if (sh[sd[1]] == 1) != rs.it.shadow_cond(sd[2]): bad = "boolean definition of %s violated" % sd[1]; break
                elif sd[0] == "cond":
                    if not rs.it.shadow_cond(sd[1]): bad = "side condition violated: %r" % (sd[1],); break
        if bad is None:
            for v, repl in [(e[0], e[1]) for e in getattr(c2, "extra_defs", []) if len(e) == 2]:
                if sh[v] != c2.resolve(repl).eval(sh): bad = "contract definition of %s violated" % v; break
        if bad is None:
            outs_s = [c2.resolve(x).eval(sh) for x in osym]
            if outs_s != outs_c: bad = "symbolic outputs %s != concrete-mode outputs %s" % (outs_s[:4], outs_c[:4])
        nres = None
        if bad is None and nat is not None:
            no, err = native_outputs(nat, rc, env)
            if no is None: nres = err
            elif no != outs_c: bad = "llsym concrete outputs %s != native (%s) outputs %s" % (outs_c[:4], nat[0], no[:4])
            else: nres = "native outputs agree"
        res["vectors"].append(dict(vector=tag, variables_checked=len(c2.bounds), side_conditions=len(c2.side), native=nres, result=bad or "admitted, outputs agree"))
        res["checked"] = res.get("checked", 0) + 1
        if bad: res["ok"] = False; res["why"] = "vector %s: %s" % (tag, bad)
    if getattr(rebuild, "path_forked", False) and not res.get("checked"):
        res["ok"] = False; res["why"] = "no input vector following this path was found (path may be infeasible)"; res["no_witness"] = True
    return res

def _eval_cond_env(c, env):
    k = c.k
    if k == "const": return c.a[0]
    if k == "not": return not _eval_cond_env(c.a[0], env)
    if k == "and": return _eval_cond_env(c.a[0], env) and _eval_cond_env(c.a[1], env)
    if k == "or": return _eval_cond_env(c.a[0], env) or _eval_cond_env(c.a[1], env)
    if k == "cmp":
        v = (c.a[1] - c.a[2]).eval(env)
        return {"eq": v == 0, "ne": v != 0, "lt": v < 0, "le": v <= 0, "gt": v > 0, "ge": v >= 0}[c.a[0]]
    raise KeyError(k)

def discharge(rep, run, name, goals, roots, config, fn, bounds_note, timeout_s=60, solvers_also=(), replay=None,
              lemma_timeout=10, assumptions=(), selftest=None, nat=None):
    """goals: list of (goal_name, violated_cond).  Runs auto zero-lemmas, vacuity witness, each goal.
    replay: callable(model_env) -> (reproduced: bool, detail) for sat models (concrete re-execution)."""
    t0 = time.time()
    rec = dict(harness=name, config=config, function=fn, bounds=bounds_note, goals=[], exec_s=round(run.exec_s, 3),
               ir_steps=run.it.steps, cuts=dict(run.ctx.stats), assumptions=list(assumptions),
               panic_edges_closed_by_intervals=run.it.panic_edges_closed, panic_edges_to_solver=len(run.it.obligations))
    rep.functions.add(fn); rep.configs.add(config)
    try:
        pr = smt.Problem(run.ctx)
        lem = pr.auto_zero_lemmas(roots)
        rec["zero_lemmas"] = len([l for l in lem if l[1] == "unsat"])
        # obligations recorded during execution (panic edges)
        for desc, cond, path in run.it.obligations:
            goals = [("no-panic: " + desc, cond)] + list(goals)
        status = "ok"
        if selftest is not None:
            vac = ("constructive (shadow execution of an admissible vector satisfies every constraint)", None)
            rec["vacuity_witness"] = vac[0]
        else:
            vac = pr.check(Cond("const", True), timeout_s=timeout_s, split=False)
            rec["vacuity_witness"] = vac[0]
            if vac[0] != "sat": status = "inconclusive"; rec["why"] = "path/assumption constraints not shown satisfiable: " + vac[0]
        # encoder self-test (translator validation, DESIGN 5.2): the constraint system must admit the concrete
        # execution of sampled input vectors and force exactly the concretely computed outputs
        if selftest is not None and status == "ok":
            st = encoder_selftest(run, pr, roots, selftest, vac[1], timeout_s, nat=nat)
            rec["encoder_selftest"] = st
            if not st["ok"] and "panic_witness" in st:
                status = "violation"; rec["why"] = st["why"]
                rec["goals"].append(dict(goal="no panic on admissible inputs (checked build)", verdict="sat", solver_s=0.0, cases=1, solver_calls=0,
                                         model=st["panic_witness"]["inputs"], replay=dict(llsym_concrete="panic: " + st["panic_witness"]["panic"]), reproduced=True))
            elif not st["ok"]: status = "inconclusive"; rec["why"] = "encoder self-test failed: " + st.get("why", "")
        for gent in goals:
            gname, viol = gent[0], gent[1]
            light = len(gent) > 3 and gent[3].get("light")
            v, model, dt, info = pr.check(viol, timeout_s=timeout_s, also=solvers_also, light=bool(light))
            if light and v != "unsat":
                # the reduced constraint set (digit range constraints dropped) is only a sound shortcut for unsat
                v, model, dt2, info = pr.check(viol, timeout_s=timeout_s, also=solvers_also); dt += dt2
            if v == "unsat" and len(gent) > 2 and gent[2] is not None:
                # a proven lemma with a derived fact (e.g. congruence => exact equation with a fresh multiplier):
                # the fact is added to the constraint system for the goals that follow
                gent[2](run.ctx)
                pr2 = smt.Problem(run.ctx); pr2.zero = set(pr.zero)
                pr2.var_elim = pr2.var_elim + [e for e in pr.var_elim if e not in pr2.var_elim]
                pr = pr2
            g = dict(goal=gname, verdict=v, solver_s=round(dt, 3), **info)
            if v == "sat":
                env = concretize(run, model)
                g["model"] = {k: env[k] for k in sorted(env)}
                if replay is not None:
                    try:
                        ok, detail = replay(env, gname)
                    except lsym.PanicReached as e:
                        ok, detail = True, dict(llsym_concrete="panic reached: " + str(e))
                    if ok and nat is not None and selftest is not None and isinstance(detail, dict) and "llsym_concrete_outputs" in detail:
                        try:
                            rc2, _, _ = selftest(concrete=env)
                            no, err = native_outputs(nat, rc2, env)
                            detail["native_outputs"] = no if no is not None else err
                            detail["native_call"] = getattr(native_outputs, "last_call", None)
                            if no is not None and no != detail["llsym_concrete_outputs"]:
                                ok = False; detail["native_disagrees_with_interpreter"] = True
                        except Exception as e:
                            detail["native_error"] = str(e)[:200]
                    g["replay"] = detail
                    if not ok:
                        # product atoms are over-approximated: search corner / random vectors for a real witness
                        for cand in candidate_vectors(run, 96):
                            try:
                                ok2, det2 = replay(cand, gname)
                            except lsym.PanicReached as e:
                                ok2, det2 = True, dict(llsym_concrete="panic reached: " + str(e))
                            except Exception:
                                continue
                            if ok2:
                                ok, detail, env = True, det2, cand
                                g["model"] = {k: cand[k] for k in sorted(cand)}; g["replay"] = det2; g["witness_source"] = "corner/random vector search"
                                if nat is not None and selftest is not None and isinstance(det2, dict) and "llsym_concrete_outputs" in det2:
                                    try:
                                        rc2, _, _ = selftest(concrete=cand)
                                        no, err = native_outputs(nat, rc2, cand)
                                        det2["native_outputs"] = no if no is not None else err
                                        det2["native_call"] = getattr(native_outputs, "last_call", None)
                                        if no is not None and no != det2["llsym_concrete_outputs"]: ok = False
                                    except Exception as e:
                                        det2["native_error"] = str(e)[:200]
                                if ok: break
                    if ok: status = "violation"; g["reproduced"] = True
                    else:
                        g["reproduced"] = False
                        if status == "ok": status = "inconclusive"; rec["why"] = "sat model does not reproduce concretely (" + gname + ")"
                else:
                    if status == "ok": status = "inconclusive"; rec["why"] = "sat without replay (" + gname + ")"
            elif v != "unsat":
                # the solver gave up (time-out): structured / corner / random admissible vectors are run through the concrete interpreter and the
                # natively built function; a vector that violates the goal there is a replayed counterexample (found by search, not by the solver)
                found = False
                if replay is not None:
                    for cand in candidate_vectors(run, 64):
                        try: ok2, det2 = replay(cand, gname)
                        except lsym.PanicReached as e: ok2, det2 = True, dict(llsym_concrete="panic reached: " + str(e))
                        except Exception: continue
                        if not ok2: continue
                        if nat is not None and selftest is not None and isinstance(det2, dict) and "llsym_concrete_outputs" in det2:
                            try:
                                rc2, _, _ = selftest(concrete=cand)
                                no, err = native_outputs(nat, rc2, cand)
                                det2["native_outputs"] = no if no is not None else err
                                det2["native_call"] = getattr(native_outputs, "last_call", None)
                                if no is not None and no != det2["llsym_concrete_outputs"]: continue
                            except Exception as e: det2["native_error"] = str(e)[:200]
                        g["model"] = {k: cand[k] for k in sorted(cand)}; g["replay"] = det2; g["reproduced"] = True
                        g["witness_source"] = "candidate-vector search after solver verdict " + v; g["verdict"] = "sat"
                        status = "violation"; found = True; break
                if not found and status == "ok": status = "inconclusive"; rec["why"] = "solver verdict %s on %s" % (v, gname)
            rec["goals"].append(g)
        rec["status"] = status
    except ir.Unsupported as e:
        rec["status"] = "inconclusive"; rec["why"] = "unsupported IR: " + str(e)
    except lsym.PanicReached as e:
        rec["status"] = "inconclusive"; rec["why"] = "panic reached on every path of the symbolic run: " + str(e)
    rec["wall_s"] = round(time.time() - t0, 3)
    rep.add(**rec)
    return rec

def guarded(rep, name, config, fn, thunk):
    """run a harness thunk; engine limitations become an inconclusive record instead of a crash"""
    try:
        return thunk()
    except ir.Unsupported as e:
        rep.add(harness=name, config=config, function=fn, status="inconclusive", why="unsupported IR: " + str(e), goals=[], wall_s=0)
    except lsym.PanicReached as e:
        rep.add(harness=name, config=config, function=fn, status="inconclusive", why="panic reached unconditionally: " + str(e), goals=[], wall_s=0)
    except Exception as e:
        rep.add(harness=name, config=config, function=fn, status="inconclusive", why="engine error: %s: %s" % (type(e).__name__, str(e)[:300]), goals=[], wall_s=0,
                trace=traceback.format_exc()[-1500:])

_TASKS = []
_REP = None
class TaskBudget(ir.Unsupported): pass
def _alarm(signum, frame): raise TaskBudget("harness exceeded its wall-clock budget (VERIF_TASK_TIMEOUT)")
def _worker(i):
    """one harness in a forked worker: address-space limit and wall-clock budget, so that a harness that explodes on a changed tree ends as
    'inconclusive' (exit 2) instead of exhausting the machine"""
    import signal, resource
    rep = _REP
    n0 = len(rep.items)
    try:
        lim = int(os.environ.get("VERIF_TASK_MEM_GB", "12")) << 30
        resource.setrlimit(resource.RLIMIT_AS, (lim, lim))
    except Exception: pass
    signal.signal(signal.SIGALRM, _alarm); signal.alarm(int(os.environ.get("VERIF_TASK_TIMEOUT", "1500")))
    try:
        try: guarded(rep, "task#%d" % i, "?", "?", _TASKS[i])
        except MemoryError:
            rep.add(harness="task#%d" % i, config="?", function="?", status="inconclusive", why="harness exceeded its memory budget (VERIF_TASK_MEM_GB)", goals=[], wall_s=0)
    finally: signal.alarm(0)
    return rep.items[n0:], dict(smt.STATS)

def run_tasks(tasks, rep, jobs=None):
    """run harness closures in forked worker processes (symbolic execution and SMT-LIB generation are
    CPU-bound python; solver calls are sub-processes); results are merged into `rep` in task order"""
    global _TASKS, _REP
    import multiprocessing as mp
    jobs = jobs or int(os.environ.get("VERIF_HARNESS_JOBS", "8"))
    _TASKS = list(tasks); _REP = rep
    if jobs <= 1 or len(tasks) <= 1:
        for i in range(len(tasks)): guarded(rep, "task#%d" % i, "?", "?", tasks[i])
        return
    ctx = mp.get_context("fork")
    with ctx.Pool(min(jobs, len(tasks))) as pool:
        for items, st in pool.imap(_worker, range(len(tasks))):
            for it in items:
                rep.add(**it)
                if it.get("function"): rep.functions.add(it["function"])
                if it.get("config"): rep.configs.add(it["config"])
            smt.STATS["queries"] += st.get("queries", 0); smt.STATS["solver_s"] += st.get("solver_s", 0.0)
            smt.STATS["closed_without_solver"] += st.get("closed_without_solver", 0)
            for k, v in st.get("by_verdict", {}).items(): smt.STATS["by_verdict"][k] = smt.STATS["by_verdict"].get(k, 0) + v
