"""Native replay runner: builds /verif/native (a tiny binary linked against /repo's curve25519-dalek with the
verification hooks) for a backend configuration and profile, and runs wrapper calls on concrete byte images."""
import os, subprocess, shutil, time, sys
from vp import build

_bins = {}
def binary(config, profile="release"):
    key = (config, profile)
    if key in _bins: return _bins[key]
    src = os.path.join(build.VERIF, "native")
    tdir = os.path.join(build.workdir(), "native-%s-%s" % (config, profile))
    proj = os.path.join(tdir, "proj")
    os.makedirs(proj, exist_ok=True)
    shutil.copytree(src, proj, dirs_exist_ok=True)
    ct = open(os.path.join(proj, "Cargo.toml")).read().replace('path = "/repo/curve25519-dalek"', 'path = "%s/curve25519-dalek"' % build.REPO)
    open(os.path.join(proj, "Cargo.toml"), "w").write(ct)
    lock = os.path.join(build.REPO, "Cargo.lock")
    if os.path.exists(lock): shutil.copy(lock, os.path.join(proj, "Cargo.lock"))
    env = build.hook_env()
    env["RUSTFLAGS"] = "--cfg curve25519_dalek_verif " + build.CONFIGS[config]
    cmd = ["cargo"] + (["+nightly"] if config == "avx512" else []) + ["build", "--offline", "--target-dir", os.path.join(tdir, "target")]
    if profile == "release": cmd.append("--release")
    t0 = time.time()
    r = subprocess.run(cmd, cwd=proj, env=env, capture_output=True, text=True)
    if r.returncode != 0:
        # lock file may not match a standalone project: retry without it
        try: os.unlink(os.path.join(proj, "Cargo.lock"))
        except OSError: pass
        r = subprocess.run(cmd, cwd=proj, env=env, capture_output=True, text=True)
    if r.returncode != 0: raise build.BuildError("native runner build failed (%s %s):\n%s" % (config, profile, r.stderr[-3000:]))
    path = os.path.join(tdir, "target", "release" if profile == "release" else "debug", "vp-native")
    sys.stderr.write("[build] native runner %s %s -> %.1fs\n" % (config, profile, time.time() - t0))
    _bins[key] = path
    return path

def run(config, calls, profile="release", timeout=120):
    """calls: list of (fn_name, [bytes, ...]); returns list of bytes | ('PANIC', msg) | None (unknown wrapper)"""
    exe = binary(config, profile)
    inp = "\n".join(fn + "".join(" " + (a.hex() if a else "") for a in args) for fn, args in calls) + "\n"
    r = subprocess.run([exe], input=inp, capture_output=True, text=True, timeout=timeout)
    out = []
    for line in r.stdout.splitlines():
        line = line.strip()
        if line == "UNKNOWN": out.append(None)
        elif line.startswith("PANIC"): out.append(("PANIC", line[6:]))
        elif line == "-": out.append(b"")
        else: out.append(bytes.fromhex(line))
    while len(out) < len(calls): out.append(("PANIC", "runner died: " + r.stderr[-300:]))
    return out

def limbs_bytes(vals, cell):
    return b"".join(int(v).to_bytes(cell, "little") for v in vals)
def bytes_limbs(b, cell):
    return [int.from_bytes(b[i:i + cell], "little") for i in range(0, len(b), cell)]
