"""Layer-F harness helpers: enumerate the oracle paths of a `vp_*` wrapper in O0 IR with field operations
intercepted, and check verification conditions (polynomial identities modulo the path's algebraic facts).

A harness is a function body(it) that sets up abstract inputs, calls the entry point and returns a list of
verification conditions for the executed path:  ("name", poly)            poly must be 0 mod the path relations
                                              ("name", bool)            a plain boolean condition
Path enumeration is exhaustive over all outcomes of all predicates (DFS over the oracle's decision vector).
"""
import time, traceback
from llsym import ir, fsym, fconst
from llsym.fsym import FSym, FE, Oracle, fnorm, is_zero_mod, reduce_mod, ByteString, P
from llsym.poly import Poly, ZERO, ONE
from llsym.lsym import Ptr, PanicReached
from vp.lharness import module, Report

V = Poly.var
C = Poly.const
LAYOUTS = {"serial64": (8, 5, [51 * i for i in range(5)]),
           "serial32": (4, 10, [0, 26, 51, 77, 102, 128, 153, 179, 204, 230])}
LAYOUTS["fiat64"] = LAYOUTS["serial64"]; LAYOUTS["fiat32"] = LAYOUTS["serial32"]
LAYOUTS["simd"] = LAYOUTS["serial64"]; LAYOUTS["avx512"] = LAYOUTS["serial64"]

class PathResult:
    def __init__(self, decisions, trace, vcs, facts, kcalls, steps):
        self.decisions, self.trace, self.vcs, self.facts, self.kcalls, self.steps = decisions, trace, vcs, facts, kcalls, steps

def infeasible(it):
    """the path's assumptions are contradictory (1 in the ideal, or a polynomial assumed non-zero reduces to 0)"""
    try:
        if is_zero_mod(ONE, it.rel): return True
        for nz in it.nonzero:
            if is_zero_mod(nz, it.rel): return True
    except Exception:
        return False
    for f in it.facts:
        if f[0] == "neg":
            for g in it.facts:
                if g[0] == "neg" and g is not f:
                    # is_negative(x) and is_negative(-x) must differ when x != 0; is_negative(0) = 0
                    if fnorm(f[1] + g[1]).is_zero() and f[2] == g[2] and any(fnorm(nz - f[1]).is_zero() or fnorm(nz + f[1]).is_zero() for nz in it.nonzero):
                        return True
            if f[2] == 1 and is_zero_mod(f[1], it.rel): return True
    return False

def run_paths(rep, name, cfg, modpath, fn, body, max_paths=512, extra=None, **fsym_kw):
    """body(it) -> list of VCs. Records one harness entry in rep."""
    t0 = time.time()
    if isinstance(modpath, list):
        from checks.c14 import linked
        mod = linked(modpath)
    else: mod = module(modpath)
    decisions = []
    paths = []; status = "ok"; why = ""
    goals = []
    npaths = 0; ninfeasible = 0
    kcalls = {}
    steps = 0
    try:
        while True:
            npaths += 1
            if npaths > max_paths:
                status = "inconclusive"; why = "more than %d oracle paths" % max_paths; break
            it = FSym(mod, Oracle(decisions), layout=LAYOUTS[cfg], **fsym_kw)
            vcs = body(it)
            steps += it.steps
            for k, v in it.kcalls.items(): kcalls[k] = kcalls.get(k, 0) + v
            trace = list(it.oracle.trace)
            failed = []
            for vc in vcs:
                nm, cond = vc[0], vc[1]
                if isinstance(cond, bool): ok = cond
                else: ok = is_zero_mod(cond, it.rel)
                goals.append(dict(goal="%s [path %s]" % (nm, "".join(str(v) for _, v in trace) or "-"), verdict="unsat" if ok else "sat", solver_s=0.0,
                                  cases=1, solver_calls=0, kind="structural" if isinstance(cond, bool) else "polynomial identity mod p",
                                  decided_by="polynomial normal form mod p modulo the path's relations"))
                if not ok: failed.append(nm)
            if failed:
                if infeasible(it):
                    ninfeasible += 1
                    for g in goals[-len(vcs):]: g["verdict"] = "unsat"; g["note"] = "path assumptions contradictory"
                else:
                    status = "violation"
                    why = "VC failed: %s on path %s" % (failed, [(d, v) for d, v in trace])
                    paths.append(dict(trace=[(d[:120], v) for d, v in trace], failed=failed))
            decisions = it.oracle.next_decisions()
            if decisions is None: break
    except ir.Unsupported as e:
        status = "inconclusive"; why = "unsupported IR: " + str(e)
    except PanicReached as e:
        status = "violation"; why = "panic reached: %s (path %s)" % (e, decisions)
    rec = dict(harness=name, config=cfg, function=fn, status=status, why=why, goals=goals, paths=npaths, infeasible_paths=ninfeasible,
               ir_steps=steps, intercepted=kcalls, wall_s=round(time.time() - t0, 3), bounds="all field values (symbolic ring elements); all predicate outcomes enumerated",
               failing_paths=paths[:4])
    if extra: rec.update(extra)
    rep.add(**rec); rep.functions.add(fn); rep.configs.add(cfg)
    return rec

# ---------------------------------------------------------------- input builders
def put_point(it, tag, coords):
    """EdwardsPoint-like struct of consecutive field elements"""
    p = it.new_region(tag, it.fesize * len(coords))
    for i, f in enumerate(coords): it.put(Ptr(p.r, it.fesize * i), FE(f))
    return p
def get_fes(it, p, n):
    return [it.get(Ptr(p.r, p.o + it.fesize * i)).p for i in range(n)]
def affine_point(it, tag):
    """extended point parametrised by affine (x,y) and a projective scale z: X=xz Y=yz Z=z T=xyz"""
    x, y, z = V(tag + "x"), V(tag + "y"), V(tag + "z")
    return put_point(it, tag, [x * z, y * z, z, x * y * z]), (x, y, z)
def curve_eq(x, y):
    d = C(fconst.D)
    return fnorm(-(x * x) + y * y - ONE - d * x * x * y * y)
