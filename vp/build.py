"""Builds LLVM IR of the crates from /repo's CURRENT working tree, with the verification hooks enabled.

Flavours:  O3     release, codegen-units=1                      (layer L, C10, C12, C14)
           O3chk  O3 + overflow-checks + debug-assertions       (C11)
           O0     opt-level=0, panic=abort, no debug assertions (layers F, G)
Configs:   serial64 serial32 fiat64 fiat32 simd avx512(nightly)
Everything goes to a scratch directory (VERIF_WORK, default /var/tmp/vp-work-<pid>) that the driver
removes on exit.
"""
import os, subprocess, glob, shutil, time, hashlib, sys

REPO = os.environ.get("VERIF_REPO", "/repo")
VERIF = os.path.dirname(os.path.dirname(os.path.abspath(__file__)))

CONFIGS = {
    "serial64": '--cfg curve25519_dalek_backend="serial"',
    "serial32": '--cfg curve25519_dalek_backend="serial" --cfg curve25519_dalek_bits="32"',
    "fiat64": '--cfg curve25519_dalek_backend="fiat"',
    "fiat32": '--cfg curve25519_dalek_backend="fiat" --cfg curve25519_dalek_bits="32"',
    "simd": '--cfg curve25519_dalek_backend="simd"',
    "avx512": '--cfg curve25519_dalek_backend="unstable_avx512"',
}
FLAVOURS = {
    "O3": ["-C", "codegen-units=1"],
    "O3chk": ["-C", "codegen-units=1", "-C", "overflow-checks=on", "-C", "debug-assertions=on"],
    "O0": ["-C", "codegen-units=1", "-C", "opt-level=0", "-C", "panic=abort", "-C", "debuginfo=0",
           "-C", "overflow-checks=off", "-C", "debug-assertions=off"],
    "O0chk": ["-C", "codegen-units=1", "-C", "opt-level=0", "-C", "panic=abort", "-C", "debuginfo=0",
              "-C", "overflow-checks=on", "-C", "debug-assertions=on"],
}

_work = None
def workdir():
    global _work
    if _work is None:
        _work = os.environ.get("VERIF_WORK") or "/var/tmp/vp-work-%d" % os.getpid()
        os.makedirs(_work, exist_ok=True)
    return _work

def cleanup():
    global _work
    if _work and not os.environ.get("VERIF_KEEP_WORK") and not os.environ.get("VERIF_WORK"):
        shutil.rmtree(_work, ignore_errors=True)
    _work = None

def hook_env(hooks_on=True):
    env = dict(os.environ)
    env["CARGO_NET_OFFLINE"] = "true"
    env["CURVE25519_DALEK_VERIF_INCLUDE"] = os.path.join(VERIF, "hooks", "curve_hooks.rs")
    env["ED25519_DALEK_VERIF_INCLUDE"] = os.path.join(VERIF, "hooks", "ed_hooks.rs")
    env["X25519_DALEK_VERIF_INCLUDE"] = os.path.join(VERIF, "hooks", "x_hooks.rs")
    env["VERIF_HOOK_DIR"] = os.path.join(VERIF, "hooks")
    env.pop("CARGO_TARGET_DIR", None)
    return env

class BuildError(Exception): pass

_cache = {}
def ir(config, flavour, crate="curve25519-dalek", features=None, hooks=True, no_default=False, with_deps=False):
    """returns path of the .ll file; builds it on first request within this process.
    with_deps: emit IR for every crate of the build (RUSTFLAGS) and return a list of paths, the requested crate first
    followed by the IR of its target dependencies exactly as compiled into it (same symbol hashes), curve25519-dalek first"""
    key = (config, flavour, crate, tuple(features or ()), hooks, no_default, with_deps)
    if key in _cache: return _cache[key]
    tdir = os.path.join(workdir(), "ir-" + hashlib.sha1(repr(key).encode()).hexdigest()[:10])
    env = hook_env()
    rf = CONFIGS[config]
    if hooks: rf = "--cfg curve25519_dalek_verif " + rf
    if with_deps:
        rf += " --emit=llvm-ir,link " + " ".join(FLAVOURS[flavour])
    env["RUSTFLAGS"] = rf
    cmd = ["cargo"]
    if config == "avx512": cmd.append("+nightly")
    cmd += ["rustc", "--offline", "-p", crate, "--lib", "--target-dir", tdir]
    if not flavour.startswith("O0"): cmd.append("--release")
    if no_default: cmd.append("--no-default-features")
    if features: cmd += ["--features", ",".join(features)]
    if with_deps: cmd = [c for c in cmd if c != "rustc"]; cmd.insert(1 if config != "avx512" else 2, "build"); cmd.append("--message-format=json")
    else: cmd += ["--", "--emit=llvm-ir"] + FLAVOURS[flavour]
    t0 = time.time()
    r = subprocess.run(cmd, cwd=REPO, env=env, capture_output=True, text=True)
    if r.returncode != 0:
        raise BuildError("IR build failed (%s %s %s):\n%s" % (config, flavour, crate, r.stderr[-4000:]))
    prof = "release" if not flavour.startswith("O0") else "debug"
    cands = glob.glob(os.path.join(tdir, prof, "deps", crate.replace("-", "_") + "-*.ll"))
    if not cands: raise BuildError("no .ll produced for " + repr(key))
    path = max(cands, key=os.path.getmtime)
    arts = {}
    if with_deps:
        # the artifacts of THIS build (fresh or rebuilt), from cargo's own report: a reused target directory may hold IR of other builds
        import json as _json
        for line in r.stdout.splitlines():
            if not line.startswith("{"): continue
            try: m = _json.loads(line)
            except ValueError: continue
            if m.get("reason") != "compiler-artifact" or not set(m.get("target", {}).get("kind", [])) & {"lib", "rlib"}: continue
            for fnm in m.get("filenames", []):
                b = os.path.basename(fnm)
                if b.startswith("lib") and b.endswith((".rlib", ".rmeta")):
                    ll = os.path.join(os.path.dirname(fnm), b[3:].rsplit(".", 1)[0] + ".ll")
                    if os.path.exists(ll): arts[b[3:].rsplit("-", 1)[0]] = ll
        mine = arts.get(crate.replace("-", "_"))
        if mine: path = mine
    if with_deps and arts:
        host = ("proc_macro2", "quote", "syn", "semver", "rustc_version", "version_check", "unicode_ident", "zeroize_derive",
                "build_script", "serde_derive", "curve25519_dalek_derive", "autocfg")
        rest = [p for k, p in sorted(arts.items(), key=lambda kv: (kv[0] != "curve25519_dalek", kv[1])) if p != path and not k.startswith(host)]
        path = [path] + rest
    elif with_deps:
        host = ("proc_macro2", "quote", "syn", "semver", "rustc_version", "version_check", "unicode_ident", "zeroize_derive",
                "build_script", "serde_derive", "curve25519_dalek_derive", "autocfg")
        rest = [p for p in sorted(glob.glob(os.path.join(tdir, prof, "deps", "*.ll")), key=lambda q: (not os.path.basename(q).startswith("curve25519_dalek-"), q))
                if p != path and not os.path.basename(p).startswith(host)]
        newest = {}
        for p in rest:
            k = os.path.basename(p).rsplit("-", 1)[0]
            if k not in newest or os.path.getmtime(p) > os.path.getmtime(newest[k]): newest[k] = p
        path = [path] + [p for p in rest if newest[os.path.basename(p).rsplit("-", 1)[0]] == p]
    _cache[key] = path
    sys.stderr.write("[build] %s %s %s -> %.1fs\n" % (config, flavour, crate, time.time() - t0))
    return path

def ir_many(requests, jobs=6):
    """build several IR files in parallel; requests: list of kwargs dicts / tuples"""
    from concurrent.futures import ThreadPoolExecutor
    def one(rq):
        try: return ir(**rq)
        except BuildError as e: return e
    with ThreadPoolExecutor(max_workers=jobs) as ex:
        return list(ex.map(one, requests))
