"""vp check <ID> [--tier quick|thorough]   |   vp replay <path>   |   vp selftest
Exit codes: 0 property held on everything explored; 1 VIOLATION (replayed, not a known finding);
2 inconclusive (unsupported IR / solver unknown / model not reproducible) - never counted as a pass."""
import sys, os, json, time, importlib, traceback, atexit
HERE = os.path.dirname(os.path.dirname(os.path.abspath(__file__)))
sys.path.insert(0, HERE)
from vp import build

def load_known():
    try: return json.load(open(os.path.join(HERE, "known_findings.json")))
    except Exception: return {"findings": []}

def main():
    if len(sys.argv) < 3 or sys.argv[1] not in ("check", "replay"):
        print(__doc__); return 2
    if sys.argv[1] == "replay":
        from vp import replay
        return replay.main(sys.argv[2:])
    pid = sys.argv[2].upper()
    tier = os.environ.get("VERIF_TIER", "quick")
    if "--tier" in sys.argv: tier = sys.argv[sys.argv.index("--tier") + 1]
    seed = int(os.environ.get("VERIF_SEED", "0") or 0)
    if tier == "thorough": os.environ.setdefault("VERIF_TASK_TIMEOUT", "5400")
    atexit.register(build.cleanup)
    t0 = time.time()
    mod = importlib.import_module("checks." + pid.lower())
    evdir = os.environ.get("VERIF_EVIDENCE_DIR") or os.path.join(HERE, "evidence")
    os.makedirs(evdir, exist_ok=True)
    evpath = os.path.join(evdir, pid + ".json")
    try: os.unlink(evpath)
    except OSError: pass
    try:
        rep = mod.run(tier, seed)
    except build.BuildError as e:
        print("INCONCLUSIVE property=%s build failed: %s" % (pid, str(e)[-1500:])); return 2
    known = [k for k in load_known().get("findings", []) if k.get("property") == pid and k.get("status", "open") == "open"]
    viols = []
    for v in rep.violations:
        key = v.get("finding_key") or v.get("harness")
        k = [x for x in known if x.get("key") == key]
        if k: print("KNOWN-FINDING: property=%s %s" % (pid, k[0].get("what", key))); v["status"] = "known-finding"
        else: viols.append(v)
    ev = mod.evidence(rep, tier, seed, time.time() - t0) if hasattr(mod, "evidence") else default_evidence(rep, pid, tier, seed, time.time() - t0)
    ev["violations"] = len(viols)
    with open(evpath, "w") as f: json.dump(ev, f, indent=1, default=str)
    for it in rep.items:
        print("[%s] %-48s %-12s %6.2fs %s" % (pid, it.get("harness"), it.get("status"), it.get("wall_s", 0), it.get("why", "")))
    rc = 0
    if viols:
        rdir = os.path.join(os.environ.get("VERIF_EVIDENCE_DIR") or HERE, "replays", pid)
        os.makedirs(rdir, exist_ok=True)
        for i, v in enumerate(viols):
            rp = os.path.join(rdir, "%s.json" % (v.get("harness", "h%d" % i).replace("/", "_").replace(" ", "_")))
            json.dump(v, open(rp, "w"), indent=1, default=str)
            print("VIOLATION property=%s replay=%s" % (pid, rp))
        rc = 1
    elif rep.inconclusive:
        for v in rep.inconclusive: print("INCONCLUSIVE property=%s harness=%s: %s" % (pid, v.get("harness"), v.get("why")))
        rc = 2
    print("[%s] tier=%s harnesses=%d violations=%d inconclusive=%d wall=%.1fs" % (pid, tier, len(rep.items), len(viols), len(rep.inconclusive), time.time() - t0))
    return rc

def default_evidence(rep, pid, tier, seed, wall):
    from llsym import smt
    goals = [g for it in rep.items for g in it.get("goals", [])]
    solver_goals = [g for g in goals if g.get("solver_calls", 0) > 0 or g.get("kind") == "polynomial identity mod p" or g.get("nontrivial")]
    samples = []
    for it in rep.items[:6]:
        samples.append(dict(harness=it.get("harness"), bounds=it.get("bounds"), status=it.get("status"),
                            goals=[(g["goal"], g["verdict"], g["solver_s"]) for g in it.get("goals", [])][:6]))
    return dict(property_id=pid, tier=tier, seed=seed, level=getattr(rep, "level", "model_checking"),
        coverage=dict(
            evaluations=len(goals), distinct_nontrivial=len(solver_goals),
            rule="one evaluation = one proof obligation over symbolic inputs; non-trivial = needed at least one SMT solver call, or is a polynomial identity over GF(p) decided by normal-form computation on the symbolic execution result (structural conditions and obligations closed by interval arithmetic alone are not counted), or is a whole-execution obligation the check marks as such - a complete symbolic execution over abstract inputs that had to establish at least one data-dependent fact (C10: operations on secret data with at least one branch/address shown public; C13/C14: a polynomial identity or an erasure/dataflow fact on a path with symbolic content); distinct by (harness, path, goal)",
            programs=len(rep.functions), disagreements_checked=len(goals),
            samples=samples, obligations=len(goals), discharged=len([g for g in goals if g["verdict"] == "unsat"]),
            functions_encoded=sorted(rep.functions), configurations=sorted(rep.configs),
            harnesses=[dict(harness=it.get("harness"), status=it.get("status"), bounds=it.get("bounds"), ir_steps=it.get("ir_steps"),
                            zero_lemmas=it.get("zero_lemmas"), vacuity_witness=it.get("vacuity_witness"), wall_s=it.get("wall_s"),
                            panic_edges_closed_by_intervals=it.get("panic_edges_closed_by_intervals"), panic_edges_to_solver=it.get("panic_edges_to_solver"),
                            encoder_selftest=(it.get("encoder_selftest") or {}).get("ok"), why=it.get("why"),
                            paths=it.get("paths"), infeasible_paths=it.get("infeasible_paths"), intercepted=it.get("intercepted"),
                            goals=[dict(goal=g["goal"], verdict=g["verdict"], solver_s=g["solver_s"], cases=g.get("cases"), solver_calls=g.get("solver_calls"), kind=g.get("kind")) for g in it.get("goals", [])][:40])
                       for it in rep.items],
            solver=dict(queries=smt.STATS["queries"], solver_s=round(smt.STATS["solver_s"], 2), by_verdict=smt.STATS["by_verdict"]),
            explanation=getattr(rep, "explanation", "bounded symbolic execution of the compiled LLVM IR; SMT verdict per obligation"),
        ),
        assumptions=sorted(set(a for it in rep.items for a in it.get("assumptions", []))) + getattr(rep, "assumptions", []),
        wall_s=round(wall, 2))

if __name__ == "__main__":
    sys.exit(main())
