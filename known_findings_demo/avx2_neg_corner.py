import sys; import os; sys.path.insert(0, os.path.dirname(os.path.dirname(os.path.abspath(__file__))))
from vp import native
P = 2**255-19
W10 = [0, 26, 51, 77, 102, 128, 153, 179, 204, 230]
IDX = {"A": (0, 2), "B": (1, 3), "C": (4, 6), "D": (5, 7)}
def pack(lanes):   # lanes: dict lane -> 10 coefficients
    b = bytearray(160)
    for l, cs in lanes.items():
        for i, c in enumerate(cs):
            off = 32 * (i // 2) + 4 * IDX[l][i % 2]; b[off:off+4] = int(c).to_bytes(4, "little")
    return bytes(b)
def unpack(b):
    return {l: [int.from_bytes(b[32*(i//2)+4*IDX[l][i%2]:][:4], "little") for i in range(10)] for l in IDX}
val = lambda cs: sum(c << w for c, w in zip(cs, W10))
x = [ (1<<30)-1 ] + [0]*9           # coefficient 0 of lane A = 2^30 - 1  (b = 3.9999999987 < 4.0)
inp = {"A": x, "B": [1]+[0]*9, "C": [0]*10, "D": [5]+[0]*9}
out = native.run("simd", [("vp_v_neg", [pack(inp)])])[0]
if isinstance(out, tuple) or out is None: print("native:", out); sys.exit()
o = unpack(out)
for l in "ABCD": print(l, "in", val(inp[l]) % P == (-val(o[l])) % P, "native -x mod p == spec:", (val(o[l]) + val(inp[l])) % P == 0)
