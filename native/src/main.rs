// Native replay / translator-validation runner: reads lines "<fn> <hexarg> <hexarg> ..." from stdin, calls the
// `vp_*` wrapper of the really compiled crate through verif_hooks::raw::vp_raw_call, prints the output bytes in hex
// ("PANIC <msg>" if the call panicked, "UNKNOWN" for an unknown wrapper).
use std::io::{self, BufRead, Write};
fn unhex(s: &str) -> Vec<u8> { (0..s.len() / 2).map(|i| u8::from_str_radix(&s[2 * i..2 * i + 2], 16).unwrap()).collect() }
fn main() {
    let stdin = io::stdin(); let out = io::stdout(); let mut out = out.lock();
    std::panic::set_hook(Box::new(|_| {}));
    for line in stdin.lock().lines() {
        let line = line.unwrap(); let mut it = line.split_whitespace();
        let name = match it.next() { Some(n) => n.to_string(), None => continue };
        let args: Vec<Vec<u8>> = it.map(unhex).collect();
        let r = std::panic::catch_unwind(|| {
            let refs: Vec<&[u8]> = args.iter().map(|v| &v[..]).collect();
            let mut o = Vec::new();
            if curve25519_dalek::verif_hooks::raw::vp_raw_call(&name, &refs, &mut o) { Some(o) } else { None }
        });
        match r {
            Ok(Some(o)) => { let h: String = o.iter().map(|b| format!("{:02x}", b)).collect(); writeln!(out, "{}", if h.is_empty() { "-".to_string() } else { h }).unwrap(); }
            Ok(None) => writeln!(out, "UNKNOWN").unwrap(),
            Err(e) => { let m = e.downcast_ref::<String>().cloned().or_else(|| e.downcast_ref::<&str>().map(|s| s.to_string())).unwrap_or_default(); writeln!(out, "PANIC {}", m.replace('\n', " ")).unwrap(); }
        }
    }
}
